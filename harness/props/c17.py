"""C17 — stoichiometric analysis agrees with exact linear algebra.

NumPy/SciPy numerics are an external oracle.  For every generated network the harness

1. builds the real `CRNHyperGraph`, reads the store back (species, reactions by id) and
   calls every anchored entry point of `synkit/CRN/Props/stoich.py` (+ `Petri/semiflows.py`,
   `CRNHyperGraph.incidence_matrix`);
2. computes, with exact `fractions.Fraction` arithmetic, *certificates* of the truth: a rank
   certificate (column basis, left inverse, coordinates of all columns), exact bases of both
   kernels with a left-inverse independence certificate, and for conservativity and for
   consistency either a strictly positive kernel vector or the Stiemke/Gordan alternative
   (both found by an exact phase-1 simplex with Bland's rule);
3. sends network + certificates to the Lean driver (`stoich.check`), which rebuilds S with the
   model of `build_S` and *checks* every certificate with the checkers proved sound in
   `SynKitProofs/Props/C17.lean` — a certificate that does not check is an infrastructure
   failure of the harness, never a verdict;
4. compares every verdict of the implementation with the certified truth (gates listed in
   `GATES`).  Float vectors never cross the protocol: annihilation / positivity of the numeric
   bases and witnesses is tested here with a stated tolerance and counted.

Besides freshly built networks the harness runs *sessions*: one store object is analysed, edited in
place through the public hypergraph API, and analysed again (every entry point, random query order,
repeated queries, a reused NetworkX view object).  The specification side is recomputed from the store
dump of each state, so it cannot share hidden state with the implementation.  The row / column order of
S is gated against the model (`buildS_orders`); see `ctx.assumptions` for how a divergence is classified.

A further population hands the network over as a HAND-BUILT bipartite NetworkX graph (DiGraph and undirected Graph, the
documented conventions: `kind` / `bipartite` flags, `label`, `role`, `stoich`): node ids (ints, strings, mixed) unrelated to the
labels, nodes and edges inserted in any order, objects extended / edited in place / copied / rebuilt between queries.  The
expected network is read off the case DESCRIPTION only (`graph_states`); rows are compared by the returned species label, the
returned order must be the lexicographic label order `_species_and_reaction_order` documents, and every returned kernel vector /
witness has to annihilate the label-indexed matrix of the described network.

The graph READING itself is modelled too (`SynKitModel/BipGraph.lean`, driver command `bip.stoich`): at every query on a
hand-built graph the NetworkX object is serialised node by node and edge by edge (`bip_request`) and what
build_S_minus_plus(G) / build_S(G) returned has to equal the model's labels, order, S_minus, S_plus, S (`judge_bip`); theorems
`graphS_eq_buildS`, `graphS_eq_buildS_upto_ties` say that this model is `buildS` of the described network `netOfGraph G`
(checked against the case description as a harness self-test), `graphS_orientation_invariant`,
`graphS_undirected_eq_directed`, `graphS_missing_stoich` that it does not depend on how the graph is written.  The stream
`graph-written` uses the model as the only oracle: graphs given by their add_node / add_edge calls (arcs either way, repeated
pairs overwriting stored edges of the non-multi classes, missing roles, undeclared nodes).

Coverage-gap streams (`noscipy+extras`, `graph-multi`): (1) everything above is repeated in a SIMULATED environment without
SciPy (`_Env`: the three module globals the guarded import of stoich.py sets are put into the state its `except` arm leaves),
which executes the SVD null-space fall-back, the basis-scan fall-backs of is_conservative / compute_conservativity /
is_consistent and their documented verdict None; there the verdicts are also gated against the Lean model of the decision
logic (no LP oracle is involved); (2) StoichSummary.from_crn with each combination of its two switches, is_full_rank /
is_underdetermined, has_irreversible_futile_cycles, CRNHyperGraph.stoichiometric_matrix (alias); (3) hand-built
nx.MultiDiGraph / nx.MultiGraph objects (parallel reactant + product edges, parallel edges of one role), graphs holding nodes
that are neither species nor reaction and edges that do not join a species to a reaction (stoich.py: "Ignore edges that do not
connect species to reaction"), nodes whose `bipartite` flag contradicts their `kind` (documented: `kind` decides).

Representation-and-scale streams (`scale`, `scale-session`, `scale-graph`): networks whose conservation law / steady flux has a
large dynamic range (cascades X0 >> 3 X1 >> ..., 50 A >> B, 50 B >> C; ratios up to 2e5), multi-digit coefficients, sizes one
step beyond the enumerated / random bounds; coefficients handed over as float / NumPy scalars / through one-shot iterables;
graph attributes nobody asked for.  The truth is the same exact certificate as everywhere else; an exact guard (`scale_profile`)
keeps the inputs inside the range where double precision with the implementation's fixed thresholds can decide.

Non-integral coefficients (`graph-fractional`): a hand-built graph may carry any number as `stoich` (the code reads it with
float()), the store and the Lean models hold integers.  The generated coefficients are multiples of 1/k (k = 2, 4, 8: 3/2, 1/2,
0.25, 2.5 ... written as float / numpy.float64 / float32 / float16, mixed with integral ones written as int / float / NumPy
scalars); the case description holds the graph k * g, which is inside the models.  build_S is linear in the coefficients:
the returned S_minus / S_plus / S times k have to equal the model's matrices for k * g (`bip.stoich`) and the described
network's; rank, kernel dimensions and both verdicts are gated against the certificates of k * g (they coincide), the returned
kernel vectors / witnesses against the matrix as returned.

The modelled decision logic (`stoich.logic`) is run on the observed oracle outcomes
(kernel sizes, sign-definite columns, LP status) and its agreement with the implementation is
recorded in the counters (not gated: `None` versus `False` is not fixed by the property).
"""
import itertools
import json
import math
from fractions import Fraction as Fr

from ..core import ROOT, Infra, build_and_audit

THEOREMS = [
    "SynKit.Stoich.buildS_entry",
    "SynKit.Stoich.buildS_shape",
    "SynKit.Stoich.buildS_orders",
    "SynKit.Stoich.checkRank_sound",
    "SynKit.Stoich.kernel_dims",
    "SynKit.Stoich.checkKernelBasis_sound",
    "SynKit.Stoich.kernelBasis_spans",
    "SynKit.Stoich.checkPositive_sound",
    "SynKit.Stoich.stiemke_easy",
    "SynKit.Stoich.stiemke_easy_left",
    "SynKit.Stoich.checkAlternative_sound",
    "SynKit.Stoich.conservative_cert_sound",
    "SynKit.Stoich.not_conservative_cert_sound",
    "SynKit.Stoich.consistent_cert_sound",
    "SynKit.Stoich.not_consistent_cert_sound",
    "SynKit.Stoich.conservative_logic",
    "SynKit.Stoich.conservative_logic_outside_lp",
    "SynKit.Stoich.conservative_unbounded_witness",
    "SynKit.Stoich.conservative_lp_stage_never_true",
    "SynKit.Stoich.consistent_logic",
    "SynKit.Stoich.consistent_logic_iff",
    "SynKit.Stoich.C17.full",
    "SynKit.BipGraph.graphS_eq_buildS",
    "SynKit.BipGraph.graphS_eq_buildS_upto_ties",
    "SynKit.BipGraph.graphS_orientation_invariant",
    "SynKit.BipGraph.graphS_undirected_eq_directed",
    "SynKit.BipGraph.graphS_missing_stoich",
]

EPS = 1e-8          # the implementation's default margin
TOL = 1e-9          # tolerance of the numeric annihilation / witness tests (relative to the vector norm)

GATES = ("S entries = produced - consumed (rows by returned species label, columns as a multiset with their rule label), for the store and for "
         "its exported bipartite view (and for NetworkX views made with non-default options); (species, rule labels, S) of build_S equal the "
         "model's INCLUDING the row / column order; every returned kernel basis / witness also annihilates the store's own matrix taken in the "
         "store's edge order; "
         "S = S_plus - S_minus with S_minus/S_plus the consumed/produced counts; S equals the store's incidence_matrix up to "
         "column order; stoichiometric_rank and summary.rank = certified rank; kernel bases (left/right_nullspace, "
         "left_right_kernels, find_p/t_semiflows) have n_species-rank / n_reactions-rank columns, are numerically independent and "
         "annihilate S within 1e-9 relative to the vector norm; summary dimensions; is_conservative / compute_conservativity / "
         "summary.is_conservative is True <=> a checked strictly positive left-kernel vector exists; returned conservation law is "
         "positive and annihilates S (numerically); is_consistent / summary.is_consistent is True <=> a checked strictly positive "
         "right-kernel vector exists.  HAND-BUILT bipartite NetworkX graphs (every anchored entry point called with the graph object): "
         "returned species / reaction labels = the label attribute (else the node id as string), in lexicographic order; the entry in the row "
         "labelled s and a column labelled r = produced - consumed of s in a reaction labelled r (columns with equal label as a multiset; a "
         "missing stoich counts 1); same for S_minus / S_plus; build_S(graph) = build_S(CRNHyperGraph of the described network) = that "
         "store's incidence_matrix under identical species labels; rank, dimensions, verdicts as above against certificates of the described "
         "network; every kernel basis / witness annihilates the described network's matrix indexed by the returned labels; and, independently "
         "of the description, (species labels, reaction labels, S_minus, S_plus, S) or the ValueError of build_S_minus_plus(G) / build_S(G) equal, "
         "INCLUDING row / column order, the Lean model of the graph reading (driver command bip.stoich, SynKitModel/BipGraph.lean) evaluated "
         "on the same NetworkX object serialised node by node and edge by edge (theorems graphS_eq_buildS / graphS_eq_buildS_upto_ties: on a "
         "well-formed graph that model is build_S of the described network; a difference on an ill-formed graph is reported without failing "
         "input); GRAPH-WRITTEN: the same model-based gate with the graph given by its add_node / add_edge calls only.  "
         "SIMULATED ENVIRONMENT WITHOUT SciPy: all gates above, except that a verdict None is accepted where (and only where) the docstrings "
         "announce it (is_conservative / compute_conservativity: returned left-kernel basis has >= 2 columns, none sign-definite; is_consistent: "
         "returned right-kernel basis is non-empty, no column sign-definite); the three verdicts and the presence of a witness equal the Lean "
         "model of the decision logic (stoich.logic, scipy = false) on the observed basis shapes / sign patterns.  "
         "StoichSummary.from_crn(conservativity_check=a, consistency_check=b): counts / rank / dimensions = certified values; is_full_rank <=> "
         "rank = min(n_species, n_reactions); is_underdetermined <=> rank < n_reactions; a requested verdict as the stand-alone call, a verdict "
         "that was not requested is never True without a certificate; has_irreversible_futile_cycles <=> n_reactions - rank > 0; "
         "CRNHyperGraph.stoichiometric_matrix(sparse=False) = incidence_matrix(sparse=False).  "
         "NON-INTEGRAL COEFFICIENTS (hand-built graphs whose stoich values are multiples of 1/k, k in {2, 4, 8}): k * S_minus, k * S_plus, k * S "
         "of what build_S_minus_plus / build_S returned are integer matrices and equal, under the gates for hand-built graphs above, the "
         "matrices of the graph k * g (described network and Lean model bip.stoich of k * g, INCLUDING row / column order); rank, summary "
         "dimensions, kernel-basis dimensions, is_conservative / compute_conservativity / is_consistent / summary verdicts equal the "
         "certified values of k * g; every returned kernel vector / witness annihilates (1/k) * (matrix of k * g) within 1e-9.")


# =============================================================== exact linear algebra
def rref(M, ncols):
    """Reduced row echelon form of the Fraction matrix M (list of rows) together with the
    transformation E (R = E M).  -> (R, E, pivot column list)."""
    m = len(M)
    R = [list(r) for r in M]
    E = [[Fr(int(i == j)) for j in range(m)] for i in range(m)]
    piv = []
    row = 0
    for c in range(ncols):
        p = next((i for i in range(row, m) if R[i][c] != 0), None)
        if p is None:
            continue
        R[row], R[p] = R[p], R[row]
        E[row], E[p] = E[p], E[row]
        inv = 1 / R[row][c]
        R[row] = [x * inv for x in R[row]]
        E[row] = [x * inv for x in E[row]]
        for i in range(m):
            if i != row and R[i][c] != 0:
                f = R[i][c]
                R[i] = [a - f * b for a, b in zip(R[i], R[row])]
                E[i] = [a - f * b for a, b in zip(E[i], E[row])]
        piv.append(c)
        row += 1
        if row == m:
            break
    return R, E, piv


def rank_certificate(S, m, n):
    R, E, piv = rref(S, n)
    r = len(piv)
    return {"cols": piv, "L": [E[i] for i in range(r)], "C": [R[i] for i in range(r)]}


def kernel_certificate(A, rows, cols):
    """Exact basis of {x : A x = 0} (A is rows x cols) + left inverse of the basis matrix."""
    R, _, piv = rref(A, cols)
    free = [c for c in range(cols) if c not in piv]
    B = []
    for f in free:
        v = [Fr(0)] * cols
        v[f] = Fr(1)
        for i, pc in enumerate(piv):
            v[pc] = -R[i][f]
        B.append(v)
    L = [[Fr(int(c == f)) for c in range(cols)] for f in free]
    return {"r": len(piv), "B": B, "L": L}


def feasible(A, b):
    """Exact phase-1 simplex (Bland's rule): some z >= 0 with A z = b, or None."""
    p = len(A)
    q = len(A[0]) if p else 0
    if p == 0:
        return [Fr(0)] * q
    T = []
    for i in range(p):
        sgn = -1 if b[i] < 0 else 1
        T.append([sgn * x for x in A[i]] + [Fr(int(i == k)) for k in range(p)] + [sgn * b[i]])
    basis = [q + i for i in range(p)]
    while True:
        # reduced costs of the structural columns for the objective "sum of artificials"
        enter = None
        for j in range(q):
            d = -sum(T[i][j] for i in range(p) if basis[i] >= q)
            if d < 0 and j not in basis:
                enter = j
                break
        if enter is None:
            break
        best = None
        for i in range(p):
            if T[i][enter] > 0:
                ratio = T[i][-1] / T[i][enter]
                if best is None or ratio < best[0] or (ratio == best[0] and basis[i] < basis[best[1]]):
                    best = (ratio, i)
        if best is None:  # cannot happen: the phase-1 objective is bounded below
            raise Infra("phase-1 simplex: unbounded ray")
        i0 = best[1]
        pv = T[i0][enter]
        T[i0] = [x / pv for x in T[i0]]
        for i in range(p):
            if i != i0 and T[i][enter] != 0:
                f = T[i][enter]
                T[i] = [a - f * c for a, c in zip(T[i], T[i0])]
        basis[i0] = enter
    if any(basis[i] >= q and T[i][-1] != 0 for i in range(p)):
        return None
    z = [Fr(0)] * q
    for i in range(p):
        if basis[i] < q:
            z[basis[i]] = T[i][-1]
    return z


def positive_kernel_or_alternative(A, rows, cols):
    """For A (rows x cols): ('pos', x) with x > 0, A x = 0, or ('alt', y) with y^T A >= 0, != 0."""
    if cols == 0:
        raise Infra("no columns")
    ones = [Fr(1)] * cols
    b = [-sum(A[i]) for i in range(rows)]
    z = feasible([list(r) for r in A], b) if rows else [Fr(0)] * cols
    pos = [1 + t for t in z] if z is not None else None
    # alternative: A^T y - s = 0, (1^T A^T) y = 1, y free (split), s >= 0
    eqs, rhs = [], []
    for j in range(cols):
        col = [A[i][j] for i in range(rows)]
        eqs.append(col + [-x for x in col] + [Fr(-int(k == j)) for k in range(cols)])
        rhs.append(Fr(0))
    tot = [sum(A[i][j] for j in range(cols)) for i in range(rows)]
    eqs.append(tot + [-x for x in tot] + [Fr(0)] * cols)
    rhs.append(Fr(1))
    w = feasible(eqs, rhs)
    alt = [w[i] - w[rows + i] for i in range(rows)] if w is not None else None
    if (pos is None) == (alt is None):
        raise Infra(f"exact solver: expected exactly one of positive vector / alternative, got pos={pos} alt={alt} for A={A}")
    return ("pos", pos) if pos is not None else ("alt", alt)


def q(x):
    return [x.numerator, x.denominator]


def qv(v):
    return [q(x) for x in v]


def qm(M):
    return [qv(r) for r in M]


# =============================================================== networks
def _sides(rx):
    """The two sides of a generated reaction in the input form asked for (`form`): every form add_rxn accepts."""
    from synkit.CRN.Hypergraph.rxn import RXNSide

    form = rx.get("form") or "dict"
    out = []
    for side in (rx["r"], rx["p"]):
        if form == "list":
            out.append([s for s, c in side for _ in range(c)])
        elif form == "pairs":
            out.append([(s, c) for s, c in side])
        elif form == "side":
            out.append(RXNSide.from_any({s: c for s, c in side}))
        # -- representation variants (all stand for the SAME network: the coefficient is the integer c)
        elif form == "gen":             # one-shot iterable of (label, count) pairs (documented: Iterable[Tuple[str, int]])
            out.append(((s, c) for s, c in list(side)))
        elif form == "iter" and all(c <= 300 for _, c in side):   # one-shot iterable of labels (documented: Iterable[str])
            out.append(iter([s for s, c in side for _ in range(c)]))
        elif form == "map":             # one-shot `map` object yielding pairs
            out.append(map(tuple, [[s, c] for s, c in side]))
        elif form in ("float", "npint", "npfloat", "mixednum"):
            import numpy as np

            kinds = {"float": [float], "npint": [np.int64], "npfloat": [np.float64],
                     "mixednum": [int, float, np.int64, np.float64, np.int32]}[form]
            # values equal under == but of different type / print, mixed within one side
            out.append({s: kinds[(i + len(side)) % len(kinds)](c) for i, (s, c) in enumerate(side)})
        else:
            out.append({s: c for s, c in side})
    return out


def _as_string(rx):
    import re

    if not all(re.fullmatch(r"[A-Za-z][A-Za-z0-9_]*", s) for s, _ in rx["r"] + rx["p"]):
        return None
    fmt = lambda side: " + ".join((f"{c} {s}" if c != 1 else s) for s, c in side)
    return f"{fmt(rx['r'])} >> {fmt(rx['p'])}"


def add_one(H, rx):
    line = _as_string(rx) if rx.get("form") == "str" and rx.get("eid") is None else None
    if line is not None:
        return H.add_rxn_from_str(line, rule=rx.get("rule"), parse_rule_from_suffix=False)
    r, p = _sides(rx)
    try:
        return H.add_rxn(r, p, rule=rx.get("rule"), edge_id=rx.get("eid"))
    except KeyError:   # explicit id already taken by a generated one: let the store choose
        r, p = _sides(rx)
        return H.add_rxn(r, p, rule=rx.get("rule"))


def build_net(net):
    """net = {"rxns": [{"r": [[s,c]..], "p": [[s,c]..], "rule": str|None, "eid": str|None, "form": ..}], "isolated": [s..]}"""
    from synkit.CRN.Hypergraph.hypergraph import CRNHyperGraph

    H = CRNHyperGraph()
    for rx in net["rxns"]:
        add_one(H, rx)
    for s in net.get("isolated", []):
        if s in H.species:
            continue
        # a species that stays in the store without any reaction: add a helper reaction, strip the
        # species with prune_orphans=False, remove the helper
        e = H.add_rxn({s: 1}, {"__tmp": 1}, rule="tmp")
        H.remove_species(s, prune_orphans=False)
        H.remove_rxn(e.id)
    return H


def store_dump(H):
    edges = [{"id": k, "rule": e.rule, "r": [[s, int(c)] for s, c in e.reactants.items()],
              "p": [[s, int(c)] for s, c in e.products.items()]} for k, e in H.edges.items()]
    return {"species": sorted(H.species), "edges": edges}


def spec_S(dump):
    """produced - consumed, rows by sorted species label, one column per reaction (as stored)."""
    sp = dump["species"]
    cols = []
    # presentation order of the columns = the model's (by id, then stably by rule); every gate below is
    # order-independent, the order only fixes how certificates are indexed (checked against the driver's `ids`)
    for e in sorted(sorted(dump["edges"], key=lambda e: e["id"]), key=lambda e: e["rule"]):
        r, p = dict(map(tuple, e["r"])), dict(map(tuple, e["p"]))
        cols.append((e["rule"], tuple(p.get(s, 0) - r.get(s, 0) for s in sp),
                     tuple(r.get(s, 0) for s in sp), tuple(p.get(s, 0) for s in sp), e["id"]))
    return sp, cols


class _LinprogRecorder:
    """Pass-through wrapper around `stoich.linprog` that records every call's outcome."""

    def __init__(self, real):
        self.real = real
        self.calls = []

    def __call__(self, c, **kw):
        try:
            res = self.real(c, **kw)
        except Exception:
            self.calls.append({"kind": "ub" if kw.get("A_ub") is not None else "eq", "exc": True})
            raise
        self.calls.append({"kind": "ub" if kw.get("A_ub") is not None else "eq", "exc": False, "status": int(res.status),
                           "success": bool(res.success), "x": None if res.x is None else [float(t) for t in res.x]})
        return res


def as_int_matrix(M):
    import numpy as np

    M = np.asarray(M)
    R = np.rint(M)
    exact = bool(np.all(R == M))
    return [[int(x) for x in row] for row in R.tolist()], exact


def basis_report(B, S, side, nrows):
    """Numeric report on a kernel basis: shape, worst relative residual, independence."""
    import numpy as np

    B = np.asarray(B, dtype=float)
    if B.ndim != 2:
        return {"shape": list(B.shape), "bad_shape": True}
    rep = {"shape": list(B.shape), "bad_shape": B.shape[0] != nrows, "worst": 0.0, "independent": True}
    if rep["bad_shape"] or B.shape[1] == 0:
        return rep
    worst = 0.0
    for k in range(B.shape[1]):
        b = B[:, k]
        res = (b @ S) if side == "left" else (S @ b)
        nb = float(np.linalg.norm(b))
        worst = max(worst, float(np.max(np.abs(res))) / nb if nb > 0 else float("inf"))
    rep["worst"] = worst
    sv = np.linalg.svd(B, compute_uv=False)
    rep["independent"] = bool(sv.min() > 1e-6 * max(1.0, sv.max()))
    rep["signdef"] = [bool(np.all(B[:, k] > EPS) or np.all(B[:, k] < -EPS)) for k in range(B.shape[1])]
    return rep


BLOCKS = ("S", "Smp", "view", "inc", "same", "rank", "left", "right", "lrk", "psf", "tsf", "laws",
          "is_cons", "compute", "is_consi", "summary")

# ways of handing the same network over as a NetworkX graph (kwargs of hypergraph_to_bipartite + node attributes
# removed afterwards: the code classifies a node by `kind` OR by `bipartite`, either alone must do)
VIEW_VARIANTS = [
    {"kw": {"integer_ids": True}, "drop": None},
    {"kw": {"integer_ids": True, "include_edge_id_attr": True}, "drop": "kind"},
    {"kw": {"integer_ids": True}, "drop": "bipartite"},
    {"kw": {}, "drop": "kind"},
    {"kw": {}, "drop": "bipartite"},
    {"kw": {"species_prefix": None}, "drop": None},
    {"kw": {"species_prefix": "Z", "reaction_prefix": "A:"}, "drop": None},
    {"kw": {"include_isolated_species": False}, "drop": None},
    {"kw": {"include_isolated_species": False, "integer_ids": True}, "drop": None},
    {"kw": {"include_role": True, "include_stoich": True, "include_edge_id_attr": True}, "drop": None},
]


def make_view(H, variant, reuse=None):
    """The network as a bipartite NetworkX graph.  `reuse`: an existing DiGraph object that is emptied and
    refilled (same Python object, new content) instead of handing over a new one."""
    from synkit.CRN.Hypergraph.conversion import hypergraph_to_bipartite

    G = hypergraph_to_bipartite(H, **variant["kw"])
    if variant["drop"]:
        for _, d in G.nodes(data=True):
            d.pop(variant["drop"], None)
    if reuse is None:
        return G
    reuse.clear()
    reuse.add_nodes_from(G.nodes(data=True))
    reuse.add_edges_from(G.edges(data=True))
    return reuse


def store_matrix(dump, species):
    """produced - consumed read off the store, rows in the order of `species` (labels as the implementation
    returned them), columns in the store's edge order as the model arranges it (by id, then stably by rule:
    for equally labelled reactions this is the column order of the store's own incidence_matrix)."""
    import numpy as np

    sp, cols = spec_S(dump)
    if sorted(species) != sp or not cols:
        return None
    idx = [sp.index(s) for s in species]
    return np.array([[cols[j][1][i] for j in range(len(cols))] for i in idx], dtype=float).reshape(len(idx), len(cols))



class _Env:
    """Context manager around the module globals of `stoich` that stand for the numeric back end.  Default: `linprog` is
    replaced by the recording pass-through.  noscipy=True SIMULATES AN ENVIRONMENT WITHOUT SciPy (what the `except` arm
    of the guarded import at the top of stoich.py leaves behind: `_SCIPY_AVAILABLE = False`, `scipy_null_space = None`,
    `linprog = None`), so that the documented fall-backs (`_svd_null_space`, basis scans, verdict None) are executed."""

    def __init__(self, stoich, rec, noscipy):
        self.stoich, self.rec, self.noscipy = stoich, rec, noscipy

    def __enter__(self):
        st = self.stoich
        self.saved = (st._SCIPY_AVAILABLE, st.scipy_null_space, st.linprog)
        if self.noscipy:
            st._SCIPY_AVAILABLE, st.scipy_null_space, st.linprog = False, None, None
        else:
            st.linprog = self.rec
        return self

    def __exit__(self, *a):
        st = self.stoich
        st._SCIPY_AVAILABLE, st.scipy_null_space, st.linprog = self.saved
        return False


def observe_extras(X, x, stoich):
    """Entry points / options of the anchored module that the main blocks never vary (X: store or NetworkX graph):
    StoichSummary.from_crn with its two switches, the derived properties of the summary, has_irreversible_futile_cycles."""
    a, b = bool(x["sum"][0]), bool(x["sum"][1])
    sm = stoich.StoichSummary.from_crn(X, conservativity_check=a, consistency_check=b)
    d = {k: (v if v is None or isinstance(v, bool) else int(v)) for k, v in sm.to_dict().items()}
    return {"flags": [a, b], "dict": d, "full_rank": bool(sm.is_full_rank), "underdetermined": bool(sm.is_underdetermined),
            "str_lines": len(str(sm).splitlines()), "futile": bool(stoich.has_irreversible_futile_cycles(X)),
            "futile_rtol": bool(stoich.has_irreversible_futile_cycles(X, rtol=1e-11))}


def observe_H(H, order=None, warm=(), view_variants=(), view_reuse=None, opts=None, x=None):
    """Run the implementation on one store object.  Everything returned is JSON-able and float-free
    except the recorded residual magnitudes (which stay in Python).

    order: the order in which the entry points are queried (a permutation of BLOCKS; default = BLOCKS);
    warm: entry points queried beforehand with their results thrown away (repeated queries);
    view_variants: indices into VIEW_VARIANTS, each handed to build_S as a NetworkX graph;
    view_reuse: a DiGraph object reused (cleared + refilled) for the default view;
    opts: non-default tolerances {"tol", "rtol", "eps", "ceps"} for a second round of queries;
    x: {"noscipy": bool, "sum": [bool, bool]} -- run everything in the simulated no-SciPy environment (`_Env`) and / or
       query the extra entry points of `observe_extras`."""
    import numpy as np
    from synkit.CRN.Props import stoich
    from synkit.CRN.Petri import semiflows

    dump = store_dump(H)
    out = {"dump": dump}
    real = stoich.linprog
    rec = _LinprogRecorder(real)
    raw = {}
    noscipy = bool(x and x.get("noscipy"))
    scipy_on = bool(stoich._SCIPY_AVAILABLE) and not noscipy
    if noscipy:
        out["noscipy"] = True

    def with_calls(key, f, sink):
        a = len(rec.calls)
        sink[key] = f()
        sink[key + "_calls"] = rec.calls[a:]

    def b_view(sink):
        G = make_view(H, {"kw": {}, "drop": None}, reuse=view_reuse)
        sink["view"] = stoich.build_S(G)

    def b_inc(sink):
        sink["inc"] = H.incidence_matrix(sparse=False)
        sink["inc_sparse"] = H.incidence_matrix(sparse=True)

    blocks = {
        "S": lambda k: k.__setitem__("S", stoich.build_S(H)),
        "Smp": lambda k: k.__setitem__("Smp", stoich.build_S_minus_plus(H)),
        "view": b_view,
        "inc": b_inc,
        "same": lambda k: k.__setitem__("same", stoich.stoichiometric_matrix(H)),
        "rank": lambda k: k.__setitem__("rank", int(stoich.stoichiometric_rank(H))),
        "left": lambda k: k.__setitem__("left", stoich.left_nullspace(H)),
        "right": lambda k: k.__setitem__("right", stoich.right_nullspace(H)),
        "lrk": lambda k: k.__setitem__("lrk", stoich.left_right_kernels(H)),
        "psf": lambda k: k.__setitem__("psf", semiflows.find_p_semiflows(H)),
        "tsf": lambda k: k.__setitem__("tsf", semiflows.find_t_semiflows(H)),
        "laws": lambda k: k.__setitem__("laws", stoich.integer_conservation_laws(H)),
        "is_cons": lambda k: with_calls("is_cons", lambda: stoich.is_conservative(H), k),
        "compute": lambda k: with_calls("compute", lambda: stoich.compute_conservativity(H), k),
        "is_consi": lambda k: with_calls("is_consi", lambda: stoich.is_consistent(H), k),
        "summary": lambda k: with_calls("summary", lambda: stoich.summary(H), k),
    }
    order = list(order) if order else list(BLOCKS)
    if sorted(order) != sorted(BLOCKS):
        raise Infra(f"bad query order {order}")
    env = _Env(stoich, rec, noscipy)
    env.__enter__()
    try:
        if not dump["species"] or not dump["edges"]:
            try:
                stoich.build_S(H)
            except ValueError:
                out["error"] = "ValueError"
                return out
        for name in warm:
            try:
                blocks[name]({})
            except ValueError:
                pass
        for name in order:
            if name == "S":
                try:
                    blocks[name](raw)
                except ValueError:
                    out["error"] = "ValueError"
                    return out
            else:
                blocks[name](raw)
        vraw = []
        for i in view_variants:
            kw = VIEW_VARIANTS[i]["kw"]
            if not kw.get("integer_ids"):
                # string node ids: a species label may coincide with a prefixed edge id (the caller's choice of
                # prefixes then merges two nodes); such a view is not a view of the network
                spfx, rpfx = kw.get("species_prefix", "S:") or "", kw.get("reaction_prefix", "R:") or ""
                if {spfx + s for s in dump["species"]} & {rpfx + e["id"] for e in dump["edges"]}:
                    continue
            vraw.append((i, stoich.build_S(make_view(H, VIEW_VARIANTS[i]))))
        oraw = None
        if opts:
            oraw = {}
            oraw["rank"] = int(stoich.stoichiometric_rank(H, tol=opts["tol"]))
            oraw["left"] = stoich.left_nullspace(H, rtol=opts["rtol"])
            oraw["right"] = stoich.right_nullspace(H, rtol=opts["rtol"])
            oraw["lrk"] = stoich.left_right_kernels(H, rtol=opts["rtol"])
            oraw["psf"] = semiflows.find_p_semiflows(H, rtol=opts["rtol"])
            oraw["tsf"] = semiflows.find_t_semiflows(H, rtol=opts["rtol"])
            oraw["is_cons"] = stoich.is_conservative(H, eps=opts["eps"])
            oraw["compute"] = stoich.compute_conservativity(H, rtol=opts["rtol"], eps=opts["eps"])
            oraw["is_consi"] = stoich.is_consistent(H, eps=opts["ceps"])
        if x and x.get("sum") is not None:
            out["extras"] = observe_extras(H, x, stoich)
            a1, a2, a3 = H.stoichiometric_matrix(sparse=False)          # documented alias of incidence_matrix
            b1, b2, b3 = raw["inc"]
            out["extras"]["alias_same"] = bool(list(a1) == list(b1) and list(a2) == list(b2) and np.array_equal(a3, b3))
    finally:
        env.__exit__()

    sp, rules, S = raw["S"]
    sp2, rules2, Sm, Sp = raw["Smp"]
    Si, exact = as_int_matrix(S)
    Smi, e1 = as_int_matrix(Sm)
    Spi, e2 = as_int_matrix(Sp)
    out.update(species=[str(s) for s in sp], rules=[str(r) for r in rules], S=Si, S_minus=Smi, S_plus=Spi,
               integral=exact and e1 and e2, same_orders=(list(sp) == list(sp2) and list(rules) == list(rules2)),
               shape=list(np.asarray(S).shape))
    Sf = np.array(Si, dtype=float).reshape(len(sp), len(rules))
    # the network's own matrix read off the store, rows as the implementation labelled them, columns in the
    # store's edge order: what a flux vector / conservation law returned for this network has to annihilate
    St = store_matrix(dump, out["species"])
    if St is not None and St.shape != Sf.shape:
        St = None
    # the same network handed over as its exported bipartite view (string node ids)
    spv, rulesv, Sv = raw["view"]
    Svi, ev = as_int_matrix(Sv)
    out["view"] = {"species": [str(x) for x in spv], "rules": [str(x) for x in rulesv], "S": Svi, "integral": ev}
    out["views"] = []
    for i, (a, b, c) in vraw:
        ci, ex = as_int_matrix(c)
        out["views"].append({"variant": i, "species": [str(x) for x in a], "rules": [str(x) for x in b], "S": ci, "integral": ex})
    so, eo, inc = raw["inc"]
    out["inc"] = {"species": list(so), "edges": list(eo), "M": [[int(x) for x in row] for row in np.asarray(inc).tolist()]}
    so_s, eo_s, mp = raw["inc_sparse"]
    out["inc_sparse"] = sorted([s, e, int(v)] for (s, e), v in mp.items() if v != 0)
    out["stoichiometric_matrix_same"] = bool(np.array_equal(raw["same"], S))
    out["rank"] = raw["rank"]
    Lb, Rb = raw["left"], raw["right"]

    def rep(B, side, nrows):
        r = basis_report(B, Sf, side, nrows)
        if St is not None and not r.get("bad_shape") and "worst" in r:
            r["worst_store"] = basis_report(B, St, side, nrows)["worst"]
        return r

    out["left"] = rep(Lb, "left", len(sp))
    out["right"] = rep(Rb, "right", len(rules))
    L2, R2 = raw["lrk"]
    out["left_right_kernels"] = [rep(L2, "left", len(sp)), rep(R2, "right", len(rules))]
    out["p_semiflows"] = rep(raw["psf"], "left", len(sp))
    out["t_semiflows"] = rep(raw["tsf"], "right", len(rules))
    laws = raw["laws"]
    out["int_laws"] = {"n": len(laws), "exact": sum(1 for l in laws if len(l) == len(sp) and any(l) and
                                                      all(sum(l[i] * Si[i][j] for i in range(len(sp))) == 0 for j in range(len(rules))))}
    out["is_conservative"] = raw["is_cons"]
    flag, mw = raw["compute"]
    out["is_consistent"] = raw["is_consi"]
    sm = raw["summary"]
    out["compute_flag"] = flag

    def witness(mw):
        if mw is None:
            return None
        mw = np.asarray(mw, dtype=float)
        nm = float(np.linalg.norm(mw))
        ok = mw.size == len(sp) and nm > 0
        w = {"len": int(mw.size), "positive": bool(mw.size == len(sp) and np.all(mw > 0)),
             "residual": (float(np.max(np.abs(mw @ Sf))) / nm) if ok else float("inf")}
        if St is not None and ok:
            w["residual_store"] = float(np.max(np.abs(mw @ St))) / nm
        return w

    out["witness"] = witness(mw)
    out["summary"] = {k: (v if v is None or isinstance(v, bool) else int(v)) for k, v in sm.to_dict().items()}
    if oraw is not None:
        o2 = {"opts": opts, "rank": oraw["rank"], "left": rep(oraw["left"], "left", len(sp)), "right": rep(oraw["right"], "right", len(rules)),
              "left_right_kernels": [rep(oraw["lrk"][0], "left", len(sp)), rep(oraw["lrk"][1], "right", len(rules))],
              "p_semiflows": rep(oraw["psf"], "left", len(sp)), "t_semiflows": rep(oraw["tsf"], "right", len(rules)),
              "is_conservative": oraw["is_cons"], "compute_flag": oraw["compute"][0], "witness": witness(oraw["compute"][1]),
              "is_consistent": oraw["is_consi"]}
        Bo = np.atleast_2d(oraw["left"])
        ko = Bo.shape[1] if Bo.size else 0
        o2["lk"] = int(ko)
        o2["lscan"] = [bool(np.all(Bo[:, k] > opts["eps"]) or np.all(Bo[:, k] < -opts["eps"])) for k in range(ko)]
        Ro = np.atleast_2d(oraw["right"])
        kr = Ro.shape[1] if Ro.size else 0
        o2["rk"] = int(kr)
        o2["rscan"] = [bool(np.all(Ro[:, k] > opts["ceps"]) or np.all(Ro[:, k] < -opts["ceps"])) for k in range(kr)]
        out["opt"] = o2
    # ---- oracle observations for the modelled decision logic
    B = np.atleast_2d(Lb)
    k = B.shape[1] if B.size else 0
    lp_calls = [c for c in raw["is_cons_calls"] if c["kind"] == "ub"]
    lp = "failed"
    if lp_calls:
        c = lp_calls[-1]
        if c["exc"]:
            lp = "failed"
        elif c["success"] and c["x"] is not None:
            mm = B @ np.array(c["x"], dtype=float)
            lp = "optimalStrict" if bool(np.all(mm > EPS)) else "optimalNotStrict"
        elif c["status"] == 2:
            lp = "infeasible"
        elif c["status"] == 3:
            lp = "unbounded"
    eq_calls = [c for c in raw["is_consi_calls"] if c["kind"] == "eq"]
    clp = {"kind": "other"}
    if eq_calls:
        c = eq_calls[-1]
        if not c["exc"] and c["success"]:
            v = np.array(c["x"], dtype=float)
            residual = Sf @ v
            max_v = float(np.max(np.abs(v))) or 1.0
            clp = {"kind": "optimal", "residualOk": bool(np.linalg.norm(residual, ord=np.inf) / max_v <= 1e-8),
                   "vPos": bool(np.all(v > EPS))}
        elif not c["exc"] and c["status"] == 2:
            clp = {"kind": "infeasible"}
    RB = np.atleast_2d(Rb)
    rk = RB.shape[1] if RB.size else 0
    out["oracle"] = {"nSpecies": len(sp), "nReactions": len(rules), "scipy": scipy_on, "lk": int(k),
                     "lscan": out["left"].get("signdef", [])[:k] if k else [], "lp": lp, "lp_called": bool(lp_calls),
                     "rk": int(rk), "rscan": out["right"].get("signdef", [])[:rk] if rk else [], "clp": clp,
                     "clp_status": eq_calls[-1].get("status") if eq_calls else None}
    return out


def observe(net):
    """One freshly built network; the optional keys `views` / `opts` / `order` of the net select the extra queries."""
    return observe_H(build_net(net), order=net.get("order"), warm=net.get("warm", ()), view_variants=net.get("views", ()),
                     opts=net.get("opts"), x=net.get("x"))


def certificates(dump):
    """Exact certificates for the specification matrix of the stored network."""
    sp, cols = spec_S(dump)
    m, n = len(sp), len(cols)
    S = [[Fr(cols[j][1][i]) for j in range(n)] for i in range(m)]
    ST = [[S[i][j] for i in range(m)] for j in range(n)]
    cert = {"rank": rank_certificate(S, m, n), "rker": kernel_certificate(S, m, n), "lker": kernel_certificate(ST, n, m)}
    cert["cons"] = positive_kernel_or_alternative(ST, n, m)
    cert["consi"] = positive_kernel_or_alternative(S, m, n)
    return cert


def package(obs):
    """Certificates + the two driver requests for one observed store state."""
    req = {"cmd": "stoich.check", "species": obs["dump"]["species"], "edges": obs["dump"]["edges"]}
    cert = None
    if obs["dump"]["species"] and obs["dump"]["edges"]:
        cert = certificates(obs["dump"])
        req["rank"] = {"cols": cert["rank"]["cols"], "L": qm(cert["rank"]["L"]), "C": qm(cert["rank"]["C"])}
        req["rker"] = {"r": cert["rker"]["r"], "B": qm(cert["rker"]["B"]), "L": qm(cert["rker"]["L"])}
        req["lker"] = {"r": cert["lker"]["r"], "B": qm(cert["lker"]["B"]), "L": qm(cert["lker"]["L"])}
        req["cons"] = {"kind": cert["cons"][0], "vec": qv(cert["cons"][1])}
        req["consi"] = {"kind": cert["consi"][0], "vec": qv(cert["consi"][1])}
        cert = {"r": len(cert["rank"]["cols"]), "cons": cert["cons"][0], "consi": cert["consi"][0]}
    lreq = None
    if "oracle" in obs:
        o = obs["oracle"]
        lreq = {"cmd": "stoich.logic", **{k: o[k] for k in ("nSpecies", "nReactions", "scipy", "lk", "lscan", "lp", "rk", "rscan", "clp")}}
    return obs, cert, req, lreq


def work(net):
    """Worker: observation + certificates + the driver request."""
    try:
        obs = observe(net)
    except Exception as e:  # the implementation raised on a well-formed network: a verdict, not an infrastructure failure
        import traceback
        if isinstance(e, Infra):
            raise
        obs = {"dump": store_dump(build_net(net)), "crash": f"{type(e).__name__}: {e}", "trace": traceback.format_exc()[-1500:]}
    return package(obs)


# =============================================================== sessions (one store object, edited and queried again)
def _pick(seq, i):
    return seq[i % len(seq)] if seq else None


def _resolve_side(spec, names, extra):
    """[[index, coeff]..] -> {label: coeff}; an index beyond the current species addresses a new label."""
    out = {}
    pool_ = list(names) + list(extra)
    for i, c in spec:
        if pool_:
            out[pool_[i % len(pool_)]] = c
    return out


def apply_edit(W, cur, ed, log):
    """Apply one symbolic edit to the store W[cur] through the public hypergraph API.  Indices are resolved
    against the store as it is (sorted edge ids / sorted species labels), so that every edit is applicable;
    the concrete call is appended to `log`.  -> index of the store that is current afterwards."""
    import gc

    H = W[cur]
    ids = sorted(H.edges)
    sps = sorted(H.species)
    op = ed["op"]
    if op == "noop":
        log.append("(no edit)")
    elif op == "strip":
        s = _pick(sps, ed["i"])
        if s is not None:
            H.remove_species(s, prune_orphans=ed["prune"])
            log.append(f"H.remove_species({s!r}, prune_orphans={ed['prune']})")
    elif op == "remove":
        eid = _pick(ids, ed["e"])
        if eid is not None and len(ids) > 1:
            H.remove_rxn(eid)
            log.append(f"H.remove_rxn({eid!r})")
    elif op == "replace":
        eid = _pick(ids, ed["e"])
        if eid is not None:
            old = H.edges[eid]
            r0, p0, rule = dict(old.reactants.items()), dict(old.products.items()), old.rule
            how = ed["how"]
            if how == "reverse":
                r, p = p0, r0
            elif how == "scale":
                r, p = dict(r0), dict(p0)
                side = p if (p and (ed["k"] % 2 or not r)) else r
                s = _pick(sorted(side), ed["k"])
                side[s] = side[s] % 3 + 1
            else:
                r, p = _resolve_side(ed["r"], sps, ()), _resolve_side(ed["p"], sps, ())
                if not r and not p:
                    r, p = p0, r0
            if ed.get("rule") is not None:
                rule = ed["rule"]
            H.remove_rxn(eid)
            H.add_rxn(r, p, rule=rule, edge_id=eid)
            log.append(f"H.remove_rxn({eid!r}); H.add_rxn({r!r}, {p!r}, rule={rule!r}, edge_id={eid!r})")
    elif op == "coef":
        eid = _pick(ids, ed["e"])
        if eid is not None:
            e = H.get_edge(eid)
            name, side = ("products", e.products) if (len(e.products) and (ed["side"] == "p" or not len(e.reactants))) else ("reactants", e.reactants)
            s = _pick(sorted(side.keys()), ed["i"])
            if ed["how"] == "incr":
                side.incr(s, 1)
                log.append(f"H.get_edge({eid!r}).{name}.incr({s!r}, 1)")
            else:
                c = ed["c"] if ed["c"] != side[s] else side[s] % 3 + 1
                side[s] = c
                log.append(f"H.get_edge({eid!r}).{name}[{s!r}] = {c}")
    elif op == "rule":
        eid = _pick(ids, ed["e"])
        if eid is not None:
            H.get_edge(eid).rule = ed["rule"]
            log.append(f"H.get_edge({eid!r}).rule = {ed['rule']!r}")
    elif op == "add":
        r, p = _resolve_side(ed["r"], sps, ed.get("new", ())), _resolve_side(ed["p"], sps, ed.get("new", ()))
        if r or p:
            e = H.add_rxn(r, p, rule=ed.get("rule"))
            log.append(f"H.add_rxn({r!r}, {p!r}, rule={ed.get('rule')!r})  # id {e.id!r}")
    elif op == "copy":
        W.append(H.copy())
        cur = len(W) - 1
        log.append(f"H{cur} = H.copy(); continue with H{cur}")
    elif op == "switch":
        cur = ed["k"] % len(W)
        log.append(f"continue with H{cur}")
    elif op == "merge":
        H.merge(build_net(ed["net"]), prefix_edges=ed["pfx"])
        log.append(f"H.merge(<{len(ed['net']['rxns'])} reactions>, prefix_edges={ed['pfx']})")
    elif op == "fresh":
        # a NEW store object (very likely at the address of the one just released) with other content
        W[cur] = None
        del H
        gc.collect()
        W[cur] = build_net(ed["net"])
        log.append("H = <new CRNHyperGraph with other content, the old object released>")
    else:
        raise Infra(f"unknown edit {op}")
    return cur


def work_session(case):
    """Worker: build the base network, observe; apply each step's edit to the SAME object, observe again.
    -> list of per-state (obs, cert, req, lreq) + the log of concrete calls."""
    import networkx as nx
    import traceback

    W = [build_net(case["net"])]
    cur = 0
    reuse = nx.DiGraph() if case.get("reuse_view") else None
    states, calls = [], []
    steps = [dict(case.get("first") or {}, edit={"op": "noop"})] + list(case["steps"])
    for k, st in enumerate(steps):
        log = []
        if k > 0:
            cur = apply_edit(W, cur, st["edit"], log)
            if not log:
                log.append("(edit not applicable)")
        calls.append(log)
        H = W[cur]
        try:
            obs = observe_H(H, order=st.get("order"), warm=st.get("warm", ()), view_variants=st.get("views", ()),
                            view_reuse=reuse, opts=st.get("opts"))
        except Exception as e:
            if isinstance(e, Infra):
                raise
            obs = {"dump": store_dump(H), "crash": f"{type(e).__name__}: {e}", "trace": traceback.format_exc()[-1500:]}
        states.append(package(obs))
    return states, calls


def net_of_dump(dump):
    """A fresh network with the content of a store dump (explicit ids and rules, isolated species kept)."""
    used = {s for e in dump["edges"] for s, _ in e["r"] + e["p"]}
    return {"rxns": [{"r": e["r"], "p": e["p"], "rule": e["rule"], "eid": e["id"]} for e in dump["edges"]],
            "isolated": [s for s in dump["species"] if s not in used]}


# =============================================================== comparison
def col_multiset(species, rules, M):
    """Columns as (rule, sorted non-zero (species, value) pairs), sorted."""
    out = []
    for j in range(len(rules)):
        out.append((rules[j], tuple((species[i], M[i][j]) for i in range(len(species)))))
    return sorted(out)


def judge(obs, cert, lean):
    """-> list of (what, detail, classes[, no_input]). Empty when every gate holds.  `no_input` marks a broken
    correspondence (implementation != model) for which no quantity the property speaks about is wrong."""
    v = []
    dump = obs["dump"]
    if "crash" in obs:
        return [("an anchored entry point raised on a well-formed network: " + obs["crash"].split(":")[0], {"error": obs["crash"], "trace": obs["trace"]}, ())]
    if "error" in obs and dump["species"] and dump["edges"]:
        return [("build_S raised " + obs["error"] + " on a network that has species and reactions", {}, ())]
    if "error" in obs or cert is None:
        return v
    sp, cols = spec_S(dump)
    m, n = len(sp), len(cols)
    r = cert["r"]
    # -- certificates must check (otherwise the harness is wrong, not the implementation)
    for key in ("rankOk", "rkerOk", "lkerOk"):
        if lean.get(key) is not True and lean["ids"] == [c[4] for c in cols]:
            raise Infra(f"certificate {key} rejected by the Lean checker for {json.dumps(dump)}")
    for key in ("cons", "consi"):
        if lean[key]["ok"] is not True or lean[key]["kind"] != cert[key]:
            raise Infra(f"certificate {key} rejected by the Lean checker for {json.dumps(dump)}")
    if lean["ids"] != [c[4] for c in cols] or lean["species"] != sp:
        raise Infra(f"harness and model disagree on the presentation order of S for {json.dumps(dump)}")
    if lean["r"] != r or lean["incidenceAgrees"] is not True:
        raise Infra("model: rank certificate size / incidence agreement")
    conservative = cert["cons"] == "pos"
    consistent = cert["consi"] == "pos"
    # -- S
    if not obs["integral"] or obs["shape"] != [m, n] or not obs["same_orders"] or not obs["stoichiometric_matrix_same"]:
        v.append(("build_S: matrix is not an integral n_species x n_reactions array shared by build_S / build_S_minus_plus / stoichiometric_matrix",
                  {"shape": obs["shape"], "expected": [m, n]}, ()))
        return v
    if sorted(obs["species"]) != sp or len(set(obs["species"])) != len(obs["species"]):
        v.append(("build_S: rows are not one per species", {"impl": obs["species"], "spec": sp}, ()))
        return v
    want = sorted((c[0], tuple((s, x) for s, x in zip(sp, c[1]))) for c in cols)
    ridx = [obs["species"].index(s) for s in sp]
    got = col_multiset(sp, obs["rules"], [obs["S"][i] for i in ridx])
    if got != want:
        v.append(("build_S: entries differ from produced minus consumed", {"impl": got, "spec": want}, ()))
    want_m = sorted((c[0], tuple((s, x) for s, x in zip(sp, c[2]))) for c in cols)
    want_p = sorted((c[0], tuple((s, x) for s, x in zip(sp, c[3]))) for c in cols)
    if col_multiset(sp, obs["rules"], [obs["S_minus"][i] for i in ridx]) != want_m or \
            col_multiset(sp, obs["rules"], [obs["S_plus"][i] for i in ridx]) != want_p:
        v.append(("build_S_minus_plus: S_minus / S_plus differ from the consumed / produced counts", {}, ()))
    if any(obs["S"][i][j] != obs["S_plus"][i][j] - obs["S_minus"][i][j] for i in range(m) for j in range(n)):
        v.append(("build_S: S differs from S_plus - S_minus", {}, ()))
    vw = obs["view"]
    if not vw["integral"] or sorted(vw["species"]) != sp or \
            col_multiset(sp, vw["rules"], [vw["S"][vw["species"].index(x)] for x in sp]) != want:
        v.append(("build_S on the exported bipartite view of the network differs from produced minus consumed", {"impl": vw}, ()))
    inc = obs["inc"]
    if sorted(inc["species"]) != sp:
        v.append(("incidence_matrix rows are not the species", {"impl": inc["species"]}, ()))
    else:
        iidx = [inc["species"].index(s) for s in sp]
        a = sorted(tuple(inc["M"][i][j] for i in iidx) for j in range(len(inc["edges"])))
        b = sorted(tuple(obs["S"][i][j] for i in ridx) for j in range(n))
        if a != b:
            v.append(("build_S disagrees with the network's own incidence_matrix (columns compared as a multiset)",
                      {"incidence": a, "build_S": b}, ()))
    dense = sorted([inc["species"][i], inc["edges"][j], inc["M"][i][j]] for i in range(len(inc["species"]))
                   for j in range(len(inc["edges"])) if inc["M"][i][j] != 0)
    if dense != obs["inc_sparse"]:
        v.append(("incidence_matrix: sparse mapping and dense matrix differ", {"sparse": obs["inc_sparse"], "dense": dense}, ()))
    if v:
        return v
    # -- the same network handed over as a NetworkX graph in other ways (ids, prefixes, kind-only / bipartite-only nodes)
    order_div = []
    model = (lean["species"], lean["rules"], lean["S"])
    used = {s for e in dump["edges"] for s, _ in e["r"] + e["p"]}
    for vv in obs.get("views", []):
        var = VIEW_VARIANTS[vv["variant"]]
        keep = [i for i, s in enumerate(sp) if s in used] if var["kw"].get("include_isolated_species") is False else list(range(m))
        esp = [sp[i] for i in keep]
        ewant = sorted((c[0], tuple((sp[i], c[1][i]) for i in keep)) for c in cols)
        if not vv["integral"] or sorted(vv["species"]) != esp or len(vv["rules"]) != n or \
                col_multiset(esp, vv["rules"], [vv["S"][vv["species"].index(x)] for x in esp]) != ewant:
            v.append(("build_S on a NetworkX view of the network (hypergraph_to_bipartite with non-default options) differs from produced minus consumed",
                      {"variant": var, "impl": vv, "spec": ewant}, ()))
        elif (vv["species"], vv["rules"], vv["S"]) != (esp, lean["rules"], [lean["S"][lean["species"].index(x)] for x in esp]):
            order_div.append({"variant": var, "impl": [vv["species"], vv["rules"], vv["S"]]})
    if v:
        return v
    # -- row / column ORDER (model of build_S, theorem buildS_orders).  The returned reaction labels are the rule
    # names, so the only way to tell which reaction a column (a flux coordinate) belongs to is the order: rows by
    # species label, columns in the store's edge order (by id), stably regrouped by rule label.
    same = model == (obs["species"], obs["rules"], obs["S"])
    if not same:
        order_div.append({"impl": [obs["species"], obs["rules"], obs["S"]]})
    if (vw["species"], vw["rules"], vw["S"]) != model:
        order_div.append({"variant": "exported bipartite view (string ids)", "impl": [vw["species"], vw["rules"], vw["S"]]})
    flux_bases = [("right_nullspace", obs["right"]), ("left_right_kernels[1]", obs["left_right_kernels"][1]), ("find_t_semiflows", obs["t_semiflows"])]
    if order_div and not any(rep.get("worst_store", 0.0) > TOL for _, rep in flux_bases):
        v.append(("build_S: the order of the rows / columns of S differs from the model of build_S (species by label; reactions in the store's "
                  "edge order, stably regrouped by rule label) although the columns agree as a multiset",
                  {"divergences": order_div[:3], "model": list(model), "store_edge_order": [c[4] for c in cols]}, (), True))
    store_msg = ("the network's own incidence matrix taken in the store's edge order "
                 "(build_S arranges the columns of S in another order than the reactions they stand for; the returned reaction "
                 "labels are the rule names and cannot undo it)")
    judge_numbers(v, obs, cert, m, n, r, store_msg,
                  {"build_S": [obs["species"], obs["rules"], obs["S"]], "model": list(model), "store_edge_order": [c[4] for c in cols]})
    return v


def judge_numbers(v, obs, cert, m, n, r, store_msg, store_detail):
    """Gates on rank, dimensions, kernel bases, verdicts and witnesses (shared by store inputs and hand-built graphs);
    appends to v."""
    conservative = cert["cons"] == "pos"
    consistent = cert["consi"] == "pos"
    # -- rank and dimensions
    if obs["rank"] != r:
        v.append(("stoichiometric_rank differs from the certified exact rank", {"impl": obs["rank"], "exact": r}, ()))
    s = obs["summary"]
    if (s["n_species"], s["n_reactions"], s["rank"], s["dim_left_kernel"], s["dim_right_kernel"]) != (m, n, r, m - r, n - r):
        v.append(("summary: counts / rank / kernel dimensions differ from the certified values",
                  {"impl": s, "exact": {"n_species": m, "n_reactions": n, "rank": r}}, ()))
    for name, rep, rows, dim in [("left_nullspace", obs["left"], m, m - r), ("right_nullspace", obs["right"], n, n - r),
                                 ("left_right_kernels[0]", obs["left_right_kernels"][0], m, m - r),
                                 ("left_right_kernels[1]", obs["left_right_kernels"][1], n, n - r),
                                 ("find_p_semiflows", obs["p_semiflows"], m, m - r), ("find_t_semiflows", obs["t_semiflows"], n, n - r)]:
        if rep["bad_shape"] or rep["shape"][1] != dim:
            v.append((f"{name}: basis has the wrong dimension", {"shape": rep["shape"], "expected": [rows, dim]}, ()))
        elif rep["worst"] > TOL:
            v.append((f"{name}: a basis vector does not annihilate S (relative residual > 1e-9)", {"worst": rep["worst"]}, ()))
        elif not rep["independent"]:
            v.append((f"{name}: reported vectors are numerically dependent", {"shape": rep["shape"]}, ()))
        elif rep.get("worst_store", 0.0) > TOL:
            v.append((f"{name}: a basis vector does not annihilate " + store_msg,
                      {"worst_relative_residual": rep["worst_store"], **store_detail}, ()))
    # -- conservativity
    lk = obs["oracle"]["lk"]
    lp_stage = lk >= 2 and not any(obs["oracle"]["lscan"]) and obs["oracle"]["scipy"]     # without SciPy there is no LP stage
    ns = bool(obs.get("noscipy"))
    tagns = "in the simulated environment without SciPy: " if ns else ""

    def inconclusive_ok(verdict, k, scan):
        """Without SciPy the docstrings announce None (inconclusive) where the kernel basis has >= 2 columns (left) / >= 1
        column (right) and none of them is sign-definite: accepted there and only there; True / False are gated as usual."""
        return ns and verdict is None and k >= 1 and not any(scan)

    for name, verdict in [("is_conservative", obs["is_conservative"]), ("compute_conservativity", obs["compute_flag"]),
                          ("summary.is_conservative", s["is_conservative"])]:
        if (verdict is True) != conservative and not (lk >= 2 and inconclusive_ok(verdict, lk, obs["oracle"]["lscan"])):
            cls = ["lp_stage"] if (lp_stage and verdict is False and conservative) else []
            v.append((tagns + f"{name} = {verdict} but a strictly positive conservation law "
                      + ("exists (checked certificate)" if conservative else "does not exist (checked Stiemke alternative)"),
                      {"verdict": verdict, "certificate": cert["cons"], "left_kernel_dim": lk, "sign_definite_columns": obs["oracle"]["lscan"],
                       "lp": obs["oracle"]["lp"]}, cls))
    w = obs["witness"]
    if w is not None and not (w["positive"] and w["residual"] <= TOL and w.get("residual_store", 0.0) <= TOL):
        v.append(("compute_conservativity returned a vector that is not a strictly positive conservation law", w, ()))
    # -- consistency
    for name, verdict in [("is_consistent", obs["is_consistent"]), ("summary.is_consistent", s["is_consistent"])]:
        if (verdict is True) != consistent and not inconclusive_ok(verdict, obs["oracle"]["rk"], obs["oracle"]["rscan"]):
            v.append((tagns + f"{name} = {verdict} but a strictly positive steady flux "
                      + ("exists (checked certificate)" if consistent else "does not exist (checked Stiemke alternative)"),
                      {"verdict": verdict, "certificate": cert["consi"], "lp": obs["oracle"]["clp"], "lp_status": obs["oracle"]["clp_status"]}, ()))
    # -- the same questions asked with non-default (still tiny) tolerances
    o2 = obs.get("opt")
    if o2 is not None:
        tag = tagns + "with non-default tolerances " + json.dumps(o2["opts"], sort_keys=True) + ": "
        if o2["rank"] != r:
            v.append((tag + "stoichiometric_rank differs from the certified exact rank", {"impl": o2["rank"], "exact": r}, ()))
        for name, rep, rows, dim in [("left_nullspace", o2["left"], m, m - r), ("right_nullspace", o2["right"], n, n - r),
                                     ("left_right_kernels[0]", o2["left_right_kernels"][0], m, m - r),
                                     ("left_right_kernels[1]", o2["left_right_kernels"][1], n, n - r),
                                     ("find_p_semiflows", o2["p_semiflows"], m, m - r), ("find_t_semiflows", o2["t_semiflows"], n, n - r)]:
            if rep["bad_shape"] or rep["shape"][1] != dim:
                v.append((tag + f"{name}: basis has the wrong dimension", {"shape": rep["shape"], "expected": [rows, dim]}, ()))
            elif rep["worst"] > TOL or rep.get("worst_store", 0.0) > TOL or not rep["independent"]:
                v.append((tag + f"{name}: not an independent family of vectors annihilating S", {"report": rep}, ()))
        lp2 = o2["lk"] >= 2 and not any(o2["lscan"]) and obs["oracle"]["scipy"]
        for name, verdict in [("is_conservative", o2["is_conservative"]), ("compute_conservativity", o2["compute_flag"])]:
            if (verdict is True) != conservative and not (o2["lk"] >= 2 and inconclusive_ok(verdict, o2["lk"], o2["lscan"])):
                cls = ["lp_stage"] if (lp2 and verdict is False and conservative) else []
                v.append((tag + f"{name} = {verdict} but a strictly positive conservation law "
                          + ("exists (checked certificate)" if conservative else "does not exist (checked Stiemke alternative)"),
                          {"verdict": verdict, "certificate": cert["cons"], "left_kernel_dim": o2["lk"], "sign_definite_columns": o2["lscan"]}, cls))
        w = o2["witness"]
        if w is not None and not (w["positive"] and w["residual"] <= TOL and w.get("residual_store", 0.0) <= TOL):
            v.append((tag + "compute_conservativity returned a vector that is not a strictly positive conservation law", w, ()))
        if (o2["is_consistent"] is True) != consistent and not inconclusive_ok(o2["is_consistent"], o2["rk"], o2["rscan"]):
            v.append((tag + f"is_consistent = {o2['is_consistent']} but a strictly positive steady flux "
                      + ("exists (checked certificate)" if consistent else "does not exist (checked Stiemke alternative)"),
                      {"verdict": o2["is_consistent"], "certificate": cert["consi"]}, ()))
    # -- StoichSummary.from_crn with its switches, derived properties, has_irreversible_futile_cycles
    ex = obs.get("extras")
    if ex is not None:
        d, (fa, fb) = ex["dict"], ex["flags"]
        tg = tagns + f"StoichSummary.from_crn(conservativity_check={fa}, consistency_check={fb}): "
        if (d["n_species"], d["n_reactions"], d["rank"], d["dim_left_kernel"], d["dim_right_kernel"]) != (m, n, r, m - r, n - r):
            v.append((tg + "counts / rank / kernel dimensions differ from the certified values",
                      {"impl": d, "exact": {"n_species": m, "n_reactions": n, "rank": r}}, ()))
        if ex["full_rank"] != (r == min(m, n)) or ex["underdetermined"] != (r < n):
            v.append((tg + "is_full_rank / is_underdetermined contradict the certified rank",
                      {"is_full_rank": ex["full_rank"], "is_underdetermined": ex["underdetermined"], "exact": {"n_species": m, "n_reactions": n, "rank": r}}, ()))
        vc, vs = d["is_conservative"], d["is_consistent"]
        # a requested verdict is gated like the stand-alone call; one that was NOT requested must not claim anything
        bad_c = ((vc is True) != conservative and not (lk >= 2 and inconclusive_ok(vc, lk, obs["oracle"]["lscan"]))) if fa else \
            (vc is True and not conservative)
        if bad_c:
            cls = ["lp_stage"] if (lp_stage and vc is False and conservative) else []
            v.append((tg + f"is_conservative = {vc} but a strictly positive conservation law "
                      + ("exists (checked certificate)" if conservative else "does not exist (checked Stiemke alternative)"),
                      {"verdict": vc, "certificate": cert["cons"], "left_kernel_dim": lk, "sign_definite_columns": obs["oracle"]["lscan"]}, cls))
        bad_s = ((vs is True) != consistent and not inconclusive_ok(vs, obs["oracle"]["rk"], obs["oracle"]["rscan"])) if fb else \
            (vs is True and not consistent)
        if bad_s:
            v.append((tg + f"is_consistent = {vs} but a strictly positive steady flux "
                      + ("exists (checked certificate)" if consistent else "does not exist (checked Stiemke alternative)"),
                      {"verdict": vs, "certificate": cert["consi"]}, ()))
        if ex["futile"] != (n - r > 0) or ex["futile_rtol"] != (n - r > 0):
            v.append((tagns + "has_irreversible_futile_cycles differs from (certified right-kernel dimension n_reactions - rank > 0)",
                      {"impl": [ex["futile"], ex["futile_rtol"]], "exact_dim": n - r}, ()))
        if ex.get("alias_same") is False:
            v.append(("CRNHyperGraph.stoichiometric_matrix (documented alias) differs from incidence_matrix", {}, ()))
    return v


def judge_logic(obs, logic):
    """Simulated no-SciPy environment only: no LP is involved, so the verdicts are a function of the returned kernel bases
    alone and must equal the Lean model of the decision logic (`stoich.logic`, scipy = false) run on the observed basis
    shapes / sign patterns.  -> list of violations WITHOUT failing input (broken correspondence)."""
    if not obs.get("noscipy") or logic is None or "oracle" not in obs:
        return []
    pairs = [("is_conservative", tri(obs["is_conservative"])), ("compute_flag", tri(obs["compute_flag"])),
             ("is_consistent", tri(obs["is_consistent"]))]
    diff = [k for k, val in pairs if logic[k] != val]
    if (obs["witness"] is None) != (logic["compute_witness"] == "none"):
        diff.append("compute_witness")
    if logic["lp_attempted"] or obs["oracle"]["lp_called"]:
        diff.append("lp_attempted")
    if not diff:
        return []
    return [("in the simulated environment without SciPy the verdicts differ from the model of the decision logic (no LP: basis scans only)",
             {"fields": diff, "impl": dict(pairs), "model": logic, "oracle": obs["oracle"]}, (), True)]


def tri(x):
    return x if x is None else bool(x)


def count_x(ctx, obs):
    """Counters of the simulated no-SciPy environment and of the extra entry points."""
    if obs.get("noscipy"):
        o = obs["oracle"]
        ctx.count("noscipy:queries")
        ctx.count(f"noscipy:left_kernel_dim:{min(o['lk'], 2)}{'+' if o['lk'] >= 2 else ''}:"
                  + ("some_sign_definite_column" if any(o["lscan"]) else "no_sign_definite_column"))
        ctx.count("noscipy:is_conservative=" + str(obs["is_conservative"]))
        ctx.count("noscipy:is_consistent=" + str(obs["is_consistent"]))
        ctx.count(f"noscipy:right_kernel_dim:{min(o['rk'], 2)}{'+' if o['rk'] >= 2 else ''}:"
                  + ("some_sign_definite_column" if any(o["rscan"]) else "no_sign_definite_column"))
    if "extras" in obs:
        ctx.count("from_crn:conservativity_check=%s,consistency_check=%s" % tuple(obs["extras"]["flags"]))
        ctx.count("has_irreversible_futile_cycles=" + str(obs["extras"]["futile"]))


def record(ctx, net, obs, cert, lean, logic, tag, canon=None):
    """Counters describing the population and the agreement with the model.  `canon`: what identifies the case
    (default: the stored network; for a session state the history that led to it)."""
    dump = obs["dump"]
    nodes = len(dump["species"]) + len(dump["edges"])
    ctx.count("view_nodes:" + ("<10" if nodes < 10 else "10-99" if nodes < 100 else ">=100"))
    if "crash" in obs:
        ctx.count("implementation_raised")
        ctx.case(["crash", dump], False)
        return
    if "error" in obs:
        ctx.count("malformed:" + obs["error"])
        ctx.count("model_error_agrees" if lean.get("error") == obs["error"] else "model_error_differs")
        ctx.case(["err", dump], False)
        return
    if cert is None or "error" in lean:
        ctx.count("model_error_differs")
        ctx.case(["err", dump], False)
        return
    m, n, r = len(dump["species"]), len(dump["edges"]), cert["r"]
    ctx.count(f"{tag}:cases")
    if isinstance(net, dict) and net.get("scale"):
        sc = net["scale"]
        ctx.count(f"scale:largest_primitive_kernel_entry{sc['big']}")
        ctx.count(f"scale:largest_coefficient{sc['coef']}")
        ctx.count(f"scale:left_kernel_dim:{sc['lk']}{'+' if sc['lk'] >= 2 else ''}:" + ("conservative" if cert["cons"] == "pos" else "not_conservative"))
        ctx.count(f"scale:right_kernel_dim:{sc['rk']}{'+' if sc['rk'] >= 2 else ''}:" + ("consistent" if cert["consi"] == "pos" else "not_consistent"))
        for f in sorted({r0.get("form") or "dict" for r0 in net["rxns"]}):
            ctx.count("scale:input_form:" + f)
    ctx.count("conservative:" + ("yes" if cert["cons"] == "pos" else "no"))
    ctx.count("consistent:" + ("yes" if cert["consi"] == "pos" else "no"))
    ctx.count(f"split:{'cons' if cert['cons'] == 'pos' else 'noncons'}+{'consi' if cert['consi'] == 'pos' else 'nonconsi'}")
    ctx.count(f"left_kernel_dim:{min(m - r, 3)}{'+' if m - r >= 3 else ''}")
    ctx.count(f"right_kernel_dim:{min(n - r, 3)}{'+' if n - r >= 3 else ''}")
    ctx.count("verdict:is_conservative=" + str(obs["is_conservative"]))
    ctx.count("verdict:is_consistent=" + str(obs["is_consistent"]))
    o = obs["oracle"]
    if o["lp_called"]:
        ctx.count("conservativity_lp:" + o["lp"])
    ctx.count("consistency_lp:" + o["clp"]["kind"])
    if obs["witness"] is not None:
        ctx.count("witness_returned")
    if obs["int_laws"]["n"]:
        ctx.count("integer_laws:reported", obs["int_laws"]["n"])
        ctx.count("integer_laws:exactly_annihilating", obs["int_laws"]["exact"])
    # model of build_S, exact order (gated in judge)
    same = lean["species"] == obs["species"] and lean["rules"] == obs["rules"] and lean["S"] == obs["S"]
    if len({e["rule"] for e in dump["edges"]}) < n:
        ctx.count("order:equally_labelled_reactions" + (":ids_not_in_numeric_order" if n >= 10 else ""))
    for vv in obs.get("views", []):
        ctx.count("nx_view_variant:" + json.dumps(VIEW_VARIANTS[vv["variant"]], sort_keys=True))
    if "opt" in obs:
        ctx.count("non_default_tolerances")
    count_x(ctx, obs)
    ctx.count("build_S_equals_model_incl_order" if same else "build_S_differs_from_model_order")
    if not same and len(ctx.extra.setdefault("model_order_divergences", [])) < 3:
        ctx.extra["model_order_divergences"].append({"net": net, "impl": [obs["species"], obs["rules"], obs["S"]],
                                                     "model": [lean["species"], lean["rules"], lean["S"]]})
    # model of the decision logic on the observed oracle outcomes (recorded, not gated)
    if logic is not None:
        pairs = [("is_conservative", tri(obs["is_conservative"])), ("compute_flag", tri(obs["compute_flag"])),
                 ("is_consistent", tri(obs["is_consistent"]))]
        diff = [k for k, val in pairs if logic[k] != val]
        if (obs["witness"] is None) != (logic["compute_witness"] == "none"):
            diff.append("compute_witness")
        if logic["lp_attempted"] != o["lp_called"]:
            diff.append("lp_attempted")
        ctx.count("decision_logic_equals_model" if not diff else "decision_logic_differs_from_model")
        for k in diff:
            ctx.count("decision_logic_differs:" + k)
        if diff and len(ctx.extra.setdefault("logic_divergences", [])) < 3:
            ctx.extra["logic_divergences"].append({"net": net, "fields": diff, "oracle": o, "model": logic,
                                                   "impl": {k: val for k, val in pairs}})
    nontrivial = n >= 1 and r >= 1
    if canon is None and isinstance(net, dict) and net.get("x"):
        canon = ["x", net["x"], dump]
    ctx.case(dump if canon is None else canon, nontrivial, sample={"stream": tag, "net": net, "rank": r, "conservative": cert["cons"] == "pos",
                                       "consistent": cert["consi"] == "pos"} if n <= 3 else None)


_POOL = None


def pool():
    global _POOL
    if _POOL is None:
        import multiprocessing as mp
        import os

        _POOL = mp.get_context("fork").Pool(min(12, max(2, (os.cpu_count() or 4) - 2)))
    return _POOL


def close_pool():
    global _POOL
    if _POOL is not None:
        _POOL.close()
        _POOL.join()
        _POOL = None


def evaluate(ctx, nets, parallel=True):
    """-> list of (net, obs, cert, lean, logic)."""
    if parallel and len(nets) >= 64:
        rows = pool().map(work, nets, chunksize=max(1, min(200, len(nets) // 64)))
    else:
        rows = [work(n) for n in nets]
    leans = ctx.lean().ok([r[2] for r in rows], shards=8)
    lidx = [i for i, r in enumerate(rows) if r[3] is not None]
    logics = dict(zip(lidx, ctx.lean().ok([rows[i][3] for i in lidx], shards=8)))
    return [(net, r[0], r[1], lean, logics.get(i)) for i, (net, r, lean) in enumerate(zip(nets, rows, leans))]


def unpack(t):
    return (t[0], t[1], t[2], bool(t[3]) if len(t) > 3 else False)


def shrink_net(ctx, net, what):
    """Greedy: drop reactions / isolated species, lower coefficients, while the same gate fails."""
    def fails(cand):
        if not cand["rxns"]:
            return False
        try:
            (_, obs, cert, lean, logic), = evaluate(ctx, [cand], parallel=False)
            return any(t[0] == what for t in judge(obs, cert, lean) + judge_logic(obs, logic))
        except Exception:
            return False

    cur = json.loads(json.dumps(net))
    budget = 100
    # many reactions: first drop blocks of reactions (halves, quarters, ...), then isolated species all at once
    size = len(cur["rxns"]) // 2
    while size >= 2 and budget > 0:
        i = 0
        while i < len(cur["rxns"]) and budget > 0:
            c = json.loads(json.dumps(cur)); del c["rxns"][i:i + size]
            budget -= 1
            if fails(c):
                cur = c
            else:
                i += size
        size //= 2
    if len(cur.get("isolated", [])) > 1 and budget > 0:
        c = json.loads(json.dumps(cur)); c["isolated"] = []
        budget -= 1
        if fails(c):
            cur = c
    changed = True
    while changed and budget > 0:
        changed = False
        cands = []
        for i in range(len(cur["rxns"])):
            c = json.loads(json.dumps(cur)); del c["rxns"][i]; cands.append(c)
        for i in range(len(cur.get("isolated", []))):
            c = json.loads(json.dumps(cur)); del c["isolated"][i]; cands.append(c)
        if len(cur["rxns"]) <= 12:
            for i, rx in enumerate(cur["rxns"]):
                for side in ("r", "p"):
                    for k in range(len(rx[side])):
                        c = json.loads(json.dumps(cur))
                        if c["rxns"][i][side][k][1] > 1:
                            c["rxns"][i][side][k][1] -= 1
                        else:
                            del c["rxns"][i][side][k]
                        if c["rxns"][i]["r"] or c["rxns"][i]["p"]:
                            cands.append(c)
        for c in cands:
            budget -= 1
            if budget <= 0:
                break
            if fails(c):
                cur = c
                changed = True
                break
    return cur


def report(ctx, what, case, detail, classes, no_input, state, shrinker):
    """Shared bookkeeping: classified hits are counted (first 300 kept), the first few unknown ones are shrunk."""
    if classes:
        # classified (known) hits are numerous: keep the first few hundred as cases, count the rest
        if sum(1 for x in ctx.violations if x["classes"]) < 300:
            ctx.violation(what, case, detail, classes=classes)
        ctx.count("classified_hits:" + ",".join(classes))
        return
    state["unknown"] += 1
    done = getattr(ctx, "_c17_shrunk", 0)
    if state["unknown"] <= 3 and done < 8:      # shrinking costs a driver round trip per candidate: first few only
        ctx._c17_shrunk = done + 1
        small, extra = shrinker(case, what)
        ctx.violation(what, small, {**detail, **extra, "original": case}, no_input=no_input)
    elif state["unknown"] <= 40:
        ctx.violation(what, case, detail, no_input=no_input)


def run_nets(ctx, nets, tag, chunk=6000):
    state = {"unknown": 0}
    for a in range(0, len(nets), chunk):
        for net, obs, cert, lean, logic in evaluate(ctx, nets[a:a + chunk]):
            record(ctx, net, obs, cert, lean, logic, tag)
            found = judge(obs, cert, lean)
            if not any(not unpack(t)[2] for t in found):
                found = found + judge_logic(obs, logic)
            for what, detail, classes, no_input in map(unpack, found):
                report(ctx, what, {"net": net}, {**detail, "stream": tag}, classes, no_input, state,
                       lambda case, w: ({"net": shrink_net(ctx, case["net"], w)}, {}))
        if state["unknown"] > 40:
            break


# ---------------------------------------------------------------- sessions
def evaluate_sessions(ctx, cases, parallel=True, worker=None):
    """-> per case: (list of (obs, cert, lean, logic) per state, log of concrete calls per state)."""
    worker = worker or work_session
    if parallel and len(cases) >= 32:
        rows = pool().map(worker, cases, chunksize=max(1, min(50, len(cases) // 64)))
    else:
        rows = [worker(c) for c in cases]
    flat = [(i, k, st) for i, (states, _) in enumerate(rows) for k, st in enumerate(states)]
    leans = ctx.lean().ok([st[2] for _, _, st in flat], shards=8)
    lidx = [j for j, (_, _, st) in enumerate(flat) if st[3] is not None]
    logics = dict(zip(lidx, ctx.lean().ok([flat[j][2][3] for j in lidx], shards=8)))
    attach_bip(ctx, [st[0] for _, _, st in flat])
    out = [([], calls) for _, calls in rows]
    for j, (i, k, st) in enumerate(flat):
        out[i][0].append((st[0], st[1], leans[j], logics.get(j)))
    return out


def session_prefix(case, k):
    """The history up to and including state k (state 0 = the freshly built base network)."""
    c = {key: val for key, val in case.items() if key != "steps"}
    c["steps"] = case["steps"][:k]
    return c


def session_failures(ctx, case):
    """-> [(state index, what)] over all states of one session."""
    (states, _), = evaluate_sessions(ctx, [case], parallel=False)
    return [(k, t[0]) for k, (obs, cert, lean, _) in enumerate(states) for t in judge(obs, cert, lean)]


def shrink_session(ctx, case, what):
    """Greedy: drop steps before the last, drop warm-up queries / query orders / extra views, drop base reactions;
    the LAST state has to keep failing the same gate.  Also reports whether a fresh object with the content of the
    failing state passes (then the failure is due to the history, not to the network)."""
    def fails(cand):
        try:
            return any(k == len(cand["steps"]) and w == what for k, w in session_failures(ctx, cand))
        except Exception:
            return False

    cur = json.loads(json.dumps(case))
    budget = 60
    changed = True
    while changed and budget > 0:
        changed = False
        cands = []
        for i in range(len(cur["steps"]) - 1):
            c = json.loads(json.dumps(cur)); del c["steps"][i]; cands.append(c)
        for i, st in enumerate([cur.get("first") or {}] + cur["steps"]):
            if any(st.get(key) for key in ("warm", "order", "views", "opts")):
                c = json.loads(json.dumps(cur))
                tgt = c["first"] if i == 0 else c["steps"][i - 1]
                for key in ("warm", "order", "views", "opts"):
                    tgt.pop(key, None)
                cands.append(c)
        if cur.get("reuse_view"):
            c = json.loads(json.dumps(cur)); c["reuse_view"] = False; cands.append(c)
        for i in range(len(cur["net"]["rxns"])):
            if len(cur["net"]["rxns"]) > 1:
                c = json.loads(json.dumps(cur)); del c["net"]["rxns"][i]; cands.append(c)
        for c in cands:
            budget -= 1
            if budget <= 0:
                break
            if fails(c):
                cur = c
                changed = True
                break
    extra = {"failing_state": len(cur["steps"])}
    try:
        (states, calls), = evaluate_sessions(ctx, [cur], parallel=False)
        extra["history"] = ["H = <base network>"] + [" ; ".join(l) for l in calls[1:]]
        last = states[-1][0]
        extra["network_in_failing_state"] = last["dump"]
        fresh = net_of_dump(last["dump"])
        (_, obs, cert, lean, _), = evaluate(ctx, [fresh], parallel=False)
        extra["fresh_object_with_same_content_passes"] = not any(t[0] == what for t in judge(obs, cert, lean))
    except Exception as e:  # diagnostics only
        extra["diagnostics_failed"] = repr(e)
    return cur, extra


def run_sessions(ctx, cases, tag):
    state = {"unknown": 0}
    for case, (states, calls) in zip(cases, evaluate_sessions(ctx, cases)):
        ctx.count(f"{tag}:sessions")
        for st, log in zip(case["steps"], calls[1:]):
            ctx.count("session_edit:" + st["edit"]["op"] + (":" + st["edit"]["how"] if "how" in st["edit"] else "")
                      + (":not_applicable" if log == ["(edit not applicable)"] else ""))
        first_bad = None
        for k, (obs, cert, lean, logic) in enumerate(states):
            pref = session_prefix(case, k)
            record(ctx, pref["net"], obs, cert, lean, logic, tag, canon=["session", pref])
            if first_bad is not None:
                continue     # later states of a failing history are not independent evidence
            for what, detail, classes, no_input in map(unpack, judge(obs, cert, lean)):
                if not classes:
                    first_bad = k
                report(ctx, what, pref, {**detail, "stream": tag, "failing_state": k,
                                         "history": ["H = <base network>"] + [" ; ".join(l) for l in calls[1:k + 1]]},
                       classes, no_input, state, lambda c, w: shrink_session(ctx, c, w))
        if state["unknown"] > 40:
            break


# =============================================================== hand-built bipartite NetworkX graphs
# A case is a DESCRIPTION of a bipartite graph (nodes with id / part / flags / optional label, edges with role / optional
# stoich) plus a list of operations: insert node i, insert edge j, change a coefficient / a label in place, copy the graph
# object, rebuild it with another insertion order, query.  The specification side (`graph_states`) reads the description
# only; the implementation side (`work_graph`) builds the real NetworkX object and hands it to every anchored entry point.
GBLOCKS = ("S", "Smp", "same", "rank", "left", "right", "lrk", "psf", "tsf", "laws", "is_cons", "compute", "is_consi", "summary",
           "hyper")


def g_label(nd):
    return str(nd["label"]) if "label" in nd else str(nd["id"])


def g_attrs(nd):
    a = {}
    if nd["flags"] in ("kind", "both", "conflict"):
        a["kind"] = "species" if nd["part"] == "s" else "reaction"
    if nd["flags"] in ("bipartite", "both"):
        a["bipartite"] = 0 if nd["part"] == "s" else 1
    if nd["flags"] == "conflict":       # `kind` decides when present (documented): the contradicting flag must be ignored
        a["bipartite"] = 1 if nd["part"] == "s" else 0
    if "label" in nd:
        a["label"] = nd["label"]
    a.update(nd.get("extra") or {})
    return a


def g_dump(directed, nodes, edges, declared, touched, present, multi=False, denom=1):
    """The network a graph description stands for, in the shape of a store dump (species = sorted labels; one reaction per
    declared reaction node, id = e<index of the node in the description>, rule = its label).  multi: the graph is a
    MultiGraph / MultiDiGraph: parallel edges are allowed, the coefficients of parallel edges with the same role add up.
    denom = k > 1 (stream graph-fractional): the graph g carries the coefficients stoich / k; the dump is the network of the
    SCALED graph k * g (integer coefficients `stoich`; an absent attribute, i.e. coefficient 1, counts k)."""
    if not declared or not touched <= set(declared):
        raise Infra("graph case: a node mentioned by an edge has no attributes at query time")
    seen = set()
    for j in present:
        e = edges[j]
        if nodes[e["s"]]["part"] != "s" or nodes[e["r"]]["part"] != "r" or e["role"] not in ("reactant", "product"):
            raise Infra("graph case: edge does not join a species to a reaction")
        key = (e["s"], e["r"], e["role"]) if directed else (e["s"], e["r"])
        if key in seen and not multi:
            raise Infra("graph case: two edges on the same pair of nodes")
        seen.add(key)
    labels = {i: g_label(nodes[i]) for i in declared if nodes[i]["part"] == "s"}
    if not labels or len(set(labels.values())) != len(labels):
        raise Infra("graph case: species labels are not distinct")
    ids = [nodes[i]["id"] for i in declared]
    if len(set(ids)) != len(ids) or any(type(x) not in (int, str) for x in ids):
        raise Infra("graph case: node ids are not distinct ints / strings")
    out = []
    for k in sorted(i for i in declared if nodes[i]["part"] == "r"):
        r, p = [], []
        for j in present:
            e = edges[j]
            if e["r"] == k:
                c = int(denom) if e.get("stoich") is None else int(e["stoich"])
                if c < 1:
                    raise Infra("graph case: coefficient < 1")
                side = r if e["role"] == "reactant" else p
                hit = next((t for t in side if t[0] == labels[e["s"]]), None)
                if hit is not None:
                    hit[1] += c
                else:
                    side.append([labels[e["s"]], c])
        if not r and not p:
            raise Infra("graph case: reaction node without edges at query time")
        out.append({"id": f"e{k:03d}", "rule": g_label(nodes[k]), "r": sorted(r), "p": sorted(p)})
    if not out:
        raise Infra("graph case: no reaction node")
    return {"species": sorted(labels.values()), "edges": out}


def graph_states(case):
    """Specification side: interpret the operations on the description only.  -> [(dump, query plan)] per query."""
    g = case["graph"]
    nodes = [dict(n) for n in g["nodes"]]
    edges = [dict(e) for e in g["edges"]]
    declared, touched, present, out = [], set(), [], []
    for op in case["ops"]:
        k = op[0]
        if k == "n":
            if op[1] in declared:
                raise Infra("graph case: node declared twice")
            declared.append(op[1])
        elif k == "e":
            if op[1] in present:
                raise Infra("graph case: edge inserted twice")
            present.append(op[1])
            touched |= {edges[op[1]]["s"], edges[op[1]]["r"]}
        elif k == "c":
            if op[1] not in present:
                raise Infra("graph case: coefficient of an absent edge")
            edges[op[1]]["stoich"] = op[2]
        elif k == "l":
            if op[1] not in declared:
                raise Infra("graph case: label of an absent node")
            nodes[op[1]]["label"] = op[2]
        elif k in ("copy", "fn", "fe"):
            pass        # foreign nodes / edges (neither species nor reaction / not joining a species to a reaction) are no part of the network
        elif k == "perm":
            if sorted(op[1]) != sorted(declared) or sorted(op[2]) != sorted(present) or touched - set(declared):
                raise Infra("graph case: rebuild does not list the current nodes / edges")
            declared, present = list(op[1]), list(op[2])
        elif k == "q":
            out.append((g_dump(g["directed"], nodes, edges, declared, touched, present, bool(g.get("multi")), int(g.get("denom") or 1)),
                        op[1] if len(op) > 1 else {}))
        else:
            raise Infra(f"graph case: unknown operation {k}")
    if not out or case["ops"][-1][0] != "q":
        raise Infra("graph case: the last operation is not a query")
    return out


def label_matrix(dump, species, rules, Si):
    """produced - consumed of the described network with rows in the order of the RETURNED species labels and columns
    in the order of the RETURNED reaction labels (equally labelled reactions: aligned with the returned columns where
    they agree).  None when the returned labels are not the network's."""
    import numpy as np

    sp, cols = spec_S(dump)
    if sorted(species) != sp or len(set(species)) != len(species) or sorted(rules) != sorted(c[0] for c in cols):
        return None
    ridx = [sp.index(s) for s in species]
    unused, pick = list(range(len(cols))), []
    for j, lab in enumerate(rules):
        cand = [k for k in unused if cols[k][0] == lab]
        k = next((k for k in cand if all(Si[i][j] == cols[k][1][ridx[i]] for i in range(len(species)))), cand[0])
        unused.remove(k)
        pick.append(k)
    return np.array([[cols[k][1][i] for k in pick] for i in ridx], dtype=float).reshape(len(species), len(cols))


# ---------------------------------------------------------------- the graph reading itself, against its Lean model (bip.stoich)
def _bip_int(x):
    """Attribute value -> int or None (absent); raises ValueError when it is neither (the model has integers only)."""
    if x is None:
        return None
    if isinstance(x, bool):
        return int(x)
    if isinstance(x, int):
        return x
    if isinstance(x, float) and x.is_integer():
        return int(x)
    import numbers
    if isinstance(x, numbers.Integral):                                  # numpy.int64 / int32: the same integer
        return int(x)
    if isinstance(x, numbers.Real) and float(x).is_integer():            # numpy.float32 / float16
        return int(float(x))
    raise ValueError(f"not an integer: {x!r}")


def _bip_scaled(x, k):
    """Coefficient x (int / float / Fraction / NumPy scalar, a multiple of 1/k) -> the integer k * x; ValueError otherwise."""
    if isinstance(x, bool):
        v = Fr(int(x))
    elif isinstance(x, (int, Fr)):
        v = Fr(x)
    else:
        v = Fr(float(x))            # float and NumPy floating / integer scalars (exact: binary fractions)
    v *= k
    if v.denominator != 1:
        raise ValueError(f"not a multiple of 1/{k}: {x!r}")
    return int(v)


def bip_request(G, arcs=None, scale=1):
    """The NetworkX object G serialised node by node (G.nodes order) and edge by edge for the driver command bip.stoich
    (SynKitModel/BipGraph.lean).  arcs: the add_edge calls [(u, v, attrs)] that built G (then the model also has to
    reproduce what NetworkX stores); default: the stored edges G.edges(data=True).  -> request, or {"skip": reason}.
    scale = k > 1: what is serialised is the graph k * G (every `stoich` multiplied by k, which has to give an integer; an
    absent `stoich` -- coefficient 1 -- is written as the explicit coefficient k): the model holds integers only."""
    ids = [str(n) for n in G.nodes]
    plain = len(set(ids)) == len(ids)
    tok = (lambda n: str(n)) if plain else (lambda n: repr(n))      # 1 and "1" in one graph: ids by repr, labels explicit
    try:
        nodes = []
        for n, d in G.nodes(data=True):
            kind = d.get("kind")
            if kind is not None and not isinstance(kind, str):
                return {"skip": "kind is not a string"}
            nd = {"id": tok(n), "kind": kind, "flag": _bip_int(d.get("bipartite")),
                  "label": str(d["label"]) if "label" in d else (None if plain else str(n))}
            nodes.append(nd)
        out = []
        for u, v, d in (G.edges(data=True) if arcs is None else arcs):
            role = d.get("role")
            if role is not None and not isinstance(role, str):
                return {"skip": "role is not a string"}
            if scale != 1:
                st_ = _bip_scaled(d["stoich"], scale) if "stoich" in d else int(scale)
            else:
                st_ = _bip_int(d["stoich"]) if "stoich" in d else None
            out.append({"src": tok(u), "dst": tok(v), "role": role, "stoich": st_})
    except ValueError as e:
        return {"skip": str(e)}
    return {"cmd": "bip.stoich", "directed": bool(G.is_directed()), "multi": bool(G.is_multigraph()), "nodes": nodes, "arcs": out,
            "ids": "str" if plain else "repr"}


def attach_bip(ctx, observations):
    """Ask the driver for every observation that carries a serialised graph; the answer is stored in obs["bip_lean"]."""
    todo = [o for o in observations if isinstance(o, dict) and isinstance(o.get("bip"), dict) and "cmd" in o["bip"] and "bip_lean" not in o]
    if todo:
        for o, rep in zip(todo, ctx.lean().ok([{k: v for k, v in o["bip"].items() if k != "ids"} for o in todo], shards=8)):
            o["bip_lean"] = rep


BIP_GATE = ("build_S_minus_plus / build_S on a bipartite NetworkX graph differ from the Lean model of the graph reading (bip.stoich: "
            "_as_bipartite, _split_species_reactions, _species_and_reaction_order, build_S_minus_plus) evaluated on the same graph, "
            "serialised node by node and edge by edge")


def judge_bip(obs):
    """Gate: what the implementation returned for the graph object = what the Lean model of the graph reading returns for
    the same object (labels and their order, S_minus, S_plus, S, or ValueError).  -> list of (what, detail, classes)."""
    lean = obs.get("bip_lean")
    if lean is None or "crash" in obs:
        return []
    if lean.get("wfCore") is True and lean.get("reactionLabelsDistinct") is True and lean.get("netAgrees") is not True:
        raise Infra(f"bip.stoich contradicts theorem graphS_eq_buildS on {json.dumps(obs['bip'])[:600]}")
    if "error" in obs or "error" in lean:
        if obs.get("error") == lean.get("error"):
            return []
        return [(BIP_GATE, {"impl": {"error": obs.get("error")}, "model": {"error": lean.get("error")}, "graph": obs["bip"]}, (),
                 lean.get("wfCore") is not True)]
    impl = {"rows": obs["species"], "cols": obs["rules"], "S_minus": obs["S_minus"], "S_plus": obs["S_plus"], "S": obs["S"]}
    model = {k: lean[k] for k in impl}
    if not obs.get("integral", True) or impl != model:
        # well-formed graph: the model IS the specification (theorem graphS_eq_buildS / _upto_ties: the matrices of the described
        # network) -> failing input; otherwise the property does not determine the answer: the correspondence broke
        return [(BIP_GATE, {"impl": impl, "model": model, "graph": obs["bip"], "stored": lean.get("stored"),
                            "as_bipartite": lean.get("bipartite"), "described_network": lean.get("net")}, (),
                 lean.get("wfCore") is not True)]
    return []


def bip_net_matches_dump(obs):
    """Harness-internal: the network the Lean model reads off the graph (netOfGraph) is the network the case description
    stands for (species as a set; reactions as a multiset of (label, consumed, produced))."""
    lean = obs.get("bip_lean")
    if lean is None or "net" not in lean:
        return True
    dump, net = obs["dump"], lean["net"]
    key = lambda e: (e["rule"], sorted([str(a), int(b)] for a, b in e["r"]), sorted([str(a), int(b)] for a, b in e["p"]))
    return sorted(net["species"]) == sorted(dump["species"]) and sorted(map(key, net["edges"])) == sorted(map(key, dump["edges"]))


def observe_G(G, dump, plan, denom=1):
    """Run every anchored entry point on one NetworkX graph object.  `dump`: the network the description stands for
    (used for the label-indexed matrix the returned vectors have to annihilate and for the equivalent CRNHyperGraph).
    denom = k > 1: the coefficients of G are multiples of 1/k and `dump` is the network of k * G: the returned S, S_minus, S_plus
    are multiplied by k (exact in binary floating point, k a power of two) before they are compared as integer matrices; the
    returned kernel vectors / witnesses are tested against the matrix AS RETURNED (integer matrix / k)."""
    import numpy as np
    from synkit.CRN.Props import stoich
    from synkit.CRN.Petri import semiflows

    denom = int(denom or 1)
    out = {"dump": dump, "bip": bip_request(G, scale=denom)}
    if denom != 1:
        out["denom"] = denom
    real = stoich.linprog
    rec = _LinprogRecorder(real)
    raw = {}
    opts = plan.get("opts")
    x = plan.get("x")
    noscipy = bool(x and x.get("noscipy"))
    scipy_on = bool(stoich._SCIPY_AVAILABLE) and not noscipy
    if noscipy:
        out["noscipy"] = True

    def with_calls(key, f, sink):
        a = len(rec.calls)
        sink[key] = f()
        sink[key + "_calls"] = rec.calls[a:]

    def b_hyper(sink):
        # the same network as a store object (built from the description): its build_S and its own incidence matrix
        H = build_net(net_of_dump(dump))
        sink["hyper"] = stoich.build_S(H)
        sink["hyper_inc"] = H.incidence_matrix(sparse=False)

    blocks = {
        "S": lambda k: k.__setitem__("S", stoich.build_S(G)),
        "Smp": lambda k: k.__setitem__("Smp", stoich.build_S_minus_plus(G)),
        "same": lambda k: k.__setitem__("same", stoich.stoichiometric_matrix(G)),
        "rank": lambda k: k.__setitem__("rank", int(stoich.stoichiometric_rank(G))),
        "left": lambda k: k.__setitem__("left", stoich.left_nullspace(G)),
        "right": lambda k: k.__setitem__("right", stoich.right_nullspace(G)),
        "lrk": lambda k: k.__setitem__("lrk", stoich.left_right_kernels(G)),
        "psf": lambda k: k.__setitem__("psf", semiflows.find_p_semiflows(G)),
        "tsf": lambda k: k.__setitem__("tsf", semiflows.find_t_semiflows(G)),
        "laws": lambda k: k.__setitem__("laws", stoich.integer_conservation_laws(G)),
        "is_cons": lambda k: with_calls("is_cons", lambda: stoich.is_conservative(G), k),
        "compute": lambda k: with_calls("compute", lambda: stoich.compute_conservativity(G), k),
        "is_consi": lambda k: with_calls("is_consi", lambda: stoich.is_consistent(G), k),
        "summary": lambda k: with_calls("summary", lambda: stoich.summary(G), k),
        "hyper": b_hyper,
    }
    order = list(plan.get("order") or GBLOCKS)
    if sorted(order) != sorted(GBLOCKS):
        raise Infra(f"bad query order {order}")
    env = _Env(stoich, rec, noscipy)
    env.__enter__()
    try:
        for name in plan.get("warm", ()):
            blocks[name]({})
        for name in order:
            if name == "S":
                try:
                    blocks[name](raw)
                except ValueError as e:
                    out["error"] = "ValueError"
                    out["error_text"] = str(e)
                    return out
            else:
                blocks[name](raw)
        oraw = None
        if opts:
            oraw = {}
            oraw["rank"] = int(stoich.stoichiometric_rank(G, tol=opts["tol"]))
            oraw["left"] = stoich.left_nullspace(G, rtol=opts["rtol"])
            oraw["right"] = stoich.right_nullspace(G, rtol=opts["rtol"])
            oraw["lrk"] = stoich.left_right_kernels(G, rtol=opts["rtol"])
            oraw["psf"] = semiflows.find_p_semiflows(G, rtol=opts["rtol"])
            oraw["tsf"] = semiflows.find_t_semiflows(G, rtol=opts["rtol"])
            oraw["is_cons"] = stoich.is_conservative(G, eps=opts["eps"])
            oraw["compute"] = stoich.compute_conservativity(G, rtol=opts["rtol"], eps=opts["eps"])
            oraw["is_consi"] = stoich.is_consistent(G, eps=opts["ceps"])
        if x and x.get("sum") is not None:
            out["extras"] = observe_extras(G, x, stoich)
    finally:
        env.__exit__()

    sp, rules, S = raw["S"]
    sp2, rules2, Sm, Sp = raw["Smp"]
    if denom != 1:
        out["returned"] = {"S": np.asarray(S, dtype=float).tolist(), "S_minus": np.asarray(Sm, dtype=float).tolist(),
                           "S_plus": np.asarray(Sp, dtype=float).tolist()}
    scaled = (lambda M: np.asarray(M, dtype=float) * denom) if denom != 1 else (lambda M: M)
    Si, exact = as_int_matrix(scaled(S))
    Smi, e1 = as_int_matrix(scaled(Sm))
    Spi, e2 = as_int_matrix(scaled(Sp))
    out.update(species=[str(s) for s in sp], rules=[str(r) for r in rules], S=Si, S_minus=Smi, S_plus=Spi,
               integral=exact and e1 and e2, same_orders=(list(sp) == list(sp2) and list(rules) == list(rules2)),
               shape=list(np.asarray(S).shape))
    Sf = np.array(Si, dtype=float).reshape(len(sp), len(rules)) / denom
    St = label_matrix(dump, out["species"], out["rules"], Si) if np.asarray(S).shape == (len(sp), len(rules)) else None
    if St is not None and St.shape != Sf.shape:
        St = None
    if St is not None:
        St = St / denom
    hs, hr, hS = raw["hyper"]
    hSi, hex_ = as_int_matrix(hS)
    so, eo, inc = raw["hyper_inc"]
    out["hyper"] = {"species": [str(x) for x in hs], "rules": [str(x) for x in hr], "S": hSi, "integral": hex_,
                    "inc": {"species": list(so), "edges": list(eo), "M": [[int(x) for x in row] for row in np.asarray(inc).tolist()]}}
    out["stoichiometric_matrix_same"] = bool(np.array_equal(raw["same"], S))
    out["rank"] = raw["rank"]
    Lb, Rb = raw["left"], raw["right"]

    def rep(B, side, nrows):
        r = basis_report(B, Sf, side, nrows)
        if St is not None and not r.get("bad_shape") and "worst" in r:
            r["worst_store"] = basis_report(B, St, side, nrows)["worst"]
        return r

    def witness(mw):
        if mw is None:
            return None
        mw = np.asarray(mw, dtype=float)
        nm = float(np.linalg.norm(mw))
        ok = mw.size == len(sp) and nm > 0
        w = {"len": int(mw.size), "positive": bool(mw.size == len(sp) and np.all(mw > 0)),
             "residual": (float(np.max(np.abs(mw @ Sf))) / nm) if ok else float("inf")}
        if St is not None and ok:
            w["residual_store"] = float(np.max(np.abs(mw @ St))) / nm
        return w

    out["left"] = rep(Lb, "left", len(sp))
    out["right"] = rep(Rb, "right", len(rules))
    L2, R2 = raw["lrk"]
    out["left_right_kernels"] = [rep(L2, "left", len(sp)), rep(R2, "right", len(rules))]
    out["p_semiflows"] = rep(raw["psf"], "left", len(sp))
    out["t_semiflows"] = rep(raw["tsf"], "right", len(rules))
    laws = raw["laws"]
    out["int_laws"] = {"n": len(laws), "exact": sum(1 for l in laws if len(l) == len(sp) and any(l) and
                                                      all(sum(l[i] * Si[i][j] for i in range(len(sp))) == 0 for j in range(len(rules))))}
    out["is_conservative"] = raw["is_cons"]
    flag, mw = raw["compute"]
    out["is_consistent"] = raw["is_consi"]
    out["compute_flag"] = flag
    out["witness"] = witness(mw)
    out["summary"] = {k: (v if v is None or isinstance(v, bool) else int(v)) for k, v in raw["summary"].to_dict().items()}
    if oraw is not None:
        o2 = {"opts": opts, "rank": oraw["rank"], "left": rep(oraw["left"], "left", len(sp)), "right": rep(oraw["right"], "right", len(rules)),
              "left_right_kernels": [rep(oraw["lrk"][0], "left", len(sp)), rep(oraw["lrk"][1], "right", len(rules))],
              "p_semiflows": rep(oraw["psf"], "left", len(sp)), "t_semiflows": rep(oraw["tsf"], "right", len(rules)),
              "is_conservative": oraw["is_cons"], "compute_flag": oraw["compute"][0], "witness": witness(oraw["compute"][1]),
              "is_consistent": oraw["is_consi"]}
        Bo = np.atleast_2d(oraw["left"])
        ko = Bo.shape[1] if Bo.size else 0
        o2["lk"] = int(ko)
        o2["lscan"] = [bool(np.all(Bo[:, k] > opts["eps"]) or np.all(Bo[:, k] < -opts["eps"])) for k in range(ko)]
        Ro = np.atleast_2d(oraw["right"])
        kr = Ro.shape[1] if Ro.size else 0
        o2["rk"] = int(kr)
        o2["rscan"] = [bool(np.all(Ro[:, k] > opts["ceps"]) or np.all(Ro[:, k] < -opts["ceps"])) for k in range(kr)]
        out["opt"] = o2
    # ---- oracle observations for the modelled decision logic (as for store inputs)
    B = np.atleast_2d(Lb)
    k = B.shape[1] if B.size else 0
    lp_calls = [c for c in raw["is_cons_calls"] if c["kind"] == "ub"]
    lp = "failed"
    if lp_calls:
        c = lp_calls[-1]
        if c["exc"]:
            lp = "failed"
        elif c["success"] and c["x"] is not None:
            mm = B @ np.array(c["x"], dtype=float)
            lp = "optimalStrict" if bool(np.all(mm > EPS)) else "optimalNotStrict"
        elif c["status"] == 2:
            lp = "infeasible"
        elif c["status"] == 3:
            lp = "unbounded"
    eq_calls = [c for c in raw["is_consi_calls"] if c["kind"] == "eq"]
    clp = {"kind": "other"}
    if eq_calls:
        c = eq_calls[-1]
        if not c["exc"] and c["success"]:
            vv = np.array(c["x"], dtype=float)
            residual = Sf @ vv
            max_v = float(np.max(np.abs(vv))) or 1.0
            clp = {"kind": "optimal", "residualOk": bool(np.linalg.norm(residual, ord=np.inf) / max_v <= 1e-8),
                   "vPos": bool(np.all(vv > EPS))}
        elif not c["exc"] and c["status"] == 2:
            clp = {"kind": "infeasible"}
    RB = np.atleast_2d(Rb)
    rk = RB.shape[1] if RB.size else 0
    out["oracle"] = {"nSpecies": len(sp), "nReactions": len(rules), "scipy": scipy_on, "lk": int(k),
                     "lscan": out["left"].get("signdef", [])[:k] if k else [], "lp": lp, "lp_called": bool(lp_calls),
                     "rk": int(rk), "rscan": out["right"].get("signdef", [])[:rk] if rk else [], "clp": clp,
                     "clp_status": eq_calls[-1].get("status") if eq_calls else None}
    return out


FRAC_REPS = ["float", "float", "float", "npfloat", "npfloat", "npfloat32", "npfloat16"]      # a non-integral multiple of 1/k
FRAC_REPS_INTEGRAL = ["int", "int", "float", "npint", "npfloat", "npint32"]                      # an integral one (same graph: mixed)


def frac_value(num, den, rep):
    """The coefficient num / den (den a power of two, num small: every representation below holds it exactly) as the Python /
    NumPy number of the requested representation; an integer type that cannot hold it falls back to float."""
    import numpy as np

    x = Fr(int(num), int(den))
    if x.denominator == 1 and rep in ("int", "npint", "npint32"):
        return {"int": int, "npint": np.int64, "npint32": np.int32}[rep](int(x))
    if rep in ("npfloat", "npfloat32", "npfloat16"):
        return {"npfloat": np.float64, "npfloat32": np.float32, "npfloat16": np.float16}[rep](float(x))
    return float(x)                 # "float": what 3 / 2, 0.25, float(Fraction(5, 2)) evaluate to


def graph_class(g):
    import networkx as nx

    multi = bool(g.get("multi"))
    if g["directed"]:
        return (nx.MultiDiGraph, "nx.MultiDiGraph") if multi else (nx.DiGraph, "nx.DiGraph")
    return (nx.MultiGraph, "nx.MultiGraph") if multi else (nx.Graph, "nx.Graph")


def work_graph(case):
    """Worker: build the NetworkX object operation by operation, observe at every query.
    -> list of per-query (obs, cert, req, lreq) + the log of concrete calls per query."""
    import gc
    import traceback

    g = case["graph"]
    spec = graph_states(case)            # description only
    nodes, edges = g["nodes"], g["edges"]
    fnodes, fedges = g.get("fnodes") or [], g.get("fedges") or []
    multi = bool(g.get("multi"))
    denom = int(g.get("denom") or 1)
    cls, name = graph_class(g)
    G = cls()
    keep, states, calls = [], [], []
    log = [f"G = {name}()"]
    qi = 0
    ekey = {}                 # multigraphs: key of the edge with description index j
    f_in, fe_in = [], []      # foreign nodes / edges inserted so far (a rebuilt object gets them again)

    def nid(i):
        return nodes[i]["id"]

    def ends(j):
        e = edges[j]
        s, r = nid(e["s"]), nid(e["r"])
        return (s, r) if e["role"] == "reactant" else (r, s)

    def fend(ref):
        return nid(ref[1]) if ref[0] == "n" else fnodes[ref[1]]["id"]

    def edata(H, j):
        u, v = ends(j)
        return H.edges[u, v, ekey[j]] if multi else H.edges[u, v]

    def add_foreign_edge(H, j, log):
        fe = fedges[j]
        u, v = fend(fe["u"]), fend(fe["v"])
        H.add_edge(u, v, **fe["attrs"])
        log.append(f"G.add_edge({u!r}, {v!r}, **{fe['attrs']!r})   # does not join a species to a reaction")

    for op in case["ops"]:
        k = op[0]
        if k == "n":
            nd = nodes[op[1]]
            a = g_attrs(nd)
            G.add_node(nd["id"], **a)
            log.append(f"G.add_node({nd['id']!r}, **{a!r})")
        elif k == "e":
            e = edges[op[1]]
            u, v = ends(op[1])
            a = {"role": e["role"]}
            if e.get("stoich") is not None and denom != 1:
                a["stoich"] = frac_value(e["stoich"], denom, e.get("rep") or "float")      # the coefficient stoich / denom
            elif e.get("stoich") is not None:
                a["stoich"] = float(e["stoich"]) if e.get("float") else int(e["stoich"])
                if e.get("num"):            # the same integer as a NumPy scalar (equal under ==, other type / print)
                    import numpy as np

                    a["stoich"] = {"npint": np.int64, "npfloat": np.float64, "npint32": np.int32}[e["num"]](e["stoich"])
            # attributes the documented conventions do not mention (only `role` / `stoich` count): must be ignored
            a.update(e.get("extra") or {})
            key = G.add_edge(u, v, **a)
            if multi:
                ekey[op[1]] = key
            log.append(f"G.add_edge({u!r}, {v!r}, **{a!r})")
        elif k == "fn":
            fn = fnodes[op[1]]
            G.add_node(fn["id"], **fn["attrs"])
            f_in.append(op[1])
            log.append(f"G.add_node({fn['id']!r}, **{fn['attrs']!r})   # neither species nor reaction")
        elif k == "fe":
            add_foreign_edge(G, op[1], log)
            fe_in.append(op[1])
        elif k == "c":
            u, v = ends(op[1])
            val = op[2] if denom == 1 else frac_value(op[2], denom, op[3] if len(op) > 3 else "float")
            edata(G, op[1])["stoich"] = val
            log.append(f"G.edges[{u!r}, {v!r}{', ' + repr(ekey[op[1]]) if multi else ''}]['stoich'] = {val!r}")
        elif k == "l":
            G.nodes[nid(op[1])]["label"] = op[2]
            log.append(f"G.nodes[{nid(op[1])!r}]['label'] = {op[2]!r}")
        elif k == "copy":
            keep.append(G)
            G = G.copy()
            log.append("G = G.copy()")
        elif k == "perm":
            new = cls()
            for i in op[1]:
                new.add_node(nid(i), **dict(G.nodes[nid(i)]))
            nkey = {}
            for j in op[2]:
                u, v = ends(j)
                key = new.add_edge(u, v, **dict(edata(G, j)))
                if multi:
                    nkey[j] = key
            for i in f_in:
                new.add_node(fnodes[i]["id"], **dict(G.nodes[fnodes[i]["id"]]))
            sink = []
            for j in fe_in:
                add_foreign_edge(new, j, sink)
            if op[3]:
                keep.append(G)
            G, ekey = new, nkey
            gc.collect()
            log.append(f"G = <new {name} with the same nodes inserted in the order {[nid(i) for i in op[1]]!r}, the same edges"
                       + (f", then the {len(f_in)} other nodes / {len(fe_in)} other edges" if f_in or fe_in else "") + ", "
                       + ("the old object kept" if op[3] else "the old object released") + ">")
        elif k == "q":
            dump, plan = spec[qi]
            qi += 1
            try:
                obs = observe_G(G, dump, plan, denom)
            except Exception as e:
                if isinstance(e, Infra):
                    raise
                obs = {"dump": dump, "crash": f"{type(e).__name__}: {e}", "trace": traceback.format_exc()[-1500:]}
            states.append(package(obs))
            calls.append(log)
            log = []
    return states, calls


def judge_G(obs, cert, lean):
    """Gates for one query on a hand-built graph: the description-based gates (`judge_G_described`: the expected network is
    read off the case description) and the model-based gate (`judge_bip`: the expected matrices come from the Lean model of
    the graph reading applied to the very NetworkX object).  -> list of (what, detail, classes[, no_input])."""
    if "crash" not in obs and not bip_net_matches_dump(obs):
        raise Infra("netOfGraph (Lean model of the graph reading) differs from the network the case description stands for: "
                    + json.dumps({"net": obs["bip_lean"]["net"], "dump": obs["dump"]})[:900])
    found = judge_G_described(obs, cert, lean) + judge_bip(obs)
    k = obs.get("denom")
    if k and found:
        note = {"non_integral_coefficients": f"the coefficients of this graph are multiples of 1/{k}; every integer matrix shown here (impl / spec / "
                                             f"model / described network) is {k} times the matrix of the graph (build_S is linear in the coefficients: "
                                             f"S(g) = S({k} g) / {k}); as_returned = what the implementation returned for the graph itself",
                "as_returned": obs.get("returned")}
        found = [(t[0], {**t[1], **note}) + tuple(t[2:]) for t in found]
    return found


def judge_G_described(obs, cert, lean):
    """Description-based gates for one query on a hand-built graph.  -> list of (what, detail, classes[, no_input])."""
    v = []
    dump = obs["dump"]
    if "crash" in obs:
        return [("an anchored entry point raised on a well-formed bipartite NetworkX graph: " + obs["crash"].split(":")[0],
                 {"error": obs["crash"], "trace": obs["trace"]}, ())]
    if "error" in obs:
        return [("build_S raised " + obs["error"] + " on a bipartite NetworkX graph that has species and reaction nodes",
                 {"text": obs.get("error_text")}, ())]
    sp, cols = spec_S(dump)
    m, n = len(sp), len(cols)
    r = cert["r"]
    for key in ("rankOk", "rkerOk", "lkerOk"):
        if lean.get(key) is not True:
            raise Infra(f"certificate {key} rejected by the Lean checker for {json.dumps(dump)}")
    for key in ("cons", "consi"):
        if lean[key]["ok"] is not True or lean[key]["kind"] != cert[key]:
            raise Infra(f"certificate {key} rejected by the Lean checker for {json.dumps(dump)}")
    if lean["ids"] != [c[4] for c in cols] or lean["species"] != sp:
        raise Infra(f"harness and model disagree on the presentation order of S for {json.dumps(dump)}")
    if lean["r"] != r or lean["incidenceAgrees"] is not True:
        raise Infra("model: rank certificate size / incidence agreement")
    want_rules = sorted(c[0] for c in cols)
    if not obs["integral"] or obs["shape"] != [m, n] or not obs["same_orders"] or not obs["stoichiometric_matrix_same"]:
        return [("build_S on a bipartite NetworkX graph: matrix is not an integral n_species x n_reactions array shared by build_S / "
                 "build_S_minus_plus / stoichiometric_matrix", {"shape": obs["shape"], "expected": [m, n]}, ())]
    if sorted(obs["species"]) != sp or len(set(obs["species"])) != len(obs["species"]):
        return [("build_S on a bipartite NetworkX graph: rows are not one per species label", {"impl": obs["species"], "spec": sp}, ())]
    if sorted(obs["rules"]) != want_rules:
        return [("build_S on a bipartite NetworkX graph: columns are not one per reaction label", {"impl": obs["rules"], "spec": want_rules}, ())]
    # -- entries: rows taken by the RETURNED species label, columns as a multiset with their reaction label
    want = sorted((c[0], tuple((s, x) for s, x in zip(sp, c[1]))) for c in cols)
    ridx = [obs["species"].index(s) for s in sp]
    got = col_multiset(sp, obs["rules"], [obs["S"][i] for i in ridx])
    if got != want:
        v.append(("build_S on a bipartite NetworkX graph: the entry in the row labelled s and a column labelled r is not "
                  "(produced minus consumed) of species s in a reaction labelled r", {"impl": got, "spec": want,
                                                                                   "returned": [obs["species"], obs["rules"], obs["S"]]}, ()))
    want_m = sorted((c[0], tuple((s, x) for s, x in zip(sp, c[2]))) for c in cols)
    want_p = sorted((c[0], tuple((s, x) for s, x in zip(sp, c[3]))) for c in cols)
    if col_multiset(sp, obs["rules"], [obs["S_minus"][i] for i in ridx]) != want_m or \
            col_multiset(sp, obs["rules"], [obs["S_plus"][i] for i in ridx]) != want_p:
        v.append(("build_S_minus_plus on a bipartite NetworkX graph: S_minus / S_plus differ from the consumed / produced counts "
                  "(rows by returned species label)", {"S_minus": obs["S_minus"], "S_plus": obs["S_plus"], "species": obs["species"]}, ()))
    if any(obs["S"][i][j] != obs["S_plus"][i][j] - obs["S_minus"][i][j] for i in range(m) for j in range(n)):
        v.append(("build_S: S differs from S_plus - S_minus", {}, ()))
    # -- the documented order: species and reactions lexicographically by label
    if obs["species"] != sp or obs["rules"] != want_rules:
        v.append(("build_S on a bipartite NetworkX graph: species / reactions are not returned in the lexicographic order of their labels "
                  "(promised by _species_and_reaction_order)", {"impl": [obs["species"], obs["rules"]], "sorted": [sp, want_rules]}, ()))
    # -- the same network as a store object: build_S(H) and H's own incidence matrix, under identical labels
    hy = obs["hyper"]
    # (columns as a multiset of vectors: how a store spells an empty / missing rule label is not the graph's business)
    if not hy["integral"] or sorted(hy["species"]) != sp or \
            sorted(c[1] for c in col_multiset(sp, hy["rules"], [hy["S"][hy["species"].index(x)] for x in sp])) != sorted(c[1] for c in got):
        v.append(("build_S(bipartite NetworkX graph) differs from build_S(CRNHyperGraph of the same network) under identical labels",
                  {"graph": got, "hypergraph": [hy["species"], hy["rules"], hy["S"]]}, ()))
    inc = hy["inc"]
    if sorted(inc["species"]) == sp:
        iidx = [inc["species"].index(s) for s in sp]
        a = sorted(tuple(inc["M"][i][j] for i in iidx) for j in range(len(inc["edges"])))
        b = sorted(tuple(obs["S"][i][j] for i in ridx) for j in range(n))
        if a != b:
            v.append(("build_S(bipartite NetworkX graph) disagrees with the network's own incidence_matrix under identical species labels "
                      "(columns compared as a multiset)", {"incidence": a, "build_S": b}, ()))
    else:
        raise Infra(f"equivalent CRNHyperGraph does not have the described species: {inc['species']} vs {sp}")
    if v:
        return v
    store_msg = ("the produced-minus-consumed matrix of the described network indexed by the returned species / reaction labels")
    judge_numbers(v, obs, cert, m, n, r, store_msg, {"returned": [obs["species"], obs["rules"], obs["S"]]})
    return v


def record_G(ctx, case, k, obs, cert, tag, canon):
    dump = obs["dump"]
    g = case["graph"]
    if "crash" in obs or "error" in obs:
        ctx.count("graph:implementation_raised")
        ctx.case(canon, False)
        return
    m, n, r = len(dump["species"]), len(dump["edges"]), cert["r"]
    ctx.count(f"{tag}:queries")
    b = obs.get("bip") or {}
    ctx.count("graph:lean_model_of_graph_reading:" + ("compared" + ("(node ids by repr)" if b.get("ids") == "repr" else "")
                                                       if "bip_lean" in obs else "skipped:" + str(b.get("skip"))))
    if "bip_lean" in obs:
        ctx.count("graph:lean_model:hypotheses_of_graphS_eq_buildS:" + ("hold" if obs["bip_lean"].get("wf") else
                  "reaction_labels_tied" if obs["bip_lean"].get("wfCore") else "fail"))
    ctx.count("graph:" + (("MultiDiGraph" if g["directed"] else "MultiGraph(undirected)") if g.get("multi") else
                          ("DiGraph" if g["directed"] else "Graph(undirected)")))
    ctx.count("conservative:" + ("yes" if cert["cons"] == "pos" else "no"))
    ctx.count("consistent:" + ("yes" if cert["consi"] == "pos" else "no"))
    ctx.count(f"left_kernel_dim:{min(m - r, 3)}{'+' if m - r >= 3 else ''}")
    ctx.count(f"right_kernel_dim:{min(n - r, 3)}{'+' if n - r >= 3 else ''}")
    if "opt" in obs:
        ctx.count("non_default_tolerances")
    count_x(ctx, obs)
    if obs["witness"] is not None:
        ctx.count("witness_returned")
    if obs.get("denom"):
        kd = obs["denom"]
        frac = [c for e in dump["edges"] for _, c in e["r"] + e["p"] if c % kd]
        ctx.count(f"fractional:denominator:{kd}")
        ctx.count("fractional:family:" + str(g.get("family")))
        ctx.count("fractional:non_integral_coefficients_in_queried_graph:" + (str(len(frac)) if len(frac) < 3 else "3+"))
        if any(c < kd for c in frac):
            ctx.count("fractional:some_coefficient_below_1")
        ctx.count("fractional:split:" + ("cons" if cert["cons"] == "pos" else "noncons") + "+" + ("consi" if cert["consi"] == "pos" else "nonconsi"))
        ctx.count(f"fractional:rank:{min(r, 3)}{'+' if r >= 3 else ''}")
    nontrivial = n >= 1 and r >= 1
    ctx.case(canon, nontrivial, sample={"stream": tag, "graph": g, "ops": case["ops"], "rank": r} if len(g["nodes"]) <= 5 else None)


def graph_profile(case):
    """Counters describing how the final graph object was put together (description only)."""
    g = case["graph"]
    nodes = [dict(n) for n in g["nodes"]]
    order = []
    for op in case["ops"]:
        if op[0] == "n" and op[1] not in order:
            order.append(op[1])
        elif op[0] == "e":
            for i in (g["edges"][op[1]]["s"], g["edges"][op[1]]["r"]) if g["edges"][op[1]]["role"] == "reactant" else \
                    (g["edges"][op[1]]["r"], g["edges"][op[1]]["s"]):
                if i not in order:
                    order.append(i)
        elif op[0] == "l":
            nodes[op[1]]["label"] = op[2]
        elif op[0] == "perm":
            order = list(op[1])
    out = []
    for part, name in (("s", "species"), ("r", "reactions")):
        labs = [g_label(nodes[i]) for i in order if nodes[i]["part"] == part]
        out.append(f"graph:{name}_inserted_" + ("in_label_order" if labs == sorted(labs) else "NOT_in_label_order"))
    kinds = {type(n["id"]).__name__ for n in nodes}
    out.append("graph:node_ids:" + "+".join(sorted(kinds)))
    out.append("graph:labels:" + ("some_missing" if any("label" not in n for n in nodes) else
                                   "differ_from_ids" if any(str(n.get("label")) != str(n["id"]) for n in nodes) else "equal_ids"))
    out.append("graph:flags:" + "+".join(sorted({n["flags"] for n in nodes})))
    rl = [g_label(n) for n in nodes if n["part"] == "r"]
    out.append("graph:reaction_labels:" + ("distinct" if len(set(rl)) == len(rl) else "with_ties"))
    out.append("graph:queries:" + str(min(3, sum(1 for op in case["ops"] if op[0] == "q"))) + ("+" if sum(1 for op in case["ops"] if op[0] == "q") >= 3 else ""))
    for op in case["ops"]:
        if op[0] in ("c", "l", "copy", "perm"):
            out.append("graph_edit:" + {"c": "coefficient_in_place", "l": "label_in_place", "copy": "copy", "perm": "rebuilt_other_insertion_order"}[op[0]])
    if g.get("multi"):
        pairs = [(e["s"], e["r"]) for e in g["edges"]]
        same_role = [(e["s"], e["r"], e["role"]) for e in g["edges"]]
        out.append("graph:multi:parallel_edges:" + ("none" if len(set(pairs)) == len(pairs) else
                                                     "same_role" if len(set(same_role)) < len(same_role) else "reactant+product"))
    nf, nfe = sum(1 for op in case["ops"] if op[0] == "fn"), sum(1 for op in case["ops"] if op[0] == "fe")
    if nf or nfe:
        out.append("graph:with_nodes_that_are_neither_species_nor_reaction" if nf else "graph:without_foreign_nodes")
        for op in case["ops"]:
            if op[0] == "fe":
                fe = g["fedges"][op[1]]
                kinds = sorted(("foreign" if ref[0] == "f" else {"s": "species", "r": "reaction"}[nodes[ref[1]]["part"]]) for ref in (fe["u"], fe["v"]))
                out.append("graph:edge_not_species_reaction:" + "-".join(kinds))
    if any(n["flags"] == "conflict" for n in nodes):
        out.append("graph:some_nodes_with_kind_and_contradicting_bipartite_flag")
    return out


def graph_prefix(case, k):
    """The operations up to and including the k-th query."""
    ops, seen = [], -1
    for op in case["ops"]:
        ops.append(op)
        if op[0] == "q":
            seen += 1
            if seen == k:
                break
    return {"graph": case["graph"], "ops": ops}


def graph_failures(ctx, case):
    (states, _), = evaluate_sessions(ctx, [case], parallel=False, worker=work_graph)
    return [(k, t[0]) for k, (obs, cert, lean, logic) in enumerate(states) for t in judge_G(obs, cert, lean) + judge_logic(obs, logic)]


def shrink_graph(ctx, case, what):
    """Greedy: drop earlier queries / edits, query-plan options, reaction nodes (with their edges), single edges, species
    without edges; lower coefficients; the LAST query has to keep failing the same gate."""
    def nq(c):
        return sum(1 for op in c["ops"] if op[0] == "q")

    def fails(cand):
        try:
            return any(k == nq(cand) - 1 and w == what for k, w in graph_failures(ctx, cand))
        except Exception:
            return False

    def without_node(c, i):
        """Drop node i and its edges, renumbering the description."""
        g = c["graph"]
        ekeep = [j for j, e in enumerate(g["edges"]) if e["s"] != i and e["r"] != i]
        nmap = {a: b for b, a in enumerate(a for a in range(len(g["nodes"])) if a != i)}
        emap = {a: b for b, a in enumerate(ekeep)}
        g2 = {**g, "nodes": [n for a, n in enumerate(g["nodes"]) if a != i],
              "edges": [{**g["edges"][j], "s": nmap[g["edges"][j]["s"]], "r": nmap[g["edges"][j]["r"]]} for j in ekeep]}
        fkeep = [j for j, fe in enumerate(g.get("fedges") or []) if ["n", i] not in (list(fe["u"]), list(fe["v"]))]
        fmap = {a: b for b, a in enumerate(fkeep)}
        if g.get("fedges"):
            ren = lambda ref: ["n", nmap[ref[1]]] if ref[0] == "n" else list(ref)
            g2["fedges"] = [{**g["fedges"][j], "u": ren(g["fedges"][j]["u"]), "v": ren(g["fedges"][j]["v"])} for j in fkeep]
        ops = []
        for op in c["ops"]:
            if op[0] == "fe":
                if op[1] in fmap:
                    ops.append(["fe", fmap[op[1]]])
            elif op[0] in ("n", "l"):
                if op[1] != i:
                    ops.append([op[0], nmap[op[1]]] + list(op[2:]))
            elif op[0] in ("e", "c"):
                if op[1] in emap:
                    ops.append([op[0], emap[op[1]]] + list(op[2:]))
            elif op[0] == "perm":
                ops.append(["perm", [nmap[a] for a in op[1] if a != i], [emap[j] for j in op[2] if j in emap], op[3]])
            else:
                ops.append(op)
        return {"graph": g2, "ops": ops}

    def without_edge(c, j0):
        g = c["graph"]
        emap = {a: b for b, a in enumerate(a for a in range(len(g["edges"])) if a != j0)}
        g2 = {**g, "edges": [e for a, e in enumerate(g["edges"]) if a != j0]}
        ops = []
        for op in c["ops"]:
            if op[0] in ("e", "c"):
                if op[1] != j0:
                    ops.append([op[0], emap[op[1]]] + list(op[2:]))
            elif op[0] == "perm":
                ops.append(["perm", op[1], [emap[j] for j in op[2] if j != j0], op[3]])
            else:
                ops.append(op)
        return {"graph": g2, "ops": ops}

    def without_foreign(c):
        g2 = {k: val for k, val in c["graph"].items() if k not in ("fnodes", "fedges")}
        return {"graph": g2, "ops": [op for op in c["ops"] if op[0] not in ("fn", "fe")]}

    cur = json.loads(json.dumps(case))
    budget = 80
    changed = True
    while changed and budget > 0:
        changed = False
        cands = []
        if any(op[0] in ("fn", "fe") for op in cur["ops"]):
            cands.append(without_foreign(cur))
        if len(cur["ops"][-1]) > 1 and (cur["ops"][-1][1] or {}).get("x"):
            if set(cur["ops"][-1][1]) - {"x"}:
                c = json.loads(json.dumps(cur)); c["ops"][-1][1] = {"x": c["ops"][-1][1]["x"]}; cands.append(c)
            c = json.loads(json.dumps(cur)); c["ops"][-1][1].pop("x"); cands.append(c)
            if cur["ops"][-1][1]["x"].get("noscipy") and cur["ops"][-1][1]["x"].get("sum") is not None:
                c = json.loads(json.dumps(cur)); c["ops"][-1][1]["x"]["sum"] = None; cands.append(c)
        for a, op in enumerate(cur["ops"][:-1]):
            if op[0] in ("q", "c", "l", "copy", "perm", "fe"):
                c = json.loads(json.dumps(cur)); del c["ops"][a]; cands.append(c)
        for i, nd in enumerate(cur["graph"]["nodes"]):
            if nd["flags"] == "conflict":
                c = json.loads(json.dumps(cur)); c["graph"]["nodes"][i]["flags"] = "kind"; cands.append(c)
        if len(cur["ops"][-1]) > 1 and cur["ops"][-1][1]:
            c = json.loads(json.dumps(cur)); c["ops"][-1] = ["q", {}]; cands.append(c)
        for i, nd in enumerate(cur["graph"]["nodes"]):
            if nd["part"] == "r":
                cands.append(without_node(cur, i))
        for i, nd in enumerate(cur["graph"]["nodes"]):
            if nd["part"] == "s":
                cands.append(without_node(cur, i))
        for j in range(len(cur["graph"]["edges"])):
            cands.append(without_edge(cur, j))
        for j, e in enumerate(cur["graph"]["edges"]):
            if e.get("stoich") is not None and (e["stoich"] > 1 or e.get("float")):
                c = json.loads(json.dumps(cur))
                c["graph"]["edges"][j]["stoich"] = max(1, e["stoich"] - 1) if e["stoich"] > 1 else 1
                c["graph"]["edges"][j].pop("float", None)
                cands.append(c)
        for c in cands:
            budget -= 1
            if budget <= 0:
                break
            if fails(c):
                cur = c
                changed = True
                break
    extra = {"failing_query": nq(cur) - 1}
    try:
        (states, calls), = evaluate_sessions(ctx, [cur], parallel=False, worker=work_graph)
        extra["construction"] = [x for log in calls for x in log + ["<query every anchored entry point with G>"]]
        extra["described_network"] = states[-1][0]["dump"]
    except Exception as e:  # diagnostics only
        extra["diagnostics_failed"] = repr(e)
    return cur, extra


def run_graphs(ctx, cases, tag):
    state = {"unknown": 0}
    for case, (states, calls) in zip(cases, evaluate_sessions(ctx, cases, worker=work_graph)):
        ctx.count(f"{tag}:graphs")
        for key in graph_profile(case):
            ctx.count(key)
        first_bad = None
        for k, (obs, cert, lean, logic) in enumerate(states):
            pref = graph_prefix(case, k)
            record_G(ctx, case, k, obs, cert, tag, ["graph", pref])
            if first_bad is not None:
                continue
            found = judge_G(obs, cert, lean)
            if not any(not unpack(t)[2] for t in found):
                found = found + judge_logic(obs, logic)
            for what, detail, classes, no_input in map(unpack, found):
                if not classes:
                    first_bad = k
                report(ctx, what, pref, {**detail, "stream": tag, "failing_query": k,
                                         "construction": [x for log in calls[:k + 1] for x in log + ["<query every anchored entry point with G>"]]},
                       classes, no_input, state, lambda c, w: shrink_graph(ctx, c, w))
        if state["unknown"] > 40:
            break


# =============================================================== generators
# =============================================================== graphs given by their construction only ("graph-written")
# No description of a network: the case is the list of add_node / add_edge calls.  The expected answer is the Lean model of the
# graph reading (bip.stoich) applied to the node list of the finished object and to the add_edge CALLS, so the model also has
# to reproduce what NetworkX stores (a later add_edge on the same pair of a non-multi graph updates the stored edge).  Arcs point
# either way, roles / stoich may be missing, nodes may exist only because an edge mentions them.
WRITTEN_CLASSES = ["DiGraph", "MultiDiGraph", "Graph", "MultiGraph"]


def written_graph_case(rnd):
    n_s, n_r, n_f = rnd.randint(1, 3), rnd.randint(1, 2), rnd.choice([0, 0, 1])
    ints = rnd.random() < 0.5
    pool_ids = rnd.sample(range(0, 40), n_s + n_r + n_f) if ints else rnd.sample(["a", "b", "c", "x", "y", "R", "r1", "r10", "r2", "S:1", "n 1", ""], n_s + n_r + n_f)
    labels = rnd.sample(["A", "B", "C", "a", "10", "9"], n_s)
    if rnd.random() < 0.08 and n_s >= 2:
        labels[1] = labels[0]                          # species labels tied: outside the property, inside the model
    nodes = []
    for k in range(n_s + n_r + n_f):
        part = "s" if k < n_s else "r" if k < n_s + n_r else "f"
        a = {}
        if part == "f":
            a = dict(rnd.choice(FOREIGN_ATTRS))
        else:
            fl = rnd.choice(["kind", "bipartite", "both", "conflict"])
            if fl in ("kind", "both", "conflict"):
                a["kind"] = "species" if part == "s" else "reaction"
            if fl in ("bipartite", "both"):
                a["bipartite"] = 0 if part == "s" else 1
            if fl == "conflict":
                a["bipartite"] = 1 if part == "s" else 0
            if part == "s" and rnd.random() < 0.75:
                a["label"] = labels[k]
            if part == "r" and rnd.random() < 0.6:
                a["label"] = rnd.choice(["r", "r1", "r2", "R"])
        nodes.append({"id": pool_ids[k], "part": part, "attrs": a})
    S, R, F = list(range(n_s)), list(range(n_s, n_s + n_r)), list(range(n_s + n_r, n_s + n_r + n_f))
    calls = [["n", k] for k in range(len(nodes)) if rnd.random() < 0.92]
    for _ in range(rnd.randint(1, 7)):
        c = rnd.random()
        if c < 0.78:
            u, v = rnd.choice(S), rnd.choice(R)
        elif c < 0.86 and len(S) >= 2:
            u, v = rnd.sample(S, 2)
        elif c < 0.90 and len(R) >= 2:
            u, v = rnd.sample(R, 2)
        elif c < 0.96 and F:
            u, v = rnd.choice(F), rnd.choice(S + R)
        else:
            u = v = rnd.choice(S + R)
        if rnd.random() < 0.5:
            u, v = v, u
        a = {}
        c = rnd.random()
        if c < 0.9:
            a["role"] = "reactant" if c < 0.45 else "product"
        elif c < 0.95:
            a["role"] = "in"
        c = rnd.random()
        if c >= 0.35:
            a["stoich"] = rnd.choice([1, 1, 2, 3]) if c < 0.95 else rnd.choice([0, -1])
            if rnd.random() < 0.1:
                a["stoich"] = float(a["stoich"])
        calls.append(["e", u, v, a])
    rnd.shuffle(calls)
    return {"written": {"cls": rnd.choice(WRITTEN_CLASSES), "nodes": nodes, "calls": calls}}


def work_written(case):
    """Build the object call by call; observe build_S_minus_plus / build_S.  -> obs (with the bip.stoich request)."""
    import traceback
    import networkx as nx
    import numpy as np
    from synkit.CRN.Props import stoich

    w = case["written"]
    G = getattr(nx, w["cls"])()
    log, arcs = [f"G = nx.{w['cls']}()"], []
    for call in w["calls"]:
        if call[0] == "n":
            nd = w["nodes"][call[1]]
            G.add_node(nd["id"], **nd["attrs"])
            log.append(f"G.add_node({nd['id']!r}, **{nd['attrs']!r})")
        else:
            u, v = w["nodes"][call[1]]["id"], w["nodes"][call[2]]["id"]
            G.add_edge(u, v, **call[3])
            arcs.append((u, v, call[3]))
            log.append(f"G.add_edge({u!r}, {v!r}, **{call[3]!r})")
    obs = {"bip": bip_request(G, arcs=arcs), "construction": log, "dump": None}
    try:
        sp2, rules2, Sm, Sp = stoich.build_S_minus_plus(G)
        sp, rules, S = stoich.build_S(G)
    except ValueError as e:
        obs["error"] = "ValueError"
        obs["error_text"] = str(e)
        return obs
    except Exception as e:
        obs["crash"] = f"{type(e).__name__}: {e}"
        obs["trace"] = traceback.format_exc()[-1500:]
        return obs
    Si, e0 = as_int_matrix(S)
    Smi, e1 = as_int_matrix(Sm)
    Spi, e2 = as_int_matrix(Sp)
    obs.update(species=[str(x) for x in sp], rules=[str(x) for x in rules], S=Si, S_minus=Smi, S_plus=Spi,
               integral=bool(e0 and e1 and e2 and np.asarray(S).shape == (len(sp), len(rules))),
               same_orders=(list(sp) == list(sp2) and list(rules) == list(rules2)))
    return obs


def judge_written(obs):
    if "crash" in obs:
        return [("build_S raised on a NetworkX graph: " + obs["crash"].split(":")[0], {"error": obs["crash"], "trace": obs["trace"]}, ())]
    v = judge_bip(obs)
    if "error" not in obs and not obs["same_orders"]:
        v.append(("build_S and build_S_minus_plus return different label orders for the same graph", {}, ()))
    return v


def written_failures(ctx, case):
    obs = work_written(case)
    attach_bip(ctx, [obs])
    return obs, judge_written(obs)


def shrink_written(ctx, case, what):
    """Greedy: drop construction calls while the same gate keeps failing."""
    def fails(c):
        try:
            return any(t[0] == what for t in written_failures(ctx, c)[1])
        except Exception:
            return False

    cur = json.loads(json.dumps(case))
    budget, changed = 60, True
    while changed and budget > 0:
        changed = False
        for a in range(len(cur["written"]["calls"])):
            c = json.loads(json.dumps(cur))
            del c["written"]["calls"][a]
            budget -= 1
            if budget <= 0:
                break
            if fails(c):
                cur, changed = c, True
                break
    obs, _ = written_failures(ctx, cur)
    return cur, {"construction": obs.get("construction")}


def run_written(ctx, cases, tag):
    state = {"unknown": 0}
    rows = [work_written(c) for c in cases]
    attach_bip(ctx, rows)
    for case, obs in zip(cases, rows):
        w = case["written"]
        ctx.count(f"{tag}:graphs")
        ctx.count(f"{tag}:class:{w['cls']}")
        lean = obs.get("bip_lean")
        if lean is None:
            ctx.count(f"{tag}:skipped:" + str((obs.get("bip") or {}).get("skip")))
            ctx.case(["written", case], False)
            continue
        ctx.count(f"{tag}:" + ("ValueError" if "error" in lean else "matrix"))
        ctx.count(f"{tag}:hypotheses_of_graphS_eq_buildS:" + ("hold" if lean.get("wf") else "reaction_labels_tied" if lean.get("wfCore") else "fail"))
        nstored, ncalls = len(lean.get("stored") or []), sum(1 for c in w["calls"] if c[0] == "e")
        if nstored < ncalls:
            ctx.count(f"{tag}:an_add_edge_call_overwrote_a_stored_edge")
        if any(c[0] == "e" and w["nodes"][c[1]]["part"] == "r" and w["nodes"][c[2]]["part"] == "s" and c[3].get("role") == "reactant" or
               c[0] == "e" and w["nodes"][c[1]]["part"] == "s" and w["nodes"][c[2]]["part"] == "r" and c[3].get("role") == "product"
               for c in w["calls"]):
            ctx.count(f"{tag}:some_arc_written_against_its_role")
        nontrivial = "error" not in lean and any(x for row in lean["S_minus"] + lean["S_plus"] for x in row)
        ctx.case(["written", case], nontrivial, sample={"stream": tag, **case} if len(w["calls"]) <= 5 else None)
        for what, detail, classes, no_input in map(unpack, judge_written(obs)):
            report(ctx, what, case, {**detail, "stream": tag, "construction": obs.get("construction")}, classes, no_input, state,
                   lambda c, wh: shrink_written(ctx, c, wh))
        if state["unknown"] > 40:
            break


def rx(r, p, rule=None, eid=None):
    return {"r": [[s, c] for s, c in r if c > 0], "p": [[s, c] for s, c in p if c > 0], "rule": rule, "eid": eid}


def exhaustive_reactions():
    out = []
    for coeffs in itertools.product(range(3), repeat=6):
        if any(coeffs):
            out.append(coeffs)
    return out


def code_to_rx(c):
    return rx(list(zip("ABC", c[:3])), list(zip("ABC", c[3:])))


SPECIES_POOLS = [list("ABCDEFG"), ["S1", "S10", "S2", "a", "Z", "ab", "B"], ["X", "Y", "Z", "W", "V", "U", "T"]]
RULES = [None, None, "r", "a", "b", "R1", "z", ""]
IDS = ["z9", "a0", "r_1", "r_2", "b_7", "R1_1", "m", "k1", "r_10"]


def random_net(rnd):
    pool_ = rnd.choice(SPECIES_POOLS)
    ns = rnd.randint(1, 7)
    sp = rnd.sample(pool_, ns)
    nr = rnd.randint(1, 6)
    mode = rnd.random()
    rxns = []

    def side(kmax):
        k = rnd.randint(0, min(kmax, ns))
        return [[s, rnd.choice([1, 1, 1, 2, 2, 3])] for s in rnd.sample(sp, k)]

    while len(rxns) < nr:
        c = rnd.random()
        if rxns and c < (0.45 if mode < 0.5 else 0.1):
            b = rnd.choice(rxns)              # reverse of an existing reaction
            r, p = [list(x) for x in b["p"]], [list(x) for x in b["r"]]
        elif rxns and c < 0.55:
            b = rnd.choice(rxns)              # repeated reaction
            r, p = [list(x) for x in b["r"]], [list(x) for x in b["p"]]
        elif c < 0.65 and ns >= 2:
            a, b2 = rnd.sample(sp, 2)         # catalysed step
            cat = rnd.choice(sp)
            r, p = [[a, 1], [cat, 1]] if cat != a else [[a, 2]], [[b2, 1], [cat, 1]] if cat != b2 else [[b2, 2]]
        elif c < 0.75:
            r, p = ([], side(2)) if rnd.random() < 0.5 else (side(2), [])   # source / sink
        else:
            r, p = side(3), side(3)
        if not r and not p:
            continue
        ids = {x["eid"] for x in rxns}
        eid = rnd.choice([i for i in IDS if i not in ids]) if rnd.random() < 0.25 else None
        rxns.append({"r": r, "p": p, "rule": rnd.choice(RULES), "eid": eid})
    net = {"rxns": rxns}
    if rnd.random() < 0.1:
        extra = [s for s in pool_ if s not in sp]
        if extra:
            net["isolated"] = [rnd.choice(extra)]
    return net


def textbook(rnd):
    out = []
    names = list("ABCDEFG")
    for L in range(2, 8):
        ch = names[:L]
        fw = [rx([(ch[i], 1)], [(ch[i + 1], 1)]) for i in range(L - 1)]
        bw = [rx([(ch[i + 1], 1)], [(ch[i], 1)]) for i in range(L - 1)]
        out.append({"rxns": fw})                                              # irreversible chain
        if 2 * (L - 1) <= 6:
            out.append({"rxns": fw + bw})                                     # reversible chain
        if L <= 6 and L >= 3:
            out.append({"rxns": fw + [rx([(ch[-1], 1)], [(ch[0], 1)])]})      # cycle
        if L <= 5:
            out.append({"rxns": [rx([], [(ch[0], 1)])] + fw + [rx([(ch[-1], 1)], [])]})   # open system
        if L <= 4:
            out.append({"rxns": [rx([], [(ch[0], 1)])] + fw})                 # source only
            out.append({"rxns": fw + [rx([(ch[-1], 1)], [])]})                # sink only
    out.append({"rxns": [rx([("C", 1), ("B", 1)], [("F", 1), ("A", 1)])]})                                       # F2 example
    out.append({"rxns": [rx([("A", 2), ("B", 1)], [("C", 1)]), rx([("C", 1), ("D", 1)], [("E", 1)]),
                         rx([("E", 1), ("F", 1)], [("D", 1), ("G", 1)])]})                                       # pinned test network
    out.append({"rxns": [rx([("E", 1), ("S", 1)], [("ES", 1)]), rx([("ES", 1)], [("E", 1), ("S", 1)]),
                         rx([("ES", 1)], [("E", 1), ("P", 1)])]})                                                 # Michaelis-Menten
    out.append({"rxns": [rx([("E", 1), ("S", 1)], [("ES", 1)]), rx([("ES", 1)], [("E", 1), ("S", 1)]),
                         rx([("ES", 1)], [("E", 1), ("P", 1)]), rx([("P", 1)], [("S", 1)])]})                     # closed MM
    out.append({"rxns": [rx([], [("X", 1)]), rx([("X", 2), ("Y", 1)], [("X", 3)]), rx([("X", 1)], [("Y", 1)]),
                         rx([("X", 1)], [])]})                                                                     # Brusselator
    out.append({"rxns": [rx([("A", 2)], [("B", 1)]), rx([("B", 1)], [("A", 2)])]})
    out.append({"rxns": [rx([("A", 1), ("B", 1)], [("C", 2)]), rx([("C", 2)], [("A", 1), ("B", 1)]),
                         rx([("C", 1)], [("D", 1)]), rx([("D", 1)], [("C", 1)])]})
    out.append({"rxns": [rx([("X", 1)], [("X", 2)]), rx([("X", 1), ("Y", 1)], [("Y", 2)]), rx([("Y", 1)], [])]})  # Lotka-Volterra
    out.append({"rxns": [rx([("A", 1)], [("B", 1)], "b", "z9"), rx([("B", 1)], [("C", 1)], "a", "k1"),
                         rx([("C", 1)], [("A", 1)], "a", "a0")]})                                                  # ids / rules reorder columns
    # random variants: scaled / relabelled copies of the families
    for net in list(out):
        if rnd.random() < 0.5:
            k = rnd.choice([2, 3])
            out.append({"rxns": [{**r0, "r": [[s, c * k] for s, c in r0["r"]], "p": [[s, c * k] for s, c in r0["p"]]}
                                 if rnd.random() < 0.5 else r0 for r0 in net["rxns"]]})
    return out


# ---------------------------------------------------------------- new populations
def query_plan(rnd, rich=True):
    """Per-state choice of how the entry points are queried: order, repeated (warm-up) queries, NetworkX view
    variants, non-default tolerances."""
    st = {}
    if rnd.random() < 0.6:
        order = list(BLOCKS)
        rnd.shuffle(order)
        st["order"] = order
    if rnd.random() < 0.4:
        st["warm"] = [rnd.choice(BLOCKS) for _ in range(rnd.randint(1, 4))]
    if rich and rnd.random() < 0.5:
        st["views"] = sorted(rnd.sample(range(len(VIEW_VARIANTS)), rnd.randint(1, 3)))
    if rich and rnd.random() < 0.3:
        st["opts"] = {"tol": rnd.choice([1e-12, 1e-10, 1e-9, 1e-8]), "rtol": rnd.choice([1e-13, 1e-12, 1e-11, 1e-10]),
                      "eps": rnd.choice([1e-8, 2e-8, 1e-7]), "ceps": rnd.choice([1e-8, 1e-6, 1e-3, 0.5])}
    return st


def index_side(rnd, kmax=2):
    return [[rnd.randint(0, 9), rnd.choice([1, 1, 2, 3])] for _ in range(rnd.randint(0, kmax))]


def random_edit(rnd):
    c = rnd.random()
    if c < 0.20:
        return {"op": "strip", "i": rnd.randint(0, 9), "prune": rnd.random() < 0.3}
    if c < 0.42:
        how = rnd.choice(["reverse", "scale", "scale", "rand"])
        ed = {"op": "replace", "e": rnd.randint(0, 9), "how": how, "k": rnd.randint(0, 9),
              "rule": rnd.choice([None, None, None, "r", "a", "z"])}
        if how == "rand":
            ed["r"], ed["p"] = index_side(rnd), index_side(rnd)
        return ed
    if c < 0.64:
        return {"op": "coef", "e": rnd.randint(0, 9), "side": rnd.choice("rp"), "i": rnd.randint(0, 9),
                "how": rnd.choice(["set", "set", "incr"]), "c": rnd.choice([1, 2, 2, 3])}
    if c < 0.70:
        return {"op": "remove", "e": rnd.randint(0, 9)}
    if c < 0.78:
        return {"op": "add", "r": index_side(rnd), "p": index_side(rnd), "new": rnd.choice([[], [], ["N"], ["A0", "zz"]]),
                "rule": rnd.choice([None, None, "a", "z"])}
    if c < 0.82:
        return {"op": "rule", "e": rnd.randint(0, 9), "rule": rnd.choice(["a", "z", "R1", "r"])}
    if c < 0.87:
        return {"op": "copy"}
    if c < 0.90:
        return {"op": "switch", "k": rnd.randint(0, 3)}
    if c < 0.93:
        return {"op": "merge", "net": tiny_net(rnd), "pfx": rnd.random() < 0.5}
    if c < 0.97:
        return {"op": "fresh", "net": tiny_net(rnd) if rnd.random() < 0.5 else random_net(rnd)}
    return {"op": "noop"}


def tiny_net(rnd):
    """<= 2 reactions over A, B, C with coefficients in {0,1,2} (the exhaustive family)."""
    out = []
    while len(out) < rnd.randint(1, 2):
        c = tuple(rnd.randint(0, 2) for _ in range(6))
        if any(c):
            out.append(code_to_rx(c))
    return {"rxns": out}


def random_session(rnd):
    base = tiny_net(rnd) if rnd.random() < 0.45 else random_net(rnd)
    if rnd.random() < 0.3:            # explicit ids: an edit that re-uses an id is then the common case
        for i, r0 in enumerate(base["rxns"]):
            if r0.get("eid") is None:
                r0["eid"] = f"e{i + 1}"
    case = {"net": base, "first": query_plan(rnd, rich=False), "steps": [], "reuse_view": rnd.random() < 0.5}
    for _ in range(rnd.choice([1, 1, 2, 2, 3, 4])):
        case["steps"].append({"edit": random_edit(rnd), **query_plan(rnd, rich=rnd.random() < 0.3)})
    return case


def label_pool(rnd, n):
    """n distinct species labels of one of several shapes (string order != numeric order, digits only, mixed case,
    blanks, non-ASCII, labels that look like node ids / edge ids of the exported views)."""
    kind = rnd.choice(["X", "X", "pad", "digits", "mixed", "odd"])
    if kind == "X":
        return [f"X{i}" for i in range(1, n + 1)]
    if kind == "pad":
        return [f"s{i:03d}" for i in range(n)]
    if kind == "digits":
        return [str(i) for i in rnd.sample(range(1, 3 * n + 10), n)]
    if kind == "mixed":
        base = [a + b for a in "ABab" for b in ["", "1", "2", "10", "_x", "'"]]
        out = rnd.sample(base, min(n, len(base)))
        return out + [f"m{i}" for i in range(n - len(out))]
    odd = ["r_1", "r_2", "r", "H2O", "O 2", "\u03b1", "\u00e9t", "S:A", "A", "R:r_1", "1", "10", "2", "Z9", "a b", "C+", "e1", "x.y"]
    out = rnd.sample(odd, min(n, len(odd)))
    return out + [f"o{i}" for i in range(n - len(out))]


def sized_net(rnd, ns, nr):
    """A network with exactly ns species (all used or isolated) and nr reactions, tiny coefficients, built from
    textbook pieces (chain / reversible chain / cycle / open ends) plus random sparse reactions."""
    sp = label_pool(rnd, ns)
    rnd.shuffle(sp)
    kind = rnd.choice(["chain", "rev", "cycle", "open", "sparse", "sparse"])
    cf = lambda: rnd.choice([1, 1, 1, 1, 2, 3])
    rxns = []
    steps = [(sp[i], sp[i + 1]) for i in range(ns - 1)]
    if kind == "cycle" and ns >= 3:
        steps.append((sp[-1], sp[0]))
    if kind == "open":
        rxns.append(rx([], [(sp[0], 1)]))
        rxns.append(rx([(sp[-1], 1)], []))
    plain = rnd.random() < 0.6
    for a, b in steps:
        if len(rxns) >= nr:
            break
        if kind == "sparse":
            break
        rxns.append(rx([(a, 1 if plain else cf())], [(b, 1 if plain else cf())]))
        if kind == "rev" and len(rxns) < nr:
            rxns.append(rx([(b, 1)], [(a, 1)]))
    while len(rxns) < nr:
        c = rnd.random()
        if rxns and c < 0.2:
            b0 = rnd.choice(rxns)
            rxns.append(rx([tuple(x) for x in b0["p"]], [tuple(x) for x in b0["r"]]))
        elif rxns and c < 0.25:
            b0 = rnd.choice(rxns)
            rxns.append(rx([tuple(x) for x in b0["r"]], [tuple(x) for x in b0["p"]]))
        else:
            k1, k2 = rnd.choice([(1, 1), (1, 1), (2, 1), (1, 2), (2, 2), (0, 1), (1, 0)])
            k1, k2 = min(k1, ns), min(k2, ns)
            r0, p0 = [(s, cf()) for s in rnd.sample(sp, k1)], [(s, cf()) for s in rnd.sample(sp, k2)]
            if r0 or p0:
                rxns.append(rx(r0, p0))
    rxns = rxns[:nr]
    rnd.shuffle(rxns)
    mode = rnd.random()
    numeric_ids = [str(x) for x in rnd.sample(range(1, 4 * nr + 8), nr)]
    for i, r0 in enumerate(rxns):
        if mode < 0.55:
            pass                                   # default rule 'r', generated ids r_1 .. r_n (r_10 < r_2 as strings)
        elif mode < 0.75:
            r0["rule"] = rnd.choice(["r", "r", "a", "z", "R1"])
        elif mode < 0.9:
            r0["eid"] = numeric_ids[i]             # '12' < '3' as strings
        else:
            r0["rule"] = rnd.choice([None, "b"])
            r0["form"] = rnd.choice(["list", "pairs", "side", "str", "dict"])
    used = {s for r0 in rxns for s, _ in r0["r"] + r0["p"]}
    return {"rxns": rxns, "isolated": [s for s in sp if s not in used]}


def sized_population(rnd, quick):
    """(ns, nr) chosen so that the integer-id view (species 1..ns, reactions ns+1..ns+nr) has its reaction ids
    straddle 10 or 100, sits just below / above these, or is far inside a decade."""
    k = 1 if quick else 8
    shapes = []
    for _ in range(110 * k):          # reaction ids straddle 10
        ns = rnd.randint(1, 8)
        shapes.append((ns, rnd.randint(max(2, 10 - ns), max(2, 10 - ns) + 5)))
    for _ in range(40 * k):           # 10 .. 99 nodes
        ns = rnd.randint(3, 30)
        shapes.append((ns, rnd.randint(max(1, 10 - ns), 28)))
    for _ in range(10 * k):           # >= 10 reactions with generated ids: r_10 sorts before r_2
        shapes.append((rnd.randint(3, 9), rnd.randint(10, 14)))
    for _ in range(6 * k):            # reaction ids straddle 100
        ns = rnd.randint(60, 98)
        shapes.append((ns, rnd.randint(100 - ns + 1, 100 - ns + 12)))
    for _ in range(2 * k):            # >= 100 species
        shapes.append((rnd.randint(100, 112), rnd.randint(3, 12)))
    for _ in range(2 * k):            # just below 100
        ns = rnd.randint(60, 90)
        shapes.append((ns, 99 - ns))
    nets = []
    for ns, nr in shapes:
        net = sized_net(rnd, ns, nr)
        if rnd.random() < 0.25:
            net.update({key: val for key, val in query_plan(rnd).items() if key in ("views", "opts")})
        nets.append(net)
    return nets


def rare_net(rnd):
    """Small networks of unusual but legal shape, queried in unusual ways."""
    ns = rnd.randint(1, 7)
    sp = label_pool(rnd, ns)
    nr = rnd.randint(1, 7)
    rxns = []
    cf = lambda: rnd.choice([1, 1, 2, 3])
    while len(rxns) < nr:
        c = rnd.random()
        if c < 0.15:                                   # catalyst / species on both sides with equal or unequal counts
            s, t = rnd.choice(sp), rnd.choice(sp)
            r0 = rx([(s, cf())] + ([(t, 1)] if t != s else []), [(s, cf())])
        elif c < 0.25 and rxns:                        # exact duplicate, possibly under another rule
            b0 = rnd.choice(rxns)
            r0 = rx([tuple(x) for x in b0["r"]], [tuple(x) for x in b0["p"]])
        elif c < 0.35 and rxns:
            b0 = rnd.choice(rxns)
            r0 = rx([tuple(x) for x in b0["p"]], [tuple(x) for x in b0["r"]])
        elif c < 0.45:
            r0 = rx([], [(rnd.choice(sp), cf())]) if rnd.random() < 0.5 else rx([(rnd.choice(sp), cf())], [])
        else:
            r0 = rx([(s, cf()) for s in rnd.sample(sp, rnd.randint(0, min(3, ns)))], [(s, cf()) for s in rnd.sample(sp, rnd.randint(0, min(3, ns)))])
        if not r0["r"] and not r0["p"]:
            continue
        r0["rule"] = rnd.choice([None, None, "r", "", "10", "9", "2", "A", "r_1", "\u03b2", "R 1", "b"])
        ids = {x["eid"] for x in rxns}
        r0["eid"] = rnd.choice([None, None, None] + [i for i in ["10", "9", "2", "r_10", "r_2", "r_1", "A", "S:A", "R:r_1", "", "0"] if i not in ids])
        r0["form"] = rnd.choice(["dict", "list", "pairs", "side", "str"])
        rxns.append(r0)
    net = {"rxns": rxns}
    if rnd.random() < 0.3:
        net["isolated"] = rnd.sample(["iso", "0", "A", "zz"], rnd.randint(1, 2))
    net.update(query_plan(rnd))
    return net


# ---------------------------------------------------------------- scale / representation populations
SCALE_BIG = [10, 12, 16, 20, 25, 32, 50, 64, 99, 100, 128, 250]      # coefficients outside the small alphabet {1, 2, 3}
SCALE_RANGE = 2 * 10 ** 5    # by construction: largest / smallest "mass" of a cascade (dynamic range of its conservation law)
SCALE_GUARD = 10 ** 6        # exact guard: largest entry of the primitive integer kernel vectors (both kernels)
SCALE_TERM = 10 ** 7         # exact guard: largest single term coefficient * flux in a row of S v = 0 (see scale_profile)
SCALE_COMPOSITE = 300        # largest coefficient of a composite reaction a X + b Y >> c Z
SCALE_FORMS = ["dict", "dict", "pairs", "side", "str", "gen", "iter", "map", "float", "npint", "npfloat", "mixednum", "list"]


def _primitive_max(v):
    """Largest |entry| of the primitive integer multiple of the Fraction vector v."""
    den = 1
    for x in v:
        den = den * x.denominator // math.gcd(den, x.denominator)
    ints = [int(x * den) for x in v]
    g = 0
    for t in ints:
        g = math.gcd(g, abs(t))
    return max(abs(t) for t in ints) // g if g else 0


def scale_profile(net):
    """Exact (Fraction) profile of a generated network: dimensions of both kernels of produced-minus-consumed and the largest
    entry over the primitive integer versions of their RREF basis vectors (for a one-dimensional kernel spanned by a positive
    law: the ratio largest / smallest entry of that law)."""
    sp = sorted({s for r0 in net["rxns"] for s, _ in r0["r"] + r0["p"]} | set(net.get("isolated", [])))
    idx = {s: i for i, s in enumerate(sp)}
    m, n = len(sp), len(net["rxns"])
    S = [[Fr(0)] * n for _ in range(m)]
    for j, r0 in enumerate(net["rxns"]):
        for s, c in r0["r"]:
            S[idx[s]][j] -= c
        for s, c in r0["p"]:
            S[idx[s]][j] += c
    ST = [[S[i][j] for i in range(m)] for j in range(n)]
    lk, rk = kernel_certificate(ST, n, m)["B"], kernel_certificate(S, m, n)["B"]
    big = max([_primitive_max(v) for v in lk + rk] + [1])
    coef = max([c for r0 in net["rxns"] for _, c in r0["r"] + r0["p"]] + [1])
    # largest term |S_ij| * v_j of a row of S v = 0 for an exact positive flux v (min v = 1) and for the primitive right-kernel basis:
    # double precision resolves such a row to about 1e-16 * term, the LP solver wants it below 1e-7
    term = 0
    if m and n:
        z = feasible([list(r) for r in S], [-sum(r) for r in S])        # 1 + z is a strictly positive flux (as in positive_kernel_or_alternative)
        vs = ([[1 + t for t in z]] if z is not None else []) + [[abs(x) * _primitive_max(b) / max(abs(y) for y in b) for x in b] for b in rk]
        term = max([abs(S[i][j]) * w[j] for w in vs for i in range(m) for j in range(n)] + [0])
    return {"lk": len(lk), "rk": len(rk), "big": big, "coef": coef, "m": m, "n": n, "term": term}


def _decade(x):
    return "<1e%d" % next(k for k in range(1, 40) if x < 10 ** k)


def scale_cascade(rnd, cap=SCALE_RANGE, nmax=13):
    """A network that conserves a 'mass' vector of large dynamic range: a tree (mostly a path) of conversions
    a X_parent <-> b X_child with a * mass(parent) = b * mass(child).  Long cascades of small factors (8-13 species, i.e. just
    beyond the 7-species / 6-reaction population: X0 >> 3 X1 >> ... ; binary fission; fusion 2 X >> Y), short cascades of
    multi-digit factors (50 A >> B, 50 B >> C), mixtures; masses rising, falling or wandering along the tree.  Decorations decide
    what the right answers are: nothing (conservative, one-dimensional left kernel, not consistent), reverse reactions, a
    mass-balanced closing reaction (cycle: one-dimensional right kernel of the same dynamic range) or an UNBALANCED one, source +
    sinks (open: not conservative, fluxes of large ratio), a duplicated reaction with one coefficient changed (kills the law),
    an isolated species, mass-balanced composite reactions a X + b Y >> c Z."""
    profile = rnd.choice(["small-long", "small-long", "big-short", "big-short", "mixed"])
    n = rnd.randint(8, nmax) if profile == "small-long" else rnd.randint(3, 5) if profile == "big-short" else rnd.randint(4, 9)
    shape = rnd.choice(["path", "path", "path", "tree", "star"])
    parent = [None] + [(i - 1) if shape == "path" else 0 if shape == "star" else rnd.randrange(i) for i in range(1, n)]
    trend = rnd.choice(["split", "split", "fuse", "wander"])        # mass falls / rises / wanders from parent to child
    flow = rnd.choice(["down", "down", "up", "random"])            # which way the reactions are written
    sp = label_pool(rnd, n)
    if rnd.random() < 0.5:
        rnd.shuffle(sp)
    mass = [Fr(1)]
    rxns = []
    for i in range(1, n):
        c = rnd.choice([2, 2, 3, 3, 4, 5]) if profile == "small-long" or (profile == "mixed" and rnd.random() < 0.6) else rnd.choice(SCALE_BIG)
        d = 1 if rnd.random() < 0.8 else rnd.choice([2, 3])
        if math.gcd(c, d) != 1:
            d = 1
        t = trend if trend != "wander" else rnd.choice(["split", "fuse"])
        a, b = (d, c) if t == "split" else (c, d)                   # a X_parent ~ b X_child, mass(child) = mass(parent) * a / b
        mc = mass[parent[i]] * a / b
        if max(mass + [mc]) / min(mass + [mc]) > cap:
            a, b, mc = 1, 1, mass[parent[i]]
        mass.append(mc)
        down = flow == "down" or (flow == "random" and rnd.random() < 0.5)
        rxns.append(rx([(sp[parent[i]], a)], [(sp[i], b)]) if down else rx([(sp[i], b)], [(sp[parent[i]], a)]))

    def balanced(r_side, z, top=cap):
        """r_side = [(index, coefficient)..] >> c Z, scaled to integers; None when a coefficient gets larger than `top`."""
        tot = sum(mass[i] * c for i, c in r_side) / mass[z]
        qd = tot.denominator
        out_r, cz = [(sp[i], c * qd) for i, c in r_side], tot.numerator
        return (out_r, [(sp[z], cz)]) if max([c for _, c in out_r] + [cz]) <= top else None

    leaves = [i for i in range(n) if i not in parent]
    decos = [rnd.choice(["closed", "closed", "closed", "reversible", "cycle", "cycle", "cycle-off", "open", "open", "spoiler",
                         "isolated", "composite", "composite"])]
    if rnd.random() < 0.15:
        decos.append(rnd.choice(["reversible", "isolated", "composite", "spoiler"]))
    net = {}
    for deco in decos:
        if deco == "reversible":
            for r0 in list(rxns):
                if rnd.random() < 0.8:
                    rxns.append(rx([tuple(x) for x in r0["p"]], [tuple(x) for x in r0["r"]]))
        elif deco in ("cycle", "cycle-off"):
            last = n - 1 if shape == "path" else rnd.choice(leaves)
            bal = balanced([(last, 1)], 0)
            if bal is not None:
                r_side, p_side = bal
                if deco == "cycle-off":
                    # clearly unbalanced: K + 1 next to K is, for large K, a matrix at relative distance 1/K from a singular one
                    # (the float rank / null space of THAT is not the subject of this stream)
                    k0 = r_side[0][1]
                    r_side = [(r_side[0][0], k0 + 1 if k0 < 50 else max(1, k0 // rnd.choice([2, 3, 10])))]
                rxns.append(rx(r_side, p_side) if flow != "up" else rx(p_side, r_side))
        elif deco == "open":
            src, snk = ([0], leaves) if flow != "up" else (leaves, [0])
            for i in src:
                rxns.append(rx([], [(sp[i], rnd.choice([1, 1, 2]))]))
            for i in snk:
                rxns.append(rx([(sp[i], rnd.choice([1, 1, 3]))], []))
        elif deco == "spoiler":
            r0 = json.loads(json.dumps(rnd.choice(rxns)))
            side = r0["p"] if r0["p"] else r0["r"]
            side[0][1] += 1
            rxns.insert(rnd.randint(0, len(rxns)), r0)
        elif deco == "isolated":
            net["isolated"] = [rnd.choice(["iso", "0", "zz9"])]
        elif deco == "composite" and n >= 3:
            for _ in range(rnd.randint(1, 2)):
                x, y, z = rnd.sample(range(n), 3)
                bal = balanced([(x, rnd.choice([1, 1, 2, 3])), (y, rnd.choice([1, 1, 2]))], z, top=SCALE_COMPOSITE)
                if bal is not None:
                    rxns.append(rx(*bal) if rnd.random() < 0.5 else rx(bal[1], bal[0]))
    if rnd.random() < 0.5:
        rnd.shuffle(rxns)
    net["rxns"] = rxns
    if net.get("isolated") and net["isolated"][0] in sp:
        del net["isolated"]
    return net


def scale_random(rnd):
    """<= 5 species, <= 4 reactions, coefficients drawn from the small alphabet AND multi-digit values up to 128; reversed,
    repeated and k-fold scaled copies of a reaction (10 A >> 10 B next to A >> B), sources / sinks."""
    ns = rnd.randint(2, 5)
    sp = rnd.sample(rnd.choice(SPECIES_POOLS), ns)
    nr = rnd.randint(1, 4)
    cf = lambda: rnd.choice([1, 1, 1, 2, 3, 5, 7, 10, 12, 17, 25, 50, 64, 99, 100, 128])
    side = lambda kmax: [(s, cf()) for s in rnd.sample(sp, rnd.randint(0, min(kmax, ns)))]
    rxns = []
    while len(rxns) < nr:
        c = rnd.random()
        if rxns and c < 0.2:
            b0 = rnd.choice(rxns)
            r0 = rx([tuple(x) for x in b0["p"]], [tuple(x) for x in b0["r"]])
        elif rxns and c < 0.3:
            b0, k = rnd.choice(rxns), rnd.choice([1, 2, 10, 25])
            if max(x[1] for x in b0["r"] + b0["p"]) * k > 5000:
                continue
            r0 = rx([(s, x * k) for s, x in b0["r"]], [(s, x * k) for s, x in b0["p"]])
        elif c < 0.4:
            r0 = rx([], side(2)) if rnd.random() < 0.5 else rx(side(2), [])
        else:
            r0 = rx(side(2), side(2))
        if r0["r"] or r0["p"]:
            rxns.append(r0)
    return {"rxns": rxns}


def beyond_net(rnd):
    """One step beyond each bound of the enumerated / random populations: one more species, one more reaction or one more
    coefficient value than the exhaustive family (3 species, <= 2 reactions, coefficients {0,1,2}); 8-9 species and / or 7-8
    reactions and / or coefficients up to 5 for the random family (<= 7 species, <= 6 reactions, coefficients <= 3)."""
    kind = rnd.choice(["exh+species", "exh+reaction", "exh+coeff", "rand+size", "rand+size", "rand+coeff", "rand+both"])
    if kind.startswith("exh"):
        names = "ABCD" if kind == "exh+species" else "ABC"
        nr = 3 if kind == "exh+reaction" else rnd.randint(1, 2)
        top = 3 if kind == "exh+coeff" else 2
        rxns = []
        while len(rxns) < nr:
            c = [rnd.randint(0, top) for _ in range(2 * len(names))]
            if any(c):
                rxns.append(rx(list(zip(names, c[:len(names)])), list(zip(names, c[len(names):]))))
        return {"rxns": rxns}
    big_size, big_coef = kind in ("rand+size", "rand+both"), kind in ("rand+coeff", "rand+both")
    ns = rnd.randint(8, 9) if big_size else rnd.randint(2, 7)
    nr = rnd.randint(7, 8) if big_size else rnd.randint(1, 6)
    sp = label_pool(rnd, ns)
    cf = (lambda: rnd.choice([1, 1, 2, 3, 4, 4, 5])) if big_coef else (lambda: rnd.choice([1, 1, 1, 2, 2, 3]))
    side = lambda kmax: [(s, cf()) for s in rnd.sample(sp, rnd.randint(0, min(kmax, ns)))]
    rxns = []
    chain = rnd.random() < 0.4          # a backbone through all species keeps the left kernel small
    if chain:
        order = list(sp)
        rnd.shuffle(order)
        for a, b in zip(order, order[1:]):
            if len(rxns) < nr:
                rxns.append(rx([(a, cf())], [(b, cf())]))
    while len(rxns) < nr:
        c = rnd.random()
        if rxns and c < 0.3:
            b0 = rnd.choice(rxns)
            r0 = rx([tuple(x) for x in b0["p"]], [tuple(x) for x in b0["r"]])
        elif c < 0.4:
            r0 = rx([], side(2)) if rnd.random() < 0.5 else rx(side(2), [])
        else:
            r0 = rx(side(3), side(3))
        if r0["r"] or r0["p"]:
            rxns.append(r0)
    used = {s for r0 in rxns for s, _ in r0["r"] + r0["p"]}
    return {"rxns": rxns, "isolated": [s for s in sp if s not in used][:1]}


def scale_base(rnd, cap=SCALE_RANGE):
    """One guarded network of the scale families + its exact profile."""
    while True:
        c = rnd.random()
        net = scale_cascade(rnd, cap=cap) if c < 0.55 else scale_random(rnd) if c < 0.75 else beyond_net(rnd)
        if not net["rxns"]:
            continue
        prof = scale_profile(net)
        if prof["big"] <= SCALE_GUARD and prof["term"] <= SCALE_TERM:
            return net, prof


def scale_net(rnd):
    """A scale network with its presentation: rules / explicit ids, input form per reaction (incl. one-shot iterables and
    coefficients given as float / NumPy scalars, mixed within one reaction), query order / warm-up / NetworkX views, and for half
    of the cases the simulated environment without SciPy + the from_crn switches."""
    net, prof = scale_base(rnd)
    mode = rnd.random()
    for i, r0 in enumerate(net["rxns"]):
        if mode < 0.45:
            pass
        elif mode < 0.6:
            r0["rule"] = rnd.choice(["r", "a", "z", "R1", ""])
        elif mode < 0.7:
            r0["eid"] = str(10 + 7 * i) if i % 2 else f"e{i}"
        else:
            r0["form"] = rnd.choice(SCALE_FORMS)
            if r0["form"] == "list" and max(c for _, c in r0["r"] + r0["p"]) > 300:
                r0["form"] = "gen"
    plan = query_plan(rnd, rich=False)
    if rnd.random() < 0.3:
        plan["views"] = sorted(rnd.sample(range(len(VIEW_VARIANTS)), rnd.randint(1, 2)))
    if prof["big"] <= 1000 and prof["coef"] <= 5 and rnd.random() < 0.3:     # non-default tolerances only at small dynamic range
        plan["opts"] = {"tol": rnd.choice([1e-12, 1e-10, 1e-9]), "rtol": rnd.choice([1e-13, 1e-12, 1e-11]),
                        "eps": rnd.choice([1e-8, 2e-8]), "ceps": rnd.choice([1e-8, 1e-6, 1e-3, 0.5])}
    net.update(plan)
    if rnd.random() < 0.5:
        net["x"] = x_plan(rnd, 0.6)
    net["scale"] = {"big": _decade(prof["big"]), "coef": _decade(prof["coef"]), "lk": min(prof["lk"], 2), "rk": min(prof["rk"], 2)}
    return net


def scale_session(rnd):
    """Hidden state x scale: a cascade of moderate dynamic range is analysed, then edited in place on the SAME object (one edit
    puts a multi-digit coefficient in, the others are the usual small edits) and analysed again after every edit."""
    while True:
        base = scale_cascade(rnd, cap=1000, nmax=10)
        prof = scale_profile(base) if base["rxns"] else None
        if prof and prof["big"] <= 5000 and prof["term"] <= 10 ** 5:
            break
    case = {"net": base, "first": query_plan(rnd, rich=False), "steps": [], "reuse_view": rnd.random() < 0.5}
    k = rnd.choice([1, 2, 2, 3])
    bigstep = rnd.randrange(k)
    for i in range(k):
        if i == bigstep:
            ed = {"op": "coef", "e": rnd.randint(0, 12), "side": rnd.choice("rp"), "i": rnd.randint(0, 3), "how": "set",
                  "c": rnd.choice([10, 12, 25, 50])}
        else:
            ed = random_edit(rnd)
            if ed["op"] in ("merge", "fresh"):
                ed = {"op": "copy"} if rnd.random() < 0.5 else {"op": "noop"}
        case["steps"].append({"edit": ed, **query_plan(rnd, rich=False)})
    return case


EXTRA_EDGE_ATTRS = [{"weight": 7}, {"weight": 0.5, "capacity": 3}, {"label": "x"}, {"id": 0}, {"name": ""}, {"coeff": 9, "stoichiometry": 4},
                    {"weight": 0, "order": 2.0}, {"count": 5, "n": 2}]
EXTRA_NODE_ATTRS = [{"name": "n"}, {"id": 0}, {"weight": 3}, {"name": "", "index": 99}, {"species": "Q"}, {"order": 1}]


def scale_graph_case(rnd):
    """Representation x scale on hand-built NetworkX graphs (all four graph classes): a scale network whose coefficients are
    given as int / float / numpy.int64 / numpy.float64 / numpy.int32 MIXED within one graph, whose edges and nodes carry
    attributes the documented conventions do not mention (weight, capacity, label, id, name, ... with values unlike the
    coefficient); queried twice, partly in the simulated environment without SciPy."""
    net, prof = scale_base(rnd)
    directed = rnd.random() < 0.55
    multi = rnd.random() < 0.35
    g, n_sp = graph_description(rnd, {"rxns": net["rxns"], "isolated": net.get("isolated", [])}, directed, multi=multi)
    nodes, edges = g["nodes"], g["edges"]
    nummode = rnd.choice(["plain", "mixed", "mixed", "np"])
    for e in edges:
        if e.get("stoich") is not None and nummode != "plain":
            k = rnd.choice(["int", "float", "npint", "npfloat", "npint32"] if nummode == "mixed" else ["npint", "npfloat"])
            e.pop("float", None)
            if k == "float":
                e["float"] = True
            elif k != "int":
                e["num"] = k
        if rnd.random() < 0.3:
            e["extra"] = dict(rnd.choice(EXTRA_EDGE_ATTRS))
    for nd in nodes:
        if rnd.random() < 0.2:
            nd["extra"] = {**(nd.get("extra") or {}), **rnd.choice(EXTRA_NODE_ATTRS)}
    ops = insertion_ops(rnd, g, list(range(len(nodes))), list(range(len(edges))), rnd.choice(INSERTION_MODES))
    if rnd.random() < 0.3:
        ops.append(["q", graph_query_plan(rnd, rich=False)])
        if rnd.random() < 0.5:
            ops.append(["copy"])
    plan = graph_query_plan(rnd, rich=False)
    if rnd.random() < 0.5:
        plan["x"] = x_plan(rnd, 0.5)
    ops.append(["q", plan])
    return {"graph": g, "ops": ops}


# ---------------------------------------------------------------- non-integral coefficients (hand-built graphs only)
# A CRNHyperGraph holds integer counts, and so do the Lean models; a hand-built NetworkX graph may carry any number as `stoich`
# (build_S_minus_plus reads it with float()).  The coefficients generated here are multiples of 1/k, k in {2, 4, 8}: the case
# description holds the integer numerators, i.e. the graph k * g, which is inside the models; build_S is linear in the
# coefficients, so S(g) = S(k g) / k, rank / kernels / verdicts of g and k g coincide.
FRACTIONAL_TEXTBOOK = [
    [({"A": "1"}, {"B": "3/2"}), ({"B": "3"}, {"A": "2"})],                                             # conservative (3, 2), consistent (2, 1)
    [({"H2": "1", "O2": "1/2"}, {"H2O": "1"})],
    [({"H2": "1", "O2": "1/2"}, {"H2O": "1"}), ({"H2O": "1"}, {"H2": "1", "O2": "1/2"})],
    [({"N2": "1/2", "H2": "3/2"}, {"NH3": "1"}), ({"NH3": "2"}, {"N2": "1", "H2": "3"})],
    [({"CO": "1", "O2": "1/2"}, {"CO2": "1"}), ({"CO2": "1"}, {"CO": "1", "O2": "1/2"}), ({}, {"CO": "1"}), ({"CO2": "1"}, {})],
    [({"A": "1"}, {"B": "1/2"}), ({"B": "1"}, {"A": "2"})],
    [({"A": "1"}, {"B": "1/4"}), ({"B": "1"}, {"A": "4"})],
    [({"A": "5/2"}, {"B": "1"}), ({"B": "1"}, {"C": "5/4"}), ({"C": "1"}, {"A": "2"})],                # balanced cycle
    [({"A": "5/2"}, {"B": "1"}), ({"B": "1"}, {"C": "5/4"}), ({"C": "1"}, {"A": "3"})],                # unbalanced cycle
    [({"A": "3/2", "B": "1/2"}, {"C": "1"}), ({"C": "1"}, {"A": "3/2", "B": "1/2"})],
    [({}, {"A": "1/2"}), ({"A": "1"}, {"B": "3/2"}), ({"B": "3/4"}, {})],                               # open: consistent, not conservative
    [({"A": "1"}, {"B": "3/2"}), ({"B": "3"}, {"A": "5/2"})],                                           # no law, no flux
    [({"E": "1", "S": "1/2"}, {"ES": "1"}), ({"ES": "1"}, {"E": "1", "S": "1/2"}), ({"ES": "1"}, {"E": "1", "P": "1/2"})],
    [({"X": "1"}, {"X": "3/2"}), ({"X": "1", "Y": "1/2"}, {"Y": "1"}), ({"Y": "1"}, {})],
    [({"A": "1/2"}, {"B": "1/2"}), ({"B": "1/4"}, {"C": "1/4"}), ({"C": "3/4"}, {"A": "3/4"})],        # every coefficient below 1
]


def _lcm(a, b):
    return a * b // math.gcd(a, b)


def fractional_net(rnd):
    """-> (network of integer numerators = the scaled network k * g, k, family).  Families: `planted` (textbook reactions written
    with half / quarter coefficients, relabelled), `columns` (a tiny / random / textbook / one-step-beyond integer network with
    whole reactions divided by 2, 4 or 8: same kernels and verdicts as the integer population, e.g. 2 A + B >> C becomes
    A + 1/2 B >> 1/2 C), `entries` (a small network whose individual coefficients are arbitrary multiples of 1/k, some below 1),
    `cascade` (a mass-conserving cascade with reactions divided by 2 / 4).  At least one coefficient of k * g is not a multiple of k."""
    while True:
        fam = rnd.choice(["planted", "columns", "columns", "columns", "entries", "entries", "cascade"])
        if fam == "planted":
            rows = [({s_: Fr(c) for s_, c in l.items()}, {s_: Fr(c) for s_, c in r.items()}) for l, r in rnd.choice(FRACTIONAL_TEXTBOOK)]
            k = 1
            for l, r in rows:
                for c in list(l.values()) + list(r.values()):
                    k = _lcm(k, c.denominator)
            k = min(8, k * rnd.choice([1, 1, 2]))
            names = sorted({s_ for l, r in rows for s_ in list(l) + list(r)})
            ren = dict(zip(names, label_pool(rnd, len(names)))) if rnd.random() < 0.4 else {s_: s_ for s_ in names}
            rxns = [rx([(ren[s_], int(c * k)) for s_, c in l.items()], [(ren[s_], int(c * k)) for s_, c in r.items()]) for l, r in rows]
            if rnd.random() < 0.3:
                rnd.shuffle(rxns)
            net = {"rxns": rxns}
        elif fam in ("columns", "cascade"):
            k = rnd.choice([2, 2, 2, 4, 4, 8])
            if fam == "cascade":
                base = scale_cascade(rnd, cap=200, nmax=9)
            else:
                c = rnd.random()
                base = tiny_net(rnd) if c < 0.3 else random_net(rnd) if c < 0.75 else rnd.choice(textbook(rnd)) if c < 0.9 else beyond_net(rnd)
            rxns = []
            for r0 in base["rxns"]:
                d = rnd.choice([x for x in (1, 2, 2, 4, 8) if x <= k])
                rxns.append({**r0, "r": [[s_, c * (k // d)] for s_, c in r0["r"]], "p": [[s_, c * (k // d)] for s_, c in r0["p"]]})
            net = {"rxns": rxns, "isolated": list(base.get("isolated", []))}
        else:
            k = rnd.choice([2, 2, 4, 4, 8])
            ns = rnd.randint(1, 5)
            sp = rnd.sample(rnd.choice(SPECIES_POOLS), ns)
            cf = lambda: k * rnd.choice([1, 1, 2, 3]) if rnd.random() < 0.45 else rnd.randint(1, 3 * k + k // 2)
            side = lambda kmax: [(s_, cf()) for s_ in rnd.sample(sp, rnd.randint(0, min(kmax, ns)))]
            rxns = []
            while len(rxns) < rnd.randint(1, 4):
                c = rnd.random()
                if rxns and c < 0.3:
                    b0 = rnd.choice(rxns)
                    r0 = rx([tuple(x) for x in b0["p"]], [tuple(x) for x in b0["r"]])
                elif c < 0.4:
                    r0 = rx([], side(2)) if rnd.random() < 0.5 else rx(side(2), [])
                else:
                    r0 = rx(side(2), side(2))
                if r0["r"] or r0["p"]:
                    rxns.append(r0)
            net = {"rxns": rxns}
        if not net["rxns"] or not any(c % k for r0 in net["rxns"] for _, c in r0["r"] + r0["p"]):
            continue
        prof = scale_profile(net)               # exact guard, on the integer network k * g (same kernels as g)
        if prof["big"] <= 10 ** 4 and prof["term"] <= 10 ** 5:
            return net, k, fam


def fractional_graph_case(rnd):
    """A network with non-integral coefficients as a hand-built NetworkX graph (all four classes): the numbers written as
    float / numpy.float64 / float32 / float16, the integral ones of the same graph as int / float / NumPy scalars, an absent
    attribute where the coefficient is 1; queried, for a third of the cases copied and / or edited in place (one coefficient set
    to another multiple of 1/k) and queried again; partly in the simulated environment without SciPy."""
    net, k, fam = fractional_net(rnd)
    directed = rnd.random() < 0.55
    multi = rnd.random() < 0.3
    g, n_sp = graph_description(rnd, {"rxns": net["rxns"], "isolated": net.get("isolated", [])}, directed, multi=multi)
    g["denom"], g["family"] = k, fam
    nodes, edges = g["nodes"], g["edges"]
    for e in edges:
        if e["stoich"] is None:
            e["stoich"] = 1                     # graph_description leaves the attribute out for a 1: here that is the numerator of 1/k
        e.pop("float", None)
        if e["stoich"] == k and rnd.random() < 0.3:
            e["stoich"] = None                  # attribute absent: coefficient 1 = k / k
        else:
            e["rep"] = rnd.choice(FRAC_REPS if e["stoich"] % k else FRAC_REPS_INTEGRAL)
        if rnd.random() < 0.12:
            e["extra"] = dict(rnd.choice(EXTRA_EDGE_ATTRS))
    if fam != "cascade" and rnd.random() < 0.15:
        add_foreign(rnd, g)
    ops = insertion_ops(rnd, g, list(range(len(nodes))), list(range(len(edges))), rnd.choice(INSERTION_MODES))
    for i in range(len(g.get("fnodes") or [])):
        ops.insert(rnd.randint(0, len(ops)), ["fn", i])
    for j in range(len(g.get("fedges") or [])):
        ops.insert(rnd.randint(0, len(ops)), ["fe", j])
    if rnd.random() < 0.35:
        ops.append(["q", graph_query_plan(rnd, rich=False)])
        if rnd.random() < 0.4:
            ops.append(["copy"])
        if fam != "cascade" and edges and rnd.random() < 0.7:
            num = rnd.randint(1, 3 * k + 1)
            ops.append(["c", rnd.randrange(len(edges)), num, rnd.choice(FRAC_REPS if num % k else FRAC_REPS_INTEGRAL)])
    plan = graph_query_plan(rnd, rich=(fam != "cascade" and rnd.random() < 0.3))
    if rnd.random() < 0.4:
        plan["x"] = x_plan(rnd, 0.5)
    ops.append(["q", plan])
    return {"graph": g, "ops": ops}


# ---------------------------------------------------------------- hand-built graph populations
def graph_query_plan(rnd, rich=True):
    st = {}
    if rnd.random() < 0.6:
        order = list(GBLOCKS)
        rnd.shuffle(order)
        st["order"] = order
    if rnd.random() < 0.4:
        st["warm"] = [rnd.choice(GBLOCKS) for _ in range(rnd.randint(1, 4))]
    if rich and rnd.random() < 0.3:
        st["opts"] = {"tol": rnd.choice([1e-12, 1e-10, 1e-9, 1e-8]), "rtol": rnd.choice([1e-13, 1e-12, 1e-11, 1e-10]),
                      "eps": rnd.choice([1e-8, 2e-8, 1e-7]), "ceps": rnd.choice([1e-8, 1e-6, 1e-3, 0.5])}
    return st


def _canon_int(s):
    return s.isdigit() and str(int(s)) == s


def graph_description(rnd, net, directed, multi=False):
    """A bipartite-graph description of the network `net` ({"rxns": [{"r","p","rule"}], "isolated": [..]}): node ids
    (ints / strings / mixed, related or unrelated to the labels), label attributes (present, missing where the id says
    it, int-valued), kind / bipartite flags, reaction labels (distinct, tied, missing), stoich (int, float, missing)."""
    sp = []
    for r0 in net["rxns"]:
        for s, _ in r0["r"] + r0["p"]:
            if s not in sp:
                sp.append(s)
    for s in net.get("isolated", []):
        if s not in sp:
            sp.append(s)
    nr = len(net["rxns"])
    scheme = rnd.choice(["int", "int_rev", "str", "deranged", "mixed", "label", "label"])
    used = set()

    def fresh(cands):
        for c in cands:
            if c not in used:
                used.add(c)
                return c
        raise Infra("no fresh node id")

    def some_int():
        return fresh(rnd.sample(range(-5, 400), 60))

    def some_str():
        return fresh([rnd.choice(["n", "S:", "x", "", "R:", "node "]) + str(rnd.randint(0, 99)) for _ in range(60)])

    nodes = []
    by_label = sorted(sp)
    deranged = by_label[1:] + by_label[:1]
    pool_ids = sorted(rnd.sample(range(0, 300), len(sp)), reverse=True)
    for s in sp:
        nd = {"part": "s"}
        if scheme == "int":
            nd["id"] = some_int()
        elif scheme == "int_rev":       # increasing id = decreasing label
            nd["id"] = fresh([pool_ids[by_label.index(s)]] + list(range(400, 500)))
        elif scheme == "str":
            nd["id"] = some_str()
        elif scheme == "deranged":      # the id of a species is the LABEL of another species
            nd["id"] = fresh([deranged[by_label.index(s)], "id:" + s])
        elif scheme == "mixed":
            nd["id"] = some_int() if rnd.random() < 0.5 else some_str()
        else:                           # id = label (a string, or the int it spells)
            nd["id"] = fresh([int(s) if _canon_int(s) and rnd.random() < 0.5 else s, "id:" + s])
        if scheme == "label" and str(nd["id"]) == s and rnd.random() < 0.6:
            pass                        # no label attribute: the label is the node id converted to string
        else:
            nd["label"] = int(s) if _canon_int(s) and rnd.random() < 0.3 else s
        nodes.append(nd)
    rmode = rnd.choice(["distinct", "distinct", "rule", "missing", "mixed"])
    names = [f"r{k + 1}" for k in range(nr)]
    rnd.shuffle(names)
    for k, r0 in enumerate(net["rxns"]):
        nd = {"part": "r"}
        nd["id"] = (some_int() if rnd.random() < 0.5 else some_str()) if scheme in ("mixed", "label") else \
            some_str() if scheme in ("str", "deranged") else some_int()
        how = rmode if rmode != "mixed" else rnd.choice(["distinct", "rule", "missing"])
        if how == "distinct":
            nd["label"] = names[k]
        elif how == "rule":
            nd["label"] = r0.get("rule") if r0.get("rule") is not None else "r"
        if rnd.random() < 0.15:
            nd["extra"] = {"edge_id": f"e{k}"}
        nodes.append(nd)
    fmode = rnd.choice(["kind", "bipartite", "both", "both", "mixed"])
    for nd in nodes:
        nd["flags"] = fmode if fmode != "mixed" else rnd.choice(["kind", "bipartite", "both"])
    edges = []
    for k, r0 in enumerate(net["rxns"]):
        seen = set()
        for role, side in (("reactant", r0["r"]), ("product", r0["p"])):
            for s, c in side:
                if (s, role) in seen or (not directed and not multi and s in {x for x, _ in seen}):
                    continue            # an undirected simple graph holds one edge per species / reaction pair
                seen.add((s, role))
                parts = [int(c)]
                if multi and c >= 2 and rnd.random() < 0.4:
                    c1 = rnd.randint(1, c - 1)          # parallel edges with the same role: their coefficients add up
                    parts = [c1, int(c) - c1]
                for c0 in parts:
                    e = {"s": sp.index(s), "r": len(sp) + k, "role": role, "stoich": c0}
                    if c0 == 1 and rnd.random() < 0.3:
                        e["stoich"] = None  # attribute missing: documented default 1
                    elif rnd.random() < 0.15:
                        e["float"] = True
                    edges.append(e)
    # a reaction that lost all its edges cannot happen: every generated reaction has a non-empty side
    g = {"directed": directed, "nodes": nodes, "edges": edges}
    if multi:
        g["multi"] = True
    return g, len(sp)


FOREIGN_ATTRS = [{}, {}, {"kind": "compartment"}, {"kind": "compartment", "bipartite": 0}, {"kind": "annotation", "bipartite": 1},
                 {"bipartite": 2}, {"label": "A"}, {"kind": "Species"}, {"kind": None, "bipartite": None}]
FOREIGN_EDGE_ATTRS = [{}, {"role": "reactant", "stoich": 2}, {"role": "product", "stoich": 3}, {"role": "reactant"}, {"role": "product"},
                      {"role": "in", "stoich": 1}, {"stoich": 5}]


def add_foreign(rnd, g):
    """Nodes that are neither species nor reaction (no / other `kind`, no / other `bipartite` flag) and edges that do not join
    a species to a reaction (species-species, reaction-reaction, anything-foreign), carrying role / stoich data like real
    edges.  The documented reading: such nodes get no row / column, such edges are ignored."""
    nodes = g["nodes"]
    used = {nd["id"] for nd in nodes}
    fn = []
    for k in range(rnd.choice([0, 1, 1, 2])):
        nid_ = next(c for c in [rnd.choice([f"F{k}", 1000 + k, f"S:f{k}", -100 - k]), f"foreign{k}", 2000 + k] if c not in used)
        used.add(nid_)
        attrs = dict(rnd.choice(FOREIGN_ATTRS))
        if "label" in attrs:            # a label some species carries too: the node is still no species
            attrs["label"] = g_label(rnd.choice([nd for nd in nodes if nd["part"] == "s"]))
        fn.append({"id": nid_, "attrs": attrs})
    sps = [i for i, nd in enumerate(nodes) if nd["part"] == "s"]
    rs = [i for i, nd in enumerate(nodes) if nd["part"] == "r"]
    fe, seen = [], set()
    for _ in range(rnd.choice([1, 1, 2, 3])):
        c = rnd.random()
        if c < 0.35 and len(sps) >= 2:
            u, v = [["n", i] for i in rnd.sample(sps, 2)]
        elif c < 0.5 and len(rs) >= 2:
            u, v = [["n", i] for i in rnd.sample(rs, 2)]
        elif fn:
            u = ["f", rnd.randrange(len(fn))]
            v = ["n", rnd.choice(sps + rs)] if rnd.random() < 0.8 or len(fn) < 2 else ["f", (u[1] + 1) % len(fn)]
            if rnd.random() < 0.5:
                u, v = v, u
        else:
            continue
        key = frozenset((tuple(u), tuple(v)))
        if key in seen or len(key) < 2:
            continue                    # one foreign edge per pair of nodes; no self-loops
        seen.add(key)
        fe.append({"u": u, "v": v, "attrs": dict(rnd.choice(FOREIGN_EDGE_ATTRS))})
    g["fnodes"], g["fedges"] = fn, fe
    return g


def insertion_ops(rnd, g, node_ids, edge_ids, mode):
    """Operations inserting the given nodes / edges of the description g."""
    nodes, edges = g["nodes"], g["edges"]
    ns = [i for i in node_ids if nodes[i]["part"] == "s"]
    rs = [i for i in node_ids if nodes[i]["part"] == "r"]
    es = list(edge_ids)
    if mode == "appearance":            # the natural loader: species are created the first time a reaction mentions them
        ops, done = [], set()
        rnd.shuffle(rs)
        for k in rs:
            mine = [j for j in es if edges[j]["r"] == k]
            for j in mine:
                if edges[j]["s"] not in done and edges[j]["s"] in ns:
                    done.add(edges[j]["s"])
                    ops.append(["n", edges[j]["s"]])
            ops.append(["n", k])
            ops += [["e", j] for j in mine]
        rest = [i for i in ns if i not in done]
        rnd.shuffle(rest)
        return ops + [["n", i] for i in rest]
    if mode == "edges_first":           # add_edge creates the nodes, their attributes follow
        rnd.shuffle(es)
        alln = ns + rs
        rnd.shuffle(alln)
        return [["e", j] for j in es] + [["n", i] for i in alln]
    if mode == "interleaved":
        ops = [["n", i] for i in ns + rs] + [["e", j] for j in es]
        rnd.shuffle(ops)
        return ops
    lab = lambda i: g_label(nodes[i])
    if mode == "species_desc":
        ns.sort(key=lab, reverse=True)
        rs.sort(key=lab, reverse=True)
        alln = ns + rs
    elif mode == "sorted":              # control: what hypergraph_to_bipartite does
        ns.sort(key=lab)
        rs.sort(key=lab)
        alln = ns + rs
    elif mode == "reactions_first":
        rnd.shuffle(ns)
        rnd.shuffle(rs)
        alln = rs + ns
    else:                               # "shuffled"
        alln = ns + rs
        rnd.shuffle(alln)
    rnd.shuffle(es)
    return [["n", i] for i in alln] + [["e", j] for j in es]


INSERTION_MODES = ["shuffled", "shuffled", "appearance", "appearance", "edges_first", "interleaved", "species_desc", "sorted",
                   "reactions_first"]


def graph_edits(rnd, g, declared, present, labels):
    """0-2 in-place edits / derived objects applicable to the current graph; `labels`: current label per node index
    (all nodes of the description, so that a new species label collides with none)."""
    nodes = g["nodes"]
    ops = []
    for _ in range(rnd.choice([0, 1, 1, 2])):
        c = rnd.random()
        if c < 0.25 and present:
            j = rnd.choice(present)
            ops.append(["c", j, rnd.choice([1, 2, 3, 4])])
        elif c < 0.55:
            i = rnd.choice(declared)
            if nodes[i]["part"] == "s":
                taken = {labels[k] for k in range(len(nodes)) if nodes[k]["part"] == "s"} | \
                        {str(nodes[k]["id"]) for k in range(len(nodes)) if nodes[k]["part"] == "s"}
                new = next((x for x in [rnd.choice(["0", "~", "A", "a", "Z", "s"]) + labels[i], labels[i] + rnd.choice(["'", "0", "_"]),
                                        "zz" + labels[i], "00" + labels[i]] if x not in taken), None)
                if new is None:
                    continue
            else:
                new = rnd.choice(["a", "z", "r", "R1", "0", "r10", "r2"])
            labels[i] = new
            ops.append(["l", i, new])
        elif c < 0.70:
            ops.append(["copy"])
        else:
            a, b = list(declared), list(present)
            rnd.shuffle(a)
            rnd.shuffle(b)
            declared[:] = a
            ops.append(["perm", a, b, rnd.random() < 0.5])
    return ops


def random_graph_case(rnd):
    c = rnd.random()
    if c < 0.35:
        net = tiny_net(rnd)
    elif c < 0.80:
        net = random_net(rnd)
    elif c < 0.92:
        net = sized_net(rnd, rnd.randint(2, 14), rnd.randint(1, 12))
    else:
        net = rnd.choice(textbook(rnd))
    directed = rnd.random() < 0.55
    g, n_sp = graph_description(rnd, net, directed)
    nodes, edges = g["nodes"], g["edges"]
    labels = [g_label(nd) for nd in nodes]
    rids = [i for i in range(len(nodes)) if nodes[i]["part"] == "r"]
    ops = []
    declared, present = [], []
    if len(rids) >= 2 and rnd.random() < 0.4:
        # two stages: part of the network first (queried), the rest appended to the SAME object (queried again)
        first = set(rnd.sample(rids, rnd.randint(1, len(rids) - 1)))
        e1 = [j for j, e in enumerate(edges) if e["r"] in first]
        n1 = sorted(first | {edges[j]["s"] for j in e1})
        unused = [i for i in range(n_sp) if not any(e["s"] == i for e in edges)]
        n1 += [i for i in unused if rnd.random() < 0.5]
        ops += insertion_ops(rnd, g, n1, e1, rnd.choice(INSERTION_MODES))
        declared, present = [op[1] for op in ops if op[0] == "n"], [op[1] for op in ops if op[0] == "e"]
        ops.append(["q", graph_query_plan(rnd, rich=False)])
        ops += graph_edits(rnd, g, declared, present, labels)
        n2 = [i for i in range(len(nodes)) if i not in n1]
        e2 = [j for j in range(len(edges)) if j not in e1]
        more = insertion_ops(rnd, g, n2, e2, rnd.choice(INSERTION_MODES))
        ops += more
        declared += [op[1] for op in more if op[0] == "n"]
        present += [op[1] for op in more if op[0] == "e"]
    else:
        ops += insertion_ops(rnd, g, list(range(len(nodes))), list(range(len(edges))), rnd.choice(INSERTION_MODES))
        declared, present = [op[1] for op in ops if op[0] == "n"], [op[1] for op in ops if op[0] == "e"]
        if rnd.random() < 0.3:
            ops.append(["q", graph_query_plan(rnd, rich=False)])
    if rnd.random() < 0.45:
        ops += graph_edits(rnd, g, declared, present, labels)
    ops.append(["q", graph_query_plan(rnd)])
    return {"graph": g, "ops": ops}


def x_plan(rnd, p_noscipy):
    """Extra queries: the simulated no-SciPy environment and the switches of StoichSummary.from_crn."""
    return {"noscipy": rnd.random() < p_noscipy, "sum": [rnd.random() < 0.5, rnd.random() < 0.5]}


def random_graph_case2(rnd):
    """Hand-built graphs of the remaining NetworkX classes and shapes: MultiDiGraph / MultiGraph (parallel reactant + product
    edges of a catalyst, parallel edges with the same role), nodes that are neither species nor reaction, edges that do not
    join a species to a reaction, nodes whose `bipartite` flag contradicts their `kind`; DiGraph / Graph with the same extras."""
    c = rnd.random()
    if c < 0.35:
        net = tiny_net(rnd)
    elif c < 0.75:
        net = random_net(rnd)
    elif c < 0.9:
        net = rare_net(rnd)
        net = {"rxns": net["rxns"], "isolated": net.get("isolated", [])}
    else:
        net = rnd.choice(textbook(rnd))
    directed = rnd.random() < 0.5
    multi = rnd.random() < 0.65
    g, n_sp = graph_description(rnd, net, directed, multi=multi)
    nodes, edges = g["nodes"], g["edges"]
    if rnd.random() < 0.3:
        for nd in nodes:
            if nd["flags"] in ("both", "kind") and rnd.random() < 0.6:
                nd["flags"] = "conflict"
    if not multi or rnd.random() < 0.6:
        add_foreign(rnd, g)
    labels = [g_label(nd) for nd in nodes]
    ops = insertion_ops(rnd, g, list(range(len(nodes))), list(range(len(edges))), rnd.choice(INSERTION_MODES))
    declared, present = [op[1] for op in ops if op[0] == "n"], [op[1] for op in ops if op[0] == "e"]
    # foreign nodes / edges go in anywhere (an edge may come before the attributes of its end points)
    for i in range(len(g.get("fnodes") or [])):
        ops.insert(rnd.randint(0, len(ops)), ["fn", i])
    for j in range(len(g.get("fedges") or [])):
        ops.insert(rnd.randint(0, len(ops)), ["fe", j])
    if rnd.random() < 0.25:
        ops.append(["q", {"x": x_plan(rnd, 0.3)}])
    if rnd.random() < 0.45:
        ops += graph_edits(rnd, g, declared, present, labels)
    plan = graph_query_plan(rnd)
    plan["x"] = x_plan(rnd, 0.3)
    ops.append(["q", plan])
    return {"graph": g, "ops": ops}


def x_nets(rnd, quick):
    """Store inputs for the simulated no-SciPy environment / the extra entry points: the textbook families, the exhaustive
    single reactions (a sample in quick), tiny pairs, random and rare networks."""
    k = 1 if quick else 8
    rs = exhaustive_reactions()
    nets = [dict(n) for n in textbook(rnd)]
    nets += [{"rxns": [code_to_rx(c)]} for c in (rnd.sample(rs, 150) if quick else rs)]
    nets += [tiny_net(rnd) for _ in range(250 * k)]
    nets += [random_net(rnd) for _ in range(350 * k)]
    nets += [rare_net(rnd) for _ in range(100 * k)]
    for n in nets:
        n["x"] = x_plan(rnd, 0.7)
    return nets


def tiny_graph_cases(rnd, n_nets):
    """<= 2 reactions over A, B, C with coefficients in {0,1,2}; the three species nodes inserted in EVERY order, as a DiGraph
    and as an undirected Graph; integer node ids in insertion order (so id order, insertion order and label order all differ),
    reaction nodes labelled r1 / r2 and inserted in either order."""
    out = []
    for _ in range(n_nets):
        net = tiny_net(rnd)
        rev = rnd.random() < 0.5
        for perm in itertools.permutations(range(3)):
            for directed in (True, False):
                nodes = [{"id": 10 * (perm.index(i) + 1), "part": "s", "label": "ABC"[i], "flags": "both"} for i in range(3)]
                nr = len(net["rxns"])
                nodes += [{"id": 5 + 10 * k, "part": "r", "label": f"r{k + 1}", "flags": "both"} for k in range(nr)]
                edges = []
                for k, r0 in enumerate(net["rxns"]):
                    seen = set()
                    for role, side in (("reactant", r0["r"]), ("product", r0["p"])):
                        for s, c in side:
                            if not directed and s in seen:
                                continue
                            seen.add(s)
                            edges.append({"s": "ABC".index(s), "r": 3 + k, "role": role, "stoich": int(c)})
                rorder = list(range(3, 3 + nr))
                if rev:
                    rorder.reverse()
                ops = [["n", i] for i in perm] + [["n", k] for k in rorder] + [["e", j] for j in range(len(edges))] + [["q", {}]]
                out.append({"graph": {"directed": directed, "nodes": nodes, "edges": edges}, "ops": ops})
    return out


def malformed():
    return [{"rxns": []}, {"rxns": [], "isolated": ["A"]}]


def load_regress():
    d = ROOT / "regress" / "C17"
    return [json.loads(f.read_text()) for f in sorted(d.glob("*.json"))] if d.exists() else []


# =============================================================== entry points
def setup(ctx):
    ctx.trusted = [
        "Lean 4.33 kernel; axioms of the property theorems as listed in obligation_list",
        "NumPy/SciPy (matrix_rank, SVD null space, HiGHS) are oracles: every reported value is compared with an exact certificate "
        "checked by the proven Lean checkers; float bases / witnesses are tested numerically in Python (tolerance 1e-9 relative to the vector norm)",
        "harness exact arithmetic (Fraction Gaussian elimination, phase-1 simplex) only proposes certificates; a wrong certificate is rejected by Lean "
        "(infrastructure failure), it cannot produce a verdict",
        "hand-written model of build_S (SynKitModel/Stoich.lean) tied to /repo by this run; Driver/Stoich.lean JSON codec",
        "hand-written model of the graph entry path (SynKitModel/BipGraph.lean: _as_bipartite, _split_species_reactions, "
        "_species_and_reaction_order, build_S_minus_plus on a NetworkX graph, and NetworkX's own add_edge / DiGraph(Graph) semantics) tied to "
        "/repo and to NetworkX by this run; Driver/BipGraph.lean JSON codec; the serialiser bip_request (node ids by str(), by repr() when two "
        "ids coincide after str(); integral float coefficients as integers)",
    ]
    ctx.assumptions = [
        "inputs are CRNHyperGraph stores built through add_rxn / remove_species / remove_rxn (species labels and rules are plain strings)",
        "'reported conservative / consistent' means the verdict is True; None where no witness exists does not contradict the property (DESIGN 5a)",
        "the None-versus-False choice of the decision logic is recorded against the model but not gated",
        "the row / column order of S is gated against the model of build_S (theorem buildS_orders): the returned reaction labels are the "
        "rule names, so a flux vector can only be read through the column order (store's edge order = order of the store's own "
        "incidence_matrix, stably regrouped by rule label); a divergence is a failing input when a returned right-kernel / T-semiflow "
        "vector does not annihilate the store's matrix in that order, otherwise it is reported without failing input",
        "session stream: the store is edited only through add_rxn / remove_rxn / remove_species / merge / copy and by changing, in place, "
        "the coefficient of a species that already is on that side of a reaction or the rule label of a reaction (the store invariant of C15 is kept); "
        "the specification side (store dump -> exact certificates -> Lean checkers) is recomputed per state and never sees the history",
        "hand-built graph stream: species labels are distinct after str(); node ids are ints / strings; every reaction node has at least one "
        "edge; at most one edge per (species, reaction, role) in a DiGraph and per (species, reaction) in an undirected Graph; arcs point "
        "species -> reaction for reactants and reaction -> species for products; coefficients are positive integers (int, integral float, or "
        "absent = 1); the order among equally labelled reactions is not gated (columns compared as a multiset per label)",
        "coverage-gap streams: an environment without SciPy is SIMULATED by setting the module globals `_SCIPY_AVAILABLE` / `scipy_null_space` / "
        "`linprog` of synkit.CRN.Props.stoich to False / None / None for the duration of the queries (exactly what the guarded import leaves when "
        "SciPy cannot be imported); there the documented answer None ('inconclusive') is accepted although a witness exists, but only under the "
        "condition the docstring states (see GATES) -- 'exactly when' cannot be met without an LP solver and the code says so",
        "hand-built multigraphs: parallel edges with the same role between a species and a reaction stand for the sum of their coefficients; "
        "a node is a species / reaction iff `kind` says so, or `kind` is absent (None) and `bipartite` is 0 / 1 (documented in "
        "_split_species_reactions: `kind` decides when present); every other node has no row / column and every edge that does not join a "
        "species to a reaction is no part of the network, whatever role / stoich data it carries (documented in build_S_minus_plus)",
        "non-default tolerances are kept within 1e-13..1e-8 (rank / null space), 1e-8..1e-7 (conservativity margin) and < 1 (consistency margin, "
        "the LP bounds v >= 1): for the tiny integer matrices generated here the property's answers do not depend on them",
        "scale streams: the property is about exact linear algebra, the implementation works in double precision with fixed thresholds "
        "(rank: singular values > 1e-10; null space: > 1e-12 relative; sign scan: normalised entries > 1e-8; HiGHS feasibility 1e-7), so the "
        "inputs stay where those thresholds cannot decide: dynamic range of a cascade <= 2e5 by construction, primitive kernel vectors "
        "<= 1e6 and coefficient * flux <= 1e7 by an exact (Fraction) guard computed from the generated network only, an unbalanced closing "
        "reaction is unbalanced by a factor >= 2 (K+1 next to K is at relative distance 1/K from a singular matrix), non-default tolerances "
        "only at dynamic range <= 1e3; beyond this range the unchanged code does give wrong answers (see notes in the C17 report: "
        "22501 X7 >> X1 closing a cascade of product 22500; HiGHS 'infeasible' for coefficients ~1e4 with fluxes ~1e6) -- not gated",
        "representation variants of one network (coefficients as int / float / NumPy scalars, one-shot iterables, extra attributes) all stand "
        "for the same integer coefficients: the specification side reads the store dump (stores) / the description (graphs) only",
        "non-integral coefficients (stream graph-fractional): the property speaks of 'every reaction network' and build_S_minus_plus reads "
        "`stoich` as a real number (float(...), documented default 1.0), so a hand-built graph with coefficients 3/2, 1/2, 0.25 is an input; the "
        "Lean models (Stoich.lean, BipGraph.lean) and CRNHyperGraph hold INTEGER coefficients only.  The gate rests on the LINEARITY of the "
        "stoichiometric matrix in the coefficients (S_minus, S_plus, S are sums of the edge coefficients: theorem buildS_entry / the model of "
        "the graph reading): for a graph g whose coefficients are multiples of 1/k, S(g) = S(k g) / k where k g has integer coefficients; rank, "
        "kernel dimensions, both kernels and hence both verdicts of g and k g coincide, a witness for one is a witness for the other.  This "
        "scaling step is done in the harness (Python, exact: k is a power of two and the numerators are < 2^11, so k * x is exact in binary "
        "floating point for float64 / float32 / float16), it is NOT a Lean theorem; an absent `stoich` (coefficient 1, theorem "
        "graphS_missing_stoich) is serialised for the model as the explicit coefficient k; the exact guard of the scale streams is applied to "
        "k g (primitive kernel vectors <= 1e4, coefficient * flux <= 1e5)",
    ]
    ctx.gen_rule = ("regression corpus; ALL single reactions over species A,B,C with coefficients in {0,1,2} (728); unordered pairs of such "
                    "reactions (all 265356 in thorough, a seeded sample of 4000 ordered pairs in quick); textbook families "
                    "(irreversible/reversible chains, cycles, open systems with source/sink, Michaelis-Menten, Brusselator, Lotka-Volterra, "
                    "scaled variants); random networks with <=7 species, <=6 reactions, coefficients <=3 (reversed and repeated reactions, "
                    "catalysts, sources/sinks, rules from a small alphabet incl. '' and None, explicit ids that reorder columns, isolated "
                    "species, labels whose string order differs from numeric order); a two-case malformed stream (no reactions); "
                    "SESSIONS (350 quick / 3500 thorough): a tiny or random base network is analysed, then 1-4 times edited in place on the SAME "
                    "object (remove_species with/without pruning, remove_rxn + add_rxn under the same id with reversed / rescaled / other sides, "
                    "in-place coefficient set / incr, rule relabelling, add, remove, merge, copy and continue on the copy / switch back, a new object "
                    "after releasing the old one, no edit) and analysed again after every edit with every anchored entry point, in a per-state "
                    "random query order, optionally after repeated warm-up queries, with the exported NetworkX view either rebuilt or refilled "
                    "into one reused DiGraph object; SIZED (170 quick / 1360 thorough): 1-112 species, 1-28 reactions built from chains / reversible "
                    "chains / cycles / open ends / sparse random reactions with coefficients <= 3, sizes chosen so that the integer-id view has "
                    ">= 10 and >= 100 nodes and its reaction ids straddle 10 / 100, >= 10 generated ids (r_10 < r_2), numeric-string ids; "
                    "RARE (600 quick / 6000 thorough): <= 7 species / <= 7 reactions with labels of unusual shape (digits only, blanks, non-ASCII, "
                    "labels that look like node / edge ids), numeric-looking and empty rules, explicit ids incl. '' and '10' / '9', catalysts, "
                    "duplicates, every input form of add_rxn (dict, label list, pairs, RXNSide, reaction string), random query order, and for a "
                    "share of the cases build_S on NetworkX views made with non-default options (integer ids, other / no prefixes, without isolated "
                    "species, kind-only or bipartite-only node attributes) and a second round of queries with non-default tolerances; "
                    "GRAPH-TINY (300 quick / 3600 thorough): <= 2 reactions over A,B,C with coefficients in {0,1,2} as a hand-built bipartite "
                    "NetworkX graph with the three species nodes inserted in EVERY order, as DiGraph and as undirected Graph, integer ids in "
                    "insertion order; GRAPH (500 quick / 5000 thorough graphs, ~1.4 queries each): tiny / random / sized (<= 14 species) / textbook "
                    "networks as hand-built DiGraph / Graph: node ids int / str / mixed / equal to the label / equal to ANOTHER species' label / "
                    "decreasing with the label, label attribute present / absent (id is the label) / int-valued, kind-only / bipartite-only / "
                    "both flags (per graph or per node), reaction labels distinct / tied / absent, stoich int / integral float / absent, "
                    "insertion orders shuffled / order of first appearance per reaction / edges first (add_edge creates the nodes) / fully "
                    "interleaved / descending / sorted (control) / reactions first; 40 % built in two stages (part of the network queried, the "
                    "rest appended to the SAME object, queried again), in-place coefficient and label changes, G.copy(), rebuilt objects with "
                    "another insertion order (old object kept or released), per-query random order of the entry points, warm-up queries, "
                    "non-default tolerances; "
                    "NOSCIPY+EXTRAS (~900 quick / ~6400 thorough store networks: the textbook families, single reactions over A,B,C (150 sampled "
                    "in quick, all 728 in thorough), tiny pairs, random and rare networks): 70 % queried in the simulated environment without "
                    "SciPy, every case with StoichSummary.from_crn under a random combination of its two switches, the derived summary "
                    "properties, has_irreversible_futile_cycles and the store's stoichiometric_matrix alias; "
                    "GRAPH-MULTI (400 quick / 4000 thorough graphs, ~1.25 queries each): tiny / random / rare / textbook networks as hand-built "
                    "MultiDiGraph / MultiGraph (65 %; a catalyst as parallel reactant + product edges, 40 % of the coefficients >= 2 split into "
                    "two parallel edges of one role) or DiGraph / Graph, 30 % with nodes whose bipartite flag contradicts their kind, most with "
                    "0-2 nodes that are neither species nor reaction (no flags, other kind with / without a bipartite flag, bipartite = 2, only "
                    "a label equal to a species label) and 1-3 edges species-species / reaction-reaction / to or between such nodes carrying "
                    "role / stoich data, inserted at random positions; in-place edits / copies / rebuilt objects as in GRAPH; 30 % of the "
                    "queries in the simulated environment without SciPy, all with the from_crn switches; "
                    "SCALE (520 quick / 5200 thorough store networks; + 60 / 600 sessions; + 140 / 1400 hand-built graphs): numbers outside the small "
                    "alphabet and representation variants.  55 % CASCADES conserving a mass vector of large dynamic range (up to 2e5): a path / "
                    "random tree / star of conversions a X <-> b Y with a*mass(X) = b*mass(Y); long ones of small factors (8-13 species, factors "
                    "2..5: X0 >> 3 X1 >> ..., binary fission, 2 X >> Y), short ones of multi-digit factors (10..250: 50 A >> B, 50 B >> C), mixtures; "
                    "masses falling / rising / wandering; reactions written down / up / at random; decorated with nothing, reverse reactions, a "
                    "mass-balanced closing reaction (coefficient up to 2e5; one-dimensional right kernel of the same range), a clearly unbalanced "
                    "one, source + sinks, a duplicated reaction with one coefficient changed, an isolated species, mass-balanced composite "
                    "reactions a X + b Y >> c Z (coefficients <= 300); 20 % RANDOM <= 5 species / <= 4 reactions with coefficients from "
                    "{1,2,3,5,7,10,12,17,25,50,64,99,100,128} incl. k-fold scaled copies of a reaction; 25 % ONE STEP BEYOND the enumerated / random "
                    "bounds (4 species or 3 reactions or coefficient 3 for the exhaustive family; 8-9 species and / or 7-8 reactions and / or "
                    "coefficients up to 5 for the random family).  Every generated network passes an EXACT guard (scale_profile: primitive integer "
                    "kernel vectors <= 1e6, largest term coefficient*flux of S v = 0 <= 1e7).  Presentation: rules / explicit ids, per reaction one of "
                    "the input forms dict / pairs / RXNSide / string / label list / one-shot generator of pairs / one-shot iterator of labels / map "
                    "object / coefficients as float, numpy.int64, numpy.float64 or int, float, numpy.int64, numpy.float64, numpy.int32 mixed within "
                    "one side; random query order, warm-up queries, NetworkX view variants, 30 % of the cases in the simulated environment without "
                    "SciPy.  Sessions: a cascade (range <= 1e3) analysed, then edited in place (one edit sets a coefficient to 10..50, the others "
                    "as in SESSIONS) and analysed again after every edit.  Graphs: the scale networks as DiGraph / Graph / MultiDiGraph / MultiGraph "
                    "with stoich given as int / float / numpy.int64 / numpy.float64 / numpy.int32 mixed within one graph, 30 % of the edges and 20 % "
                    "of the nodes carrying attributes the conventions do not mention (weight, capacity, label, id, name, coeff, stoichiometry, "
                    "order, count, index, species) with values unlike the coefficient. "
                    "GRAPH-FRACTIONAL (400 quick / 4000 thorough hand-built graphs, ~1.35 queries each; DiGraph / Graph / MultiDiGraph / MultiGraph): "
                    "networks with NON-INTEGRAL coefficients, all multiples of 1/k with k in {2, 4, 8} and at least one of them non-integral.  "
                    "Families: planted (14 %: A >> 3/2 B, 3 B >> 2 A; H2 + 1/2 O2 >> H2O alone / reversible; 1/2 N2 + 3/2 H2 >> NH3 with its "
                    "integer reverse; open CO oxidation; A >> 1/4 B, B >> 4 A; balanced and unbalanced cycles with 5/2 and 5/4; open chain; "
                    "Michaelis-Menten and Lotka-Volterra with a half coefficient; a cycle whose coefficients are all below 1; 40 % relabelled); "
                    "columns (43 %: a tiny / random / textbook / one-step-beyond INTEGER network with whole reactions divided by 2, 4 or 8, so that "
                    "the kernels and verdicts are distributed as in the integer populations); entries (29 %: <= 5 species, <= 4 reactions, every "
                    "coefficient an arbitrary multiple of 1/k up to 3.5, some below 1, reversed copies, sources / sinks); cascade (14 %: a "
                    "mass-conserving cascade of dynamic range <= 200 with reactions divided by 2 / 4 / 8).  Non-integral values written as float / "
                    "numpy.float64 / numpy.float32 / numpy.float16, integral ones of the same graph as int / float / numpy.int64 / numpy.float64 / "
                    "numpy.int32, 30 % of the coefficients equal to 1 left out (documented default), 12 % of the edges with unrelated attributes, "
                    "15 % of the graphs with foreign nodes / edges; node ids / labels / flags / insertion orders as in GRAPH; 35 % queried, then "
                    "copied and / or edited in place (one coefficient set to another multiple of 1/k) and queried again; 40 % with the from_crn "
                    "switches, half of those in the simulated environment without SciPy; non-default tolerances for 30 % of the non-cascade cases. "
                    "GRAPH-WRITTEN (600 quick / 6000 thorough): graphs given by their construction only, no described network: one of "
                    "DiGraph / MultiDiGraph / Graph / MultiGraph, 1-3 species nodes, 1-2 reaction nodes, 0-1 other node, typed by kind / "
                    "bipartite / both / contradicting flag, labels present / absent / (8 %) tied, 8 % of the nodes never declared (they exist "
                    "through add_edge only), 1-7 add_edge calls in random positions: 78 % species-reaction, the rest species-species / "
                    "reaction-reaction / to the other node / self-loops, EITHER direction, role reactant / product / 'in' / absent, stoich "
                    "absent / 1-3 / integral float / (rarely) 0, -1; repeated pairs, so that on the non-multi classes later calls overwrite "
                    "stored edges. GATES: " + GATES)
    ctx.nontrivial_rule = ("distinct stored network (species + reactions with ids and rules) with at least one reaction and certified rank >= 1; "
                           "a session state is identified by the whole history (base network, edits, query plan) that led to it; "
                           "a query on a hand-built graph by the graph description and the operations up to the query; a graph-written "
                           "case by its list of calls, non-trivial when build_S succeeds and S_minus or S_plus has a non-zero entry")


def run(ctx):
    setup(ctx)
    build_and_audit(ctx, ["SynKitProofs.Props.C17"], "SynKitProofs/Audit/C17.lean", THEOREMS)
    try:
        # fork the workers before NumPy/SciPy are imported in this process (no BLAS threads are inherited)
        import os
        for var in ("OMP_NUM_THREADS", "OPENBLAS_NUM_THREADS", "MKL_NUM_THREADS"):
            os.environ.setdefault(var, "1")
        pool()
        reg = load_regress()
        run_nets(ctx, [c["net"] for c in reg if "steps" not in c and "ops" not in c and "written" not in c], "regress")
        run_written(ctx, [{"written": c["written"]} for c in reg if "written" in c], "regress")
        run_graphs(ctx, [{k: c[k] for k in ("graph", "ops")} for c in reg if "ops" in c], "regress")
        run_sessions(ctx, [{k: c[k] for k in ("net", "first", "steps", "reuse_view") if k in c} for c in reg if "steps" in c], "regress")
        ctx.count("regress_cases", len(reg))
        run_nets(ctx, malformed(), "malformed")
        rs = exhaustive_reactions()
        run_nets(ctx, [{"rxns": [code_to_rx(c)]} for c in rs], "exhaustive-1")
        ctx.extra["exhaustive_part"] = f"all {len(rs)} single reactions over 3 species with coefficients in {{0,1,2}}"
        if ctx.quick:
            pairs = [(ctx.rnd.choice(rs), ctx.rnd.choice(rs)) for _ in range(4000)]
            ctx.extra["exhaustive"] = False
        else:
            pairs = [(a, b) for i, a in enumerate(rs) for b in rs[i:]]
            ctx.extra["exhaustive"] = True
            ctx.extra["exhaustive_part"] += f"; all {len(pairs)} unordered pairs of them (repetition allowed)"
        run_nets(ctx, [{"rxns": [code_to_rx(a), code_to_rx(b)]} for a, b in pairs], "exhaustive-2")
        run_nets(ctx, textbook(ctx.rnd), "textbook")
        nrand = 4000 if ctx.quick else 40000
        run_nets(ctx, [random_net(ctx.rnd) for _ in range(nrand)], "random")
        # -- one store object analysed, edited in place, analysed again (hidden state between calls)
        run_sessions(ctx, [random_session(ctx.rnd) for _ in range(350 if ctx.quick else 3500)], "session")
        # -- many species / reactions: >= 10 and >= 100 nodes in the integer-id view, ids whose string order is not numeric
        run_nets(ctx, sized_population(ctx.rnd, ctx.quick), "sized")
        # -- rare but legal shapes, input forms, NetworkX view variants, query orders, non-default tolerances
        run_nets(ctx, [rare_net(ctx.rnd) for _ in range(600 if ctx.quick else 6000)], "rare")
        # -- the network handed over as a hand-built bipartite NetworkX graph (DiGraph / undirected Graph): node insertion
        #    order, node ids and labels unrelated; extended / edited / copied / rebuilt objects queried again
        run_graphs(ctx, tiny_graph_cases(ctx.rnd, 25 if ctx.quick else 300), "graph-tiny")
        run_graphs(ctx, [random_graph_case(ctx.rnd) for _ in range(500 if ctx.quick else 5000)], "graph")
        # -- coverage-gap streams: (1) the fall-backs taken in an environment without SciPy (SVD null space, basis scans, verdict
        #    None) and the entry points / switches the blocks above never vary (StoichSummary.from_crn flags, derived properties,
        #    has_irreversible_futile_cycles); (2) multigraph classes, nodes / edges outside the species-reaction scheme
        run_nets(ctx, x_nets(ctx.rnd, ctx.quick), "noscipy+extras")
        run_graphs(ctx, [random_graph_case2(ctx.rnd) for _ in range(400 if ctx.quick else 4000)], "graph-multi")
        # -- representation and scale: numbers outside the small alphabet (multi-digit coefficients, conservation laws / fluxes of
        #    large dynamic range, sizes one step beyond the enumerated / random bounds), coefficients given as float / NumPy
        #    scalars / through one-shot iterables, attributes nobody asked for; as fresh stores, as edited stores, as graphs
        run_nets(ctx, [scale_net(ctx.rnd) for _ in range(520 if ctx.quick else 5200)], "scale")
        run_sessions(ctx, [scale_session(ctx.rnd) for _ in range(60 if ctx.quick else 600)], "scale-session")
        run_graphs(ctx, [scale_graph_case(ctx.rnd) for _ in range(140 if ctx.quick else 1400)], "scale-graph")
        # -- non-integral coefficients (multiples of 1/2, 1/4, 1/8) on hand-built graphs: expected matrices / certificates from the
        #    scaled integer graph k * g (inside the Lean models), divided by k here
        run_graphs(ctx, [fractional_graph_case(ctx.rnd) for _ in range(400 if ctx.quick else 4000)], "graph-fractional")
        # -- graphs given by their construction only: arcs either way, overwritten edges, missing roles, untyped nodes; the expected
        #    answer is the Lean model of the graph reading on the add_edge calls
        run_written(ctx, [written_graph_case(ctx.rnd) for _ in range(600 if ctx.quick else 6000)], "graph-written")
    finally:
        close_pool()
    ctx.violations.sort(key=lambda x: bool(x["no_input"]))     # failing inputs first (stable)
    unknown = [v for v in ctx.violations if not v["classes"]]
    ctx.obligation("correspondence: every verdict of the implementation equals the certified exact value (see GATES)", not unknown,
                   "" if not unknown else unknown[0]["what"])


def replay(ctx, case):
    setup(ctx)
    c = case.get("case", case)
    try:
        if "written" in c:
            run_written(ctx, [{"written": c["written"]}], "replay")
        elif "ops" in c:
            run_graphs(ctx, [{k: c[k] for k in ("graph", "ops")}], "replay")
        elif "steps" in c:
            run_sessions(ctx, [c], "replay")
        else:
            run_nets(ctx, [c["net"]], "replay")
    finally:
        close_pool()

"""C17 — stoichiometric analysis agrees with exact linear algebra.

NumPy/SciPy numerics are an external oracle.  For every generated network the harness

1. builds the real `CRNHyperGraph`, reads the store back (species, reactions by id) and
   calls every anchored entry point of `synkit/CRN/Props/stoich.py` (+ `Petri/semiflows.py`,
   `CRNHyperGraph.incidence_matrix`);
2. computes, with exact `fractions.Fraction` arithmetic, *certificates* of the truth: a rank
   certificate (column basis, left inverse, coordinates of all columns), exact bases of both
   kernels with a left-inverse independence certificate, and for conservativity and for
   consistency either a strictly positive kernel vector or the Stiemke/Gordan alternative
   (both found by an exact phase-1 simplex with Bland's rule);
3. sends network + certificates to the Lean driver (`stoich.check`), which rebuilds S with the
   model of `build_S` and *checks* every certificate with the checkers proved sound in
   `SynKitProofs/Props/C17.lean` — a certificate that does not check is an infrastructure
   failure of the harness, never a verdict;
4. compares every verdict of the implementation with the certified truth (gates listed in
   `GATES`).  Float vectors never cross the protocol: annihilation / positivity of the numeric
   bases and witnesses is tested here with a stated tolerance and counted.

The modelled decision logic (`stoich.logic`) is run on the observed oracle outcomes
(kernel sizes, sign-definite columns, LP status) and its agreement with the implementation is
recorded in the counters (not gated: `None` versus `False` is not fixed by the property).
"""
import itertools
import json
import math
from fractions import Fraction as Fr

from ..core import ROOT, Infra, build_and_audit

THEOREMS = [
    "SynKit.Stoich.buildS_entry",
    "SynKit.Stoich.buildS_shape",
    "SynKit.Stoich.buildS_orders",
    "SynKit.Stoich.checkRank_sound",
    "SynKit.Stoich.kernel_dims",
    "SynKit.Stoich.checkKernelBasis_sound",
    "SynKit.Stoich.kernelBasis_spans",
    "SynKit.Stoich.checkPositive_sound",
    "SynKit.Stoich.stiemke_easy",
    "SynKit.Stoich.stiemke_easy_left",
    "SynKit.Stoich.checkAlternative_sound",
    "SynKit.Stoich.conservative_cert_sound",
    "SynKit.Stoich.not_conservative_cert_sound",
    "SynKit.Stoich.consistent_cert_sound",
    "SynKit.Stoich.not_consistent_cert_sound",
    "SynKit.Stoich.conservative_logic",
    "SynKit.Stoich.conservative_logic_outside_lp",
    "SynKit.Stoich.conservative_unbounded_witness",
    "SynKit.Stoich.conservative_lp_stage_never_true",
    "SynKit.Stoich.consistent_logic",
    "SynKit.Stoich.consistent_logic_iff",
    "SynKit.Stoich.C17.full",
]

EPS = 1e-8          # the implementation's default margin
TOL = 1e-9          # tolerance of the numeric annihilation / witness tests (relative to the vector norm)

GATES = ("S entries = produced - consumed (rows by returned species label, columns as a multiset with their rule label), for the store and for "
         "its exported bipartite view; "
         "S = S_plus - S_minus with S_minus/S_plus the consumed/produced counts; S equals the store's incidence_matrix up to "
         "column order; stoichiometric_rank and summary.rank = certified rank; kernel bases (left/right_nullspace, "
         "left_right_kernels, find_p/t_semiflows) have n_species-rank / n_reactions-rank columns, are numerically independent and "
         "annihilate S within 1e-9 relative to the vector norm; summary dimensions; is_conservative / compute_conservativity / "
         "summary.is_conservative is True <=> a checked strictly positive left-kernel vector exists; returned conservation law is "
         "positive and annihilates S (numerically); is_consistent / summary.is_consistent is True <=> a checked strictly positive "
         "right-kernel vector exists.")


# =============================================================== exact linear algebra
def rref(M, ncols):
    """Reduced row echelon form of the Fraction matrix M (list of rows) together with the
    transformation E (R = E M).  -> (R, E, pivot column list)."""
    m = len(M)
    R = [list(r) for r in M]
    E = [[Fr(int(i == j)) for j in range(m)] for i in range(m)]
    piv = []
    row = 0
    for c in range(ncols):
        p = next((i for i in range(row, m) if R[i][c] != 0), None)
        if p is None:
            continue
        R[row], R[p] = R[p], R[row]
        E[row], E[p] = E[p], E[row]
        inv = 1 / R[row][c]
        R[row] = [x * inv for x in R[row]]
        E[row] = [x * inv for x in E[row]]
        for i in range(m):
            if i != row and R[i][c] != 0:
                f = R[i][c]
                R[i] = [a - f * b for a, b in zip(R[i], R[row])]
                E[i] = [a - f * b for a, b in zip(E[i], E[row])]
        piv.append(c)
        row += 1
        if row == m:
            break
    return R, E, piv


def rank_certificate(S, m, n):
    R, E, piv = rref(S, n)
    r = len(piv)
    return {"cols": piv, "L": [E[i] for i in range(r)], "C": [R[i] for i in range(r)]}


def kernel_certificate(A, rows, cols):
    """Exact basis of {x : A x = 0} (A is rows x cols) + left inverse of the basis matrix."""
    R, _, piv = rref(A, cols)
    free = [c for c in range(cols) if c not in piv]
    B = []
    for f in free:
        v = [Fr(0)] * cols
        v[f] = Fr(1)
        for i, pc in enumerate(piv):
            v[pc] = -R[i][f]
        B.append(v)
    L = [[Fr(int(c == f)) for c in range(cols)] for f in free]
    return {"r": len(piv), "B": B, "L": L}


def feasible(A, b):
    """Exact phase-1 simplex (Bland's rule): some z >= 0 with A z = b, or None."""
    p = len(A)
    q = len(A[0]) if p else 0
    if p == 0:
        return [Fr(0)] * q
    T = []
    for i in range(p):
        sgn = -1 if b[i] < 0 else 1
        T.append([sgn * x for x in A[i]] + [Fr(int(i == k)) for k in range(p)] + [sgn * b[i]])
    basis = [q + i for i in range(p)]
    while True:
        # reduced costs of the structural columns for the objective "sum of artificials"
        enter = None
        for j in range(q):
            d = -sum(T[i][j] for i in range(p) if basis[i] >= q)
            if d < 0 and j not in basis:
                enter = j
                break
        if enter is None:
            break
        best = None
        for i in range(p):
            if T[i][enter] > 0:
                ratio = T[i][-1] / T[i][enter]
                if best is None or ratio < best[0] or (ratio == best[0] and basis[i] < basis[best[1]]):
                    best = (ratio, i)
        if best is None:  # cannot happen: the phase-1 objective is bounded below
            raise Infra("phase-1 simplex: unbounded ray")
        i0 = best[1]
        pv = T[i0][enter]
        T[i0] = [x / pv for x in T[i0]]
        for i in range(p):
            if i != i0 and T[i][enter] != 0:
                f = T[i][enter]
                T[i] = [a - f * c for a, c in zip(T[i], T[i0])]
        basis[i0] = enter
    if any(basis[i] >= q and T[i][-1] != 0 for i in range(p)):
        return None
    z = [Fr(0)] * q
    for i in range(p):
        if basis[i] < q:
            z[basis[i]] = T[i][-1]
    return z


def positive_kernel_or_alternative(A, rows, cols):
    """For A (rows x cols): ('pos', x) with x > 0, A x = 0, or ('alt', y) with y^T A >= 0, != 0."""
    if cols == 0:
        raise Infra("no columns")
    ones = [Fr(1)] * cols
    b = [-sum(A[i]) for i in range(rows)]
    z = feasible([list(r) for r in A], b) if rows else [Fr(0)] * cols
    pos = [1 + t for t in z] if z is not None else None
    # alternative: A^T y - s = 0, (1^T A^T) y = 1, y free (split), s >= 0
    eqs, rhs = [], []
    for j in range(cols):
        col = [A[i][j] for i in range(rows)]
        eqs.append(col + [-x for x in col] + [Fr(-int(k == j)) for k in range(cols)])
        rhs.append(Fr(0))
    tot = [sum(A[i][j] for j in range(cols)) for i in range(rows)]
    eqs.append(tot + [-x for x in tot] + [Fr(0)] * cols)
    rhs.append(Fr(1))
    w = feasible(eqs, rhs)
    alt = [w[i] - w[rows + i] for i in range(rows)] if w is not None else None
    if (pos is None) == (alt is None):
        raise Infra(f"exact solver: expected exactly one of positive vector / alternative, got pos={pos} alt={alt} for A={A}")
    return ("pos", pos) if pos is not None else ("alt", alt)


def q(x):
    return [x.numerator, x.denominator]


def qv(v):
    return [q(x) for x in v]


def qm(M):
    return [qv(r) for r in M]


# =============================================================== networks
def build_net(net):
    """net = {"rxns": [{"r": [[s,c]..], "p": [[s,c]..], "rule": str|None, "eid": str|None}], "isolated": [s..]}"""
    from synkit.CRN.Hypergraph.hypergraph import CRNHyperGraph

    H = CRNHyperGraph()
    for rx in net["rxns"]:
        try:
            H.add_rxn({s: c for s, c in rx["r"]}, {s: c for s, c in rx["p"]}, rule=rx.get("rule"), edge_id=rx.get("eid"))
        except KeyError:   # explicit id already taken by a generated one: let the store choose
            H.add_rxn({s: c for s, c in rx["r"]}, {s: c for s, c in rx["p"]}, rule=rx.get("rule"))
    for s in net.get("isolated", []):
        if s in H.species:
            continue
        # a species that stays in the store without any reaction: add a helper reaction, strip the
        # species with prune_orphans=False, remove the helper
        e = H.add_rxn({s: 1}, {"__tmp": 1}, rule="tmp")
        H.remove_species(s, prune_orphans=False)
        H.remove_rxn(e.id)
    return H


def store_dump(H):
    edges = [{"id": k, "rule": e.rule, "r": [[s, int(c)] for s, c in e.reactants.items()],
              "p": [[s, int(c)] for s, c in e.products.items()]} for k, e in H.edges.items()]
    return {"species": sorted(H.species), "edges": edges}


def spec_S(dump):
    """produced - consumed, rows by sorted species label, one column per reaction (as stored)."""
    sp = dump["species"]
    cols = []
    # presentation order of the columns = the model's (by id, then stably by rule); every gate below is
    # order-independent, the order only fixes how certificates are indexed (checked against the driver's `ids`)
    for e in sorted(sorted(dump["edges"], key=lambda e: e["id"]), key=lambda e: e["rule"]):
        r, p = dict(map(tuple, e["r"])), dict(map(tuple, e["p"]))
        cols.append((e["rule"], tuple(p.get(s, 0) - r.get(s, 0) for s in sp),
                     tuple(r.get(s, 0) for s in sp), tuple(p.get(s, 0) for s in sp), e["id"]))
    return sp, cols


class _LinprogRecorder:
    """Pass-through wrapper around `stoich.linprog` that records every call's outcome."""

    def __init__(self, real):
        self.real = real
        self.calls = []

    def __call__(self, c, **kw):
        try:
            res = self.real(c, **kw)
        except Exception:
            self.calls.append({"kind": "ub" if kw.get("A_ub") is not None else "eq", "exc": True})
            raise
        self.calls.append({"kind": "ub" if kw.get("A_ub") is not None else "eq", "exc": False, "status": int(res.status),
                           "success": bool(res.success), "x": None if res.x is None else [float(t) for t in res.x]})
        return res


def as_int_matrix(M):
    import numpy as np

    M = np.asarray(M)
    R = np.rint(M)
    exact = bool(np.all(R == M))
    return [[int(x) for x in row] for row in R.tolist()], exact


def basis_report(B, S, side, nrows):
    """Numeric report on a kernel basis: shape, worst relative residual, independence."""
    import numpy as np

    B = np.asarray(B, dtype=float)
    if B.ndim != 2:
        return {"shape": list(B.shape), "bad_shape": True}
    rep = {"shape": list(B.shape), "bad_shape": B.shape[0] != nrows, "worst": 0.0, "independent": True}
    if rep["bad_shape"] or B.shape[1] == 0:
        return rep
    worst = 0.0
    for k in range(B.shape[1]):
        b = B[:, k]
        res = (b @ S) if side == "left" else (S @ b)
        nb = float(np.linalg.norm(b))
        worst = max(worst, float(np.max(np.abs(res))) / nb if nb > 0 else float("inf"))
    rep["worst"] = worst
    sv = np.linalg.svd(B, compute_uv=False)
    rep["independent"] = bool(sv.min() > 1e-6 * max(1.0, sv.max()))
    rep["signdef"] = [bool(np.all(B[:, k] > EPS) or np.all(B[:, k] < -EPS)) for k in range(B.shape[1])]
    return rep


def observe(net):
    """Run the implementation on one network.  Everything returned is JSON-able and float-free
    except the recorded residual magnitudes (which stay in Python)."""
    import numpy as np
    from synkit.CRN.Props import stoich
    from synkit.CRN.Petri import semiflows

    H = build_net(net)
    dump = store_dump(H)
    out = {"dump": dump}
    try:
        sp, rules, S = stoich.build_S(H)
    except ValueError:
        out["error"] = "ValueError"
        return out
    sp2, rules2, Sm, Sp = stoich.build_S_minus_plus(H)
    Si, exact = as_int_matrix(S)
    Smi, e1 = as_int_matrix(Sm)
    Spi, e2 = as_int_matrix(Sp)
    out.update(species=[str(s) for s in sp], rules=[str(r) for r in rules], S=Si, S_minus=Smi, S_plus=Spi,
               integral=exact and e1 and e2, same_orders=(list(sp) == list(sp2) and list(rules) == list(rules2)),
               shape=list(np.asarray(S).shape))
    Sf = np.array(Si, dtype=float).reshape(len(sp), len(rules))
    # the same network handed over as its exported bipartite view (string node ids)
    from synkit.CRN.Hypergraph.conversion import hypergraph_to_bipartite
    spv, rulesv, Sv = stoich.build_S(hypergraph_to_bipartite(H))
    Svi, ev = as_int_matrix(Sv)
    out["view"] = {"species": [str(x) for x in spv], "rules": [str(x) for x in rulesv], "S": Svi, "integral": ev}
    so, eo, inc = H.incidence_matrix(sparse=False)
    out["inc"] = {"species": list(so), "edges": list(eo), "M": [[int(x) for x in row] for row in np.asarray(inc).tolist()]}
    so_s, eo_s, mp = H.incidence_matrix(sparse=True)
    out["inc_sparse"] = sorted([s, e, int(v)] for (s, e), v in mp.items() if v != 0)
    out["stoichiometric_matrix_same"] = bool(np.array_equal(stoich.stoichiometric_matrix(H), S))
    out["rank"] = int(stoich.stoichiometric_rank(H))
    Lb = stoich.left_nullspace(H)
    Rb = stoich.right_nullspace(H)
    out["left"] = basis_report(Lb, Sf, "left", len(sp))
    out["right"] = basis_report(Rb, Sf, "right", len(rules))
    L2, R2 = stoich.left_right_kernels(H)
    out["left_right_kernels"] = [basis_report(L2, Sf, "left", len(sp)), basis_report(R2, Sf, "right", len(rules))]
    out["p_semiflows"] = basis_report(semiflows.find_p_semiflows(H), Sf, "left", len(sp))
    out["t_semiflows"] = basis_report(semiflows.find_t_semiflows(H), Sf, "right", len(rules))
    laws = stoich.integer_conservation_laws(H)
    out["int_laws"] = {"n": len(laws), "exact": sum(1 for l in laws if len(l) == len(sp) and any(l) and
                                                      all(sum(l[i] * Si[i][j] for i in range(len(sp))) == 0 for j in range(len(rules))))}
    real = stoich.linprog
    rec = _LinprogRecorder(real)
    stoich.linprog = rec
    try:
        out["is_conservative"] = stoich.is_conservative(H)
        n0 = len(rec.calls)
        flag, mw = stoich.compute_conservativity(H)
        n1 = len(rec.calls)
        out["is_consistent"] = stoich.is_consistent(H)
        n2 = len(rec.calls)
        sm = stoich.summary(H)
    finally:
        stoich.linprog = real
    out["compute_flag"] = flag
    if mw is None:
        out["witness"] = None
    else:
        mw = np.asarray(mw, dtype=float)
        nm = float(np.linalg.norm(mw))
        out["witness"] = {"len": int(mw.size), "positive": bool(mw.size == len(sp) and np.all(mw > 0)),
                          "residual": (float(np.max(np.abs(mw @ Sf))) / nm) if (mw.size == len(sp) and nm > 0) else float("inf")}
    out["summary"] = {k: (v if v is None or isinstance(v, bool) else int(v)) for k, v in sm.to_dict().items()}
    # ---- oracle observations for the modelled decision logic
    B = np.atleast_2d(Lb)
    k = B.shape[1] if B.size else 0
    lp_calls = [c for c in rec.calls[:n0] if c["kind"] == "ub"]
    lp = "failed"
    if lp_calls:
        c = lp_calls[-1]
        if c["exc"]:
            lp = "failed"
        elif c["success"] and c["x"] is not None:
            mm = B @ np.array(c["x"], dtype=float)
            lp = "optimalStrict" if bool(np.all(mm > EPS)) else "optimalNotStrict"
        elif c["status"] == 2:
            lp = "infeasible"
        elif c["status"] == 3:
            lp = "unbounded"
    eq_calls = [c for c in rec.calls[n1:n2] if c["kind"] == "eq"]
    clp = {"kind": "other"}
    if eq_calls:
        c = eq_calls[-1]
        if not c["exc"] and c["success"]:
            v = np.array(c["x"], dtype=float)
            residual = Sf @ v
            max_v = float(np.max(np.abs(v))) or 1.0
            clp = {"kind": "optimal", "residualOk": bool(np.linalg.norm(residual, ord=np.inf) / max_v <= 1e-8),
                   "vPos": bool(np.all(v > EPS))}
        elif not c["exc"] and c["status"] == 2:
            clp = {"kind": "infeasible"}
    RB = np.atleast_2d(Rb)
    rk = RB.shape[1] if RB.size else 0
    out["oracle"] = {"nSpecies": len(sp), "nReactions": len(rules), "scipy": bool(stoich._SCIPY_AVAILABLE), "lk": int(k),
                     "lscan": out["left"].get("signdef", [])[:k] if k else [], "lp": lp, "lp_called": bool(lp_calls),
                     "rk": int(rk), "rscan": out["right"].get("signdef", [])[:rk] if rk else [], "clp": clp,
                     "clp_status": eq_calls[-1].get("status") if eq_calls else None}
    return out


def certificates(dump):
    """Exact certificates for the specification matrix of the stored network."""
    sp, cols = spec_S(dump)
    m, n = len(sp), len(cols)
    S = [[Fr(cols[j][1][i]) for j in range(n)] for i in range(m)]
    ST = [[S[i][j] for i in range(m)] for j in range(n)]
    cert = {"rank": rank_certificate(S, m, n), "rker": kernel_certificate(S, m, n), "lker": kernel_certificate(ST, n, m)}
    cert["cons"] = positive_kernel_or_alternative(ST, n, m)
    cert["consi"] = positive_kernel_or_alternative(S, m, n)
    return cert


def work(net):
    """Worker: observation + certificates + the driver request."""
    try:
        obs = observe(net)
    except Exception as e:  # the implementation raised on a well-formed network: a verdict, not an infrastructure failure
        import traceback
        obs = {"dump": store_dump(build_net(net)), "crash": f"{type(e).__name__}: {e}", "trace": traceback.format_exc()[-1500:]}
    req = {"cmd": "stoich.check", "species": obs["dump"]["species"], "edges": obs["dump"]["edges"]}
    cert = None
    if obs["dump"]["species"] and obs["dump"]["edges"]:
        cert = certificates(obs["dump"])
        req["rank"] = {"cols": cert["rank"]["cols"], "L": qm(cert["rank"]["L"]), "C": qm(cert["rank"]["C"])}
        req["rker"] = {"r": cert["rker"]["r"], "B": qm(cert["rker"]["B"]), "L": qm(cert["rker"]["L"])}
        req["lker"] = {"r": cert["lker"]["r"], "B": qm(cert["lker"]["B"]), "L": qm(cert["lker"]["L"])}
        req["cons"] = {"kind": cert["cons"][0], "vec": qv(cert["cons"][1])}
        req["consi"] = {"kind": cert["consi"][0], "vec": qv(cert["consi"][1])}
        cert = {"r": len(cert["rank"]["cols"]), "cons": cert["cons"][0], "consi": cert["consi"][0]}
    lreq = None
    if "oracle" in obs:
        o = obs["oracle"]
        lreq = {"cmd": "stoich.logic", **{k: o[k] for k in ("nSpecies", "nReactions", "scipy", "lk", "lscan", "lp", "rk", "rscan", "clp")}}
    return obs, cert, req, lreq


# =============================================================== comparison
def col_multiset(species, rules, M):
    """Columns as (rule, sorted non-zero (species, value) pairs), sorted."""
    out = []
    for j in range(len(rules)):
        out.append((rules[j], tuple((species[i], M[i][j]) for i in range(len(species)))))
    return sorted(out)


def judge(obs, cert, lean):
    """-> list of (what, detail, classes). Empty when every gate holds."""
    v = []
    dump = obs["dump"]
    if "crash" in obs:
        return [("an anchored entry point raised on a well-formed network: " + obs["crash"].split(":")[0], {"error": obs["crash"], "trace": obs["trace"]}, ())]
    if "error" in obs and dump["species"] and dump["edges"]:
        return [("build_S raised " + obs["error"] + " on a network that has species and reactions", {}, ())]
    if "error" in obs or cert is None:
        return v
    sp, cols = spec_S(dump)
    m, n = len(sp), len(cols)
    r = cert["r"]
    # -- certificates must check (otherwise the harness is wrong, not the implementation)
    for key in ("rankOk", "rkerOk", "lkerOk"):
        if lean.get(key) is not True and lean["ids"] == [c[4] for c in cols]:
            raise Infra(f"certificate {key} rejected by the Lean checker for {json.dumps(dump)}")
    for key in ("cons", "consi"):
        if lean[key]["ok"] is not True or lean[key]["kind"] != cert[key]:
            raise Infra(f"certificate {key} rejected by the Lean checker for {json.dumps(dump)}")
    if lean["ids"] != [c[4] for c in cols] or lean["species"] != sp:
        raise Infra(f"harness and model disagree on the presentation order of S for {json.dumps(dump)}")
    if lean["r"] != r or lean["incidenceAgrees"] is not True:
        raise Infra("model: rank certificate size / incidence agreement")
    conservative = cert["cons"] == "pos"
    consistent = cert["consi"] == "pos"
    # -- S
    if not obs["integral"] or obs["shape"] != [m, n] or not obs["same_orders"] or not obs["stoichiometric_matrix_same"]:
        v.append(("build_S: matrix is not an integral n_species x n_reactions array shared by build_S / build_S_minus_plus / stoichiometric_matrix",
                  {"shape": obs["shape"], "expected": [m, n]}, ()))
        return v
    if sorted(obs["species"]) != sp or len(set(obs["species"])) != len(obs["species"]):
        v.append(("build_S: rows are not one per species", {"impl": obs["species"], "spec": sp}, ()))
        return v
    want = sorted((c[0], tuple((s, x) for s, x in zip(sp, c[1]))) for c in cols)
    ridx = [obs["species"].index(s) for s in sp]
    got = col_multiset(sp, obs["rules"], [obs["S"][i] for i in ridx])
    if got != want:
        v.append(("build_S: entries differ from produced minus consumed", {"impl": got, "spec": want}, ()))
    want_m = sorted((c[0], tuple((s, x) for s, x in zip(sp, c[2]))) for c in cols)
    want_p = sorted((c[0], tuple((s, x) for s, x in zip(sp, c[3]))) for c in cols)
    if col_multiset(sp, obs["rules"], [obs["S_minus"][i] for i in ridx]) != want_m or \
            col_multiset(sp, obs["rules"], [obs["S_plus"][i] for i in ridx]) != want_p:
        v.append(("build_S_minus_plus: S_minus / S_plus differ from the consumed / produced counts", {}, ()))
    if any(obs["S"][i][j] != obs["S_plus"][i][j] - obs["S_minus"][i][j] for i in range(m) for j in range(n)):
        v.append(("build_S: S differs from S_plus - S_minus", {}, ()))
    vw = obs["view"]
    if not vw["integral"] or sorted(vw["species"]) != sp or \
            col_multiset(sp, vw["rules"], [vw["S"][vw["species"].index(x)] for x in sp]) != want:
        v.append(("build_S on the exported bipartite view of the network differs from produced minus consumed", {"impl": vw}, ()))
    inc = obs["inc"]
    if sorted(inc["species"]) != sp:
        v.append(("incidence_matrix rows are not the species", {"impl": inc["species"]}, ()))
    else:
        iidx = [inc["species"].index(s) for s in sp]
        a = sorted(tuple(inc["M"][i][j] for i in iidx) for j in range(len(inc["edges"])))
        b = sorted(tuple(obs["S"][i][j] for i in ridx) for j in range(n))
        if a != b:
            v.append(("build_S disagrees with the network's own incidence_matrix (columns compared as a multiset)",
                      {"incidence": a, "build_S": b}, ()))
    dense = sorted([inc["species"][i], inc["edges"][j], inc["M"][i][j]] for i in range(len(inc["species"]))
                   for j in range(len(inc["edges"])) if inc["M"][i][j] != 0)
    if dense != obs["inc_sparse"]:
        v.append(("incidence_matrix: sparse mapping and dense matrix differ", {"sparse": obs["inc_sparse"], "dense": dense}, ()))
    if v:
        return v
    # -- rank and dimensions
    if obs["rank"] != r:
        v.append(("stoichiometric_rank differs from the certified exact rank", {"impl": obs["rank"], "exact": r}, ()))
    s = obs["summary"]
    if (s["n_species"], s["n_reactions"], s["rank"], s["dim_left_kernel"], s["dim_right_kernel"]) != (m, n, r, m - r, n - r):
        v.append(("summary: counts / rank / kernel dimensions differ from the certified values",
                  {"impl": s, "exact": {"n_species": m, "n_reactions": n, "rank": r}}, ()))
    for name, rep, rows, dim in [("left_nullspace", obs["left"], m, m - r), ("right_nullspace", obs["right"], n, n - r),
                                 ("left_right_kernels[0]", obs["left_right_kernels"][0], m, m - r),
                                 ("left_right_kernels[1]", obs["left_right_kernels"][1], n, n - r),
                                 ("find_p_semiflows", obs["p_semiflows"], m, m - r), ("find_t_semiflows", obs["t_semiflows"], n, n - r)]:
        if rep["bad_shape"] or rep["shape"][1] != dim:
            v.append((f"{name}: basis has the wrong dimension", {"shape": rep["shape"], "expected": [rows, dim]}, ()))
        elif rep["worst"] > TOL:
            v.append((f"{name}: a basis vector does not annihilate S (relative residual > 1e-9)", {"worst": rep["worst"]}, ()))
        elif not rep["independent"]:
            v.append((f"{name}: reported vectors are numerically dependent", {"shape": rep["shape"]}, ()))
    # -- conservativity
    lk = obs["oracle"]["lk"]
    lp_stage = lk >= 2 and not any(obs["oracle"]["lscan"])
    for name, verdict in [("is_conservative", obs["is_conservative"]), ("compute_conservativity", obs["compute_flag"]),
                          ("summary.is_conservative", s["is_conservative"])]:
        if (verdict is True) != conservative:
            cls = ["lp_stage"] if (lp_stage and verdict is False and conservative) else []
            v.append((f"{name} = {verdict} but a strictly positive conservation law "
                      + ("exists (checked certificate)" if conservative else "does not exist (checked Stiemke alternative)"),
                      {"verdict": verdict, "certificate": cert["cons"], "left_kernel_dim": lk, "sign_definite_columns": obs["oracle"]["lscan"],
                       "lp": obs["oracle"]["lp"]}, cls))
    w = obs["witness"]
    if w is not None and not (w["positive"] and w["residual"] <= TOL):
        v.append(("compute_conservativity returned a vector that is not a strictly positive conservation law", w, ()))
    # -- consistency
    for name, verdict in [("is_consistent", obs["is_consistent"]), ("summary.is_consistent", s["is_consistent"])]:
        if (verdict is True) != consistent:
            v.append((f"{name} = {verdict} but a strictly positive steady flux "
                      + ("exists (checked certificate)" if consistent else "does not exist (checked Stiemke alternative)"),
                      {"verdict": verdict, "certificate": cert["consi"], "lp": obs["oracle"]["clp"], "lp_status": obs["oracle"]["clp_status"]}, ()))
    return v


def tri(x):
    return x if x is None else bool(x)


def record(ctx, net, obs, cert, lean, logic, tag):
    """Counters describing the population and the (non-gated) agreement with the model."""
    dump = obs["dump"]
    if "crash" in obs:
        ctx.count("implementation_raised")
        ctx.case(["crash", dump], False)
        return
    if "error" in obs:
        ctx.count("malformed:" + obs["error"])
        ctx.count("model_error_agrees" if lean.get("error") == obs["error"] else "model_error_differs")
        ctx.case(["err", dump], False)
        return
    if cert is None or "error" in lean:
        ctx.count("model_error_differs")
        ctx.case(["err", dump], False)
        return
    m, n, r = len(dump["species"]), len(dump["edges"]), cert["r"]
    ctx.count(f"{tag}:cases")
    ctx.count("conservative:" + ("yes" if cert["cons"] == "pos" else "no"))
    ctx.count("consistent:" + ("yes" if cert["consi"] == "pos" else "no"))
    ctx.count(f"split:{'cons' if cert['cons'] == 'pos' else 'noncons'}+{'consi' if cert['consi'] == 'pos' else 'nonconsi'}")
    ctx.count(f"left_kernel_dim:{min(m - r, 3)}{'+' if m - r >= 3 else ''}")
    ctx.count(f"right_kernel_dim:{min(n - r, 3)}{'+' if n - r >= 3 else ''}")
    ctx.count("verdict:is_conservative=" + str(obs["is_conservative"]))
    ctx.count("verdict:is_consistent=" + str(obs["is_consistent"]))
    o = obs["oracle"]
    if o["lp_called"]:
        ctx.count("conservativity_lp:" + o["lp"])
    ctx.count("consistency_lp:" + o["clp"]["kind"])
    if obs["witness"] is not None:
        ctx.count("witness_returned")
    if obs["int_laws"]["n"]:
        ctx.count("integer_laws:reported", obs["int_laws"]["n"])
        ctx.count("integer_laws:exactly_annihilating", obs["int_laws"]["exact"])
    # model of build_S, exact order (recorded, not gated: the property does not fix the column order)
    same = lean["species"] == obs["species"] and lean["rules"] == obs["rules"] and lean["S"] == obs["S"]
    ctx.count("build_S_equals_model_incl_order" if same else "build_S_differs_from_model_order")
    if not same and len(ctx.extra.setdefault("model_order_divergences", [])) < 3:
        ctx.extra["model_order_divergences"].append({"net": net, "impl": [obs["species"], obs["rules"], obs["S"]],
                                                     "model": [lean["species"], lean["rules"], lean["S"]]})
    # model of the decision logic on the observed oracle outcomes (recorded, not gated)
    if logic is not None:
        pairs = [("is_conservative", tri(obs["is_conservative"])), ("compute_flag", tri(obs["compute_flag"])),
                 ("is_consistent", tri(obs["is_consistent"]))]
        diff = [k for k, val in pairs if logic[k] != val]
        if (obs["witness"] is None) != (logic["compute_witness"] == "none"):
            diff.append("compute_witness")
        if logic["lp_attempted"] != o["lp_called"]:
            diff.append("lp_attempted")
        ctx.count("decision_logic_equals_model" if not diff else "decision_logic_differs_from_model")
        for k in diff:
            ctx.count("decision_logic_differs:" + k)
        if diff and len(ctx.extra.setdefault("logic_divergences", [])) < 3:
            ctx.extra["logic_divergences"].append({"net": net, "fields": diff, "oracle": o, "model": logic,
                                                   "impl": {k: val for k, val in pairs}})
    nontrivial = n >= 1 and r >= 1
    ctx.case(dump, nontrivial, sample={"stream": tag, "net": net, "rank": r, "conservative": cert["cons"] == "pos",
                                       "consistent": cert["consi"] == "pos"} if n <= 3 else None)


_POOL = None


def pool():
    global _POOL
    if _POOL is None:
        import multiprocessing as mp
        import os

        _POOL = mp.get_context("fork").Pool(min(12, max(2, (os.cpu_count() or 4) - 2)))
    return _POOL


def close_pool():
    global _POOL
    if _POOL is not None:
        _POOL.close()
        _POOL.join()
        _POOL = None


def evaluate(ctx, nets, parallel=True):
    """-> list of (net, obs, cert, lean, logic)."""
    if parallel and len(nets) >= 64:
        rows = pool().map(work, nets, chunksize=max(1, min(200, len(nets) // 64)))
    else:
        rows = [work(n) for n in nets]
    leans = ctx.lean().ok([r[2] for r in rows], shards=8)
    lidx = [i for i, r in enumerate(rows) if r[3] is not None]
    logics = dict(zip(lidx, ctx.lean().ok([rows[i][3] for i in lidx], shards=8)))
    return [(net, r[0], r[1], lean, logics.get(i)) for i, (net, r, lean) in enumerate(zip(nets, rows, leans))]


def shrink_net(ctx, net, what):
    """Greedy: drop reactions / isolated species, lower coefficients, while the same gate fails."""
    def fails(cand):
        if not cand["rxns"]:
            return False
        try:
            (_, obs, cert, lean, _), = evaluate(ctx, [cand], parallel=False)
            return any(w == what for w, _, _ in judge(obs, cert, lean))
        except Exception:
            return False

    cur = json.loads(json.dumps(net))
    budget = 150
    changed = True
    while changed and budget > 0:
        changed = False
        cands = []
        for i in range(len(cur["rxns"])):
            c = json.loads(json.dumps(cur)); del c["rxns"][i]; cands.append(c)
        for i in range(len(cur.get("isolated", []))):
            c = json.loads(json.dumps(cur)); del c["isolated"][i]; cands.append(c)
        for i, rx in enumerate(cur["rxns"]):
            for side in ("r", "p"):
                for k in range(len(rx[side])):
                    c = json.loads(json.dumps(cur))
                    if c["rxns"][i][side][k][1] > 1:
                        c["rxns"][i][side][k][1] -= 1
                    else:
                        del c["rxns"][i][side][k]
                    if c["rxns"][i]["r"] or c["rxns"][i]["p"]:
                        cands.append(c)
        for c in cands:
            budget -= 1
            if budget <= 0:
                break
            if fails(c):
                cur = c
                changed = True
                break
    return cur


def run_nets(ctx, nets, tag, chunk=6000):
    unknown = 0
    for a in range(0, len(nets), chunk):
        for net, obs, cert, lean, logic in evaluate(ctx, nets[a:a + chunk]):
            record(ctx, net, obs, cert, lean, logic, tag)
            for what, detail, classes in judge(obs, cert, lean):
                if classes:
                    # classified (known) hits are numerous: keep the first few hundred as cases, count the rest
                    if sum(1 for x in ctx.violations if x["classes"]) < 300:
                        ctx.violation(what, {"net": net}, {**detail, "stream": tag}, classes=classes)
                    ctx.count("classified_hits:" + ",".join(classes))
                    continue
                unknown += 1
                if unknown <= 4:
                    small = shrink_net(ctx, net, what)
                    ctx.violation(what, {"net": small}, {**detail, "stream": tag, "original": net})
                elif unknown <= 40:
                    ctx.violation(what, {"net": net}, {**detail, "stream": tag})
        if unknown > 40:
            break


# =============================================================== generators
def rx(r, p, rule=None, eid=None):
    return {"r": [[s, c] for s, c in r if c > 0], "p": [[s, c] for s, c in p if c > 0], "rule": rule, "eid": eid}


def exhaustive_reactions():
    out = []
    for coeffs in itertools.product(range(3), repeat=6):
        if any(coeffs):
            out.append(coeffs)
    return out


def code_to_rx(c):
    return rx(list(zip("ABC", c[:3])), list(zip("ABC", c[3:])))


SPECIES_POOLS = [list("ABCDEFG"), ["S1", "S10", "S2", "a", "Z", "ab", "B"], ["X", "Y", "Z", "W", "V", "U", "T"]]
RULES = [None, None, "r", "a", "b", "R1", "z", ""]
IDS = ["z9", "a0", "r_1", "r_2", "b_7", "R1_1", "m", "k1", "r_10"]


def random_net(rnd):
    pool_ = rnd.choice(SPECIES_POOLS)
    ns = rnd.randint(1, 7)
    sp = rnd.sample(pool_, ns)
    nr = rnd.randint(1, 6)
    mode = rnd.random()
    rxns = []

    def side(kmax):
        k = rnd.randint(0, min(kmax, ns))
        return [[s, rnd.choice([1, 1, 1, 2, 2, 3])] for s in rnd.sample(sp, k)]

    while len(rxns) < nr:
        c = rnd.random()
        if rxns and c < (0.45 if mode < 0.5 else 0.1):
            b = rnd.choice(rxns)              # reverse of an existing reaction
            r, p = [list(x) for x in b["p"]], [list(x) for x in b["r"]]
        elif rxns and c < 0.55:
            b = rnd.choice(rxns)              # repeated reaction
            r, p = [list(x) for x in b["r"]], [list(x) for x in b["p"]]
        elif c < 0.65 and ns >= 2:
            a, b2 = rnd.sample(sp, 2)         # catalysed step
            cat = rnd.choice(sp)
            r, p = [[a, 1], [cat, 1]] if cat != a else [[a, 2]], [[b2, 1], [cat, 1]] if cat != b2 else [[b2, 2]]
        elif c < 0.75:
            r, p = ([], side(2)) if rnd.random() < 0.5 else (side(2), [])   # source / sink
        else:
            r, p = side(3), side(3)
        if not r and not p:
            continue
        ids = {x["eid"] for x in rxns}
        eid = rnd.choice([i for i in IDS if i not in ids]) if rnd.random() < 0.25 else None
        rxns.append({"r": r, "p": p, "rule": rnd.choice(RULES), "eid": eid})
    net = {"rxns": rxns}
    if rnd.random() < 0.1:
        extra = [s for s in pool_ if s not in sp]
        if extra:
            net["isolated"] = [rnd.choice(extra)]
    return net


def textbook(rnd):
    out = []
    names = list("ABCDEFG")
    for L in range(2, 8):
        ch = names[:L]
        fw = [rx([(ch[i], 1)], [(ch[i + 1], 1)]) for i in range(L - 1)]
        bw = [rx([(ch[i + 1], 1)], [(ch[i], 1)]) for i in range(L - 1)]
        out.append({"rxns": fw})                                              # irreversible chain
        if 2 * (L - 1) <= 6:
            out.append({"rxns": fw + bw})                                     # reversible chain
        if L <= 6 and L >= 3:
            out.append({"rxns": fw + [rx([(ch[-1], 1)], [(ch[0], 1)])]})      # cycle
        if L <= 5:
            out.append({"rxns": [rx([], [(ch[0], 1)])] + fw + [rx([(ch[-1], 1)], [])]})   # open system
        if L <= 4:
            out.append({"rxns": [rx([], [(ch[0], 1)])] + fw})                 # source only
            out.append({"rxns": fw + [rx([(ch[-1], 1)], [])]})                # sink only
    out.append({"rxns": [rx([("C", 1), ("B", 1)], [("F", 1), ("A", 1)])]})                                       # F2 example
    out.append({"rxns": [rx([("A", 2), ("B", 1)], [("C", 1)]), rx([("C", 1), ("D", 1)], [("E", 1)]),
                         rx([("E", 1), ("F", 1)], [("D", 1), ("G", 1)])]})                                       # pinned test network
    out.append({"rxns": [rx([("E", 1), ("S", 1)], [("ES", 1)]), rx([("ES", 1)], [("E", 1), ("S", 1)]),
                         rx([("ES", 1)], [("E", 1), ("P", 1)])]})                                                 # Michaelis-Menten
    out.append({"rxns": [rx([("E", 1), ("S", 1)], [("ES", 1)]), rx([("ES", 1)], [("E", 1), ("S", 1)]),
                         rx([("ES", 1)], [("E", 1), ("P", 1)]), rx([("P", 1)], [("S", 1)])]})                     # closed MM
    out.append({"rxns": [rx([], [("X", 1)]), rx([("X", 2), ("Y", 1)], [("X", 3)]), rx([("X", 1)], [("Y", 1)]),
                         rx([("X", 1)], [])]})                                                                     # Brusselator
    out.append({"rxns": [rx([("A", 2)], [("B", 1)]), rx([("B", 1)], [("A", 2)])]})
    out.append({"rxns": [rx([("A", 1), ("B", 1)], [("C", 2)]), rx([("C", 2)], [("A", 1), ("B", 1)]),
                         rx([("C", 1)], [("D", 1)]), rx([("D", 1)], [("C", 1)])]})
    out.append({"rxns": [rx([("X", 1)], [("X", 2)]), rx([("X", 1), ("Y", 1)], [("Y", 2)]), rx([("Y", 1)], [])]})  # Lotka-Volterra
    out.append({"rxns": [rx([("A", 1)], [("B", 1)], "b", "z9"), rx([("B", 1)], [("C", 1)], "a", "k1"),
                         rx([("C", 1)], [("A", 1)], "a", "a0")]})                                                  # ids / rules reorder columns
    # random variants: scaled / relabelled copies of the families
    for net in list(out):
        if rnd.random() < 0.5:
            k = rnd.choice([2, 3])
            out.append({"rxns": [{**r0, "r": [[s, c * k] for s, c in r0["r"]], "p": [[s, c * k] for s, c in r0["p"]]}
                                 if rnd.random() < 0.5 else r0 for r0 in net["rxns"]]})
    return out


def malformed():
    return [{"rxns": []}, {"rxns": [], "isolated": ["A"]}]


def load_regress():
    d = ROOT / "regress" / "C17"
    return [json.loads(f.read_text()) for f in sorted(d.glob("*.json"))] if d.exists() else []


# =============================================================== entry points
def setup(ctx):
    ctx.trusted = [
        "Lean 4.33 kernel; axioms of the property theorems as listed in obligation_list",
        "NumPy/SciPy (matrix_rank, SVD null space, HiGHS) are oracles: every reported value is compared with an exact certificate "
        "checked by the proven Lean checkers; float bases / witnesses are tested numerically in Python (tolerance 1e-9 relative to the vector norm)",
        "harness exact arithmetic (Fraction Gaussian elimination, phase-1 simplex) only proposes certificates; a wrong certificate is rejected by Lean "
        "(infrastructure failure), it cannot produce a verdict",
        "hand-written model of build_S (SynKitModel/Stoich.lean) tied to /repo by this run; Driver/Stoich.lean JSON codec",
    ]
    ctx.assumptions = [
        "inputs are CRNHyperGraph stores built through add_rxn / remove_species / remove_rxn (species labels and rules are plain strings)",
        "'reported conservative / consistent' means the verdict is True; None where no witness exists does not contradict the property (DESIGN 5a)",
        "the column order of S and the None-versus-False choice of the decision logic are recorded against the model but not gated",
    ]
    ctx.gen_rule = ("regression corpus; ALL single reactions over species A,B,C with coefficients in {0,1,2} (728); unordered pairs of such "
                    "reactions (all 265356 in thorough, a seeded sample of 4000 ordered pairs in quick); textbook families "
                    "(irreversible/reversible chains, cycles, open systems with source/sink, Michaelis-Menten, Brusselator, Lotka-Volterra, "
                    "scaled variants); random networks with <=7 species, <=6 reactions, coefficients <=3 (reversed and repeated reactions, "
                    "catalysts, sources/sinks, rules from a small alphabet incl. '' and None, explicit ids that reorder columns, isolated "
                    "species, labels whose string order differs from numeric order); a two-case malformed stream (no reactions). GATES: " + GATES)
    ctx.nontrivial_rule = "distinct stored network (species + reactions with ids and rules) with at least one reaction and certified rank >= 1"


def run(ctx):
    setup(ctx)
    build_and_audit(ctx, ["SynKitProofs.Props.C17"], "SynKitProofs/Audit/C17.lean", THEOREMS)
    try:
        # fork the workers before NumPy/SciPy are imported in this process (no BLAS threads are inherited)
        import os
        for var in ("OMP_NUM_THREADS", "OPENBLAS_NUM_THREADS", "MKL_NUM_THREADS"):
            os.environ.setdefault(var, "1")
        pool()
        reg = load_regress()
        run_nets(ctx, [c["net"] for c in reg], "regress")
        ctx.count("regress_cases", len(reg))
        run_nets(ctx, malformed(), "malformed")
        rs = exhaustive_reactions()
        run_nets(ctx, [{"rxns": [code_to_rx(c)]} for c in rs], "exhaustive-1")
        ctx.extra["exhaustive_part"] = f"all {len(rs)} single reactions over 3 species with coefficients in {{0,1,2}}"
        if ctx.quick:
            pairs = [(ctx.rnd.choice(rs), ctx.rnd.choice(rs)) for _ in range(4000)]
            ctx.extra["exhaustive"] = False
        else:
            pairs = [(a, b) for i, a in enumerate(rs) for b in rs[i:]]
            ctx.extra["exhaustive"] = True
            ctx.extra["exhaustive_part"] += f"; all {len(pairs)} unordered pairs of them (repetition allowed)"
        run_nets(ctx, [{"rxns": [code_to_rx(a), code_to_rx(b)]} for a, b in pairs], "exhaustive-2")
        run_nets(ctx, textbook(ctx.rnd), "textbook")
        nrand = 4000 if ctx.quick else 40000
        run_nets(ctx, [random_net(ctx.rnd) for _ in range(nrand)], "random")
    finally:
        close_pool()
    unknown = [v for v in ctx.violations if not v["classes"]]
    ctx.obligation("correspondence: every verdict of the implementation equals the certified exact value (see GATES)", not unknown,
                   "" if not unknown else unknown[0]["what"])


def replay(ctx, case):
    setup(ctx)
    try:
        run_nets(ctx, [case.get("case", case)["net"]], "replay")
    finally:
        close_pool()

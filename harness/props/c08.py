"""C08 — graph canonicalisation is faithful and sound; the exact back-end is invariant.

What is compared (implementation = `synkit.Graph.canon_graph.GraphCanonicaliser`, the module
`SynGraph` / `SynRule` import; `synkit/Graph/Canon/canon_graph.py` is a verbatim twin and is run
on a sample too):

(1) faithfulness — every node of the input gets a unique tag attribute `_vid`; the tags found on
    the implementation's canonical graph give the bijection it used; the Lean command
    `spec.isRelabelling` (the predicate of theorem `canonBy_faithful`) decides "the canonical
    graph is the input relabelled by this bijection onto 1..N, every node and edge attribute
    dict preserved, adjacency preserved";
(1b) model agreement — the implementation's pre-digest text `_serialise(canonical graph)`, parsed
    back into values, equals the model's `serialise (canonBy order G)` for the order the
    implementation used (ties `_serialise` — sort keys, tie rule, defaults — and the way the
    canonical graph is built to the model the theorems are about); the digest is
    sha256(text)[:32];
(2) determinism — same object twice; `canon(canon g)` (gated for the exact back-end: equal
    serialisation; recorded for the others);
(3) kernel agreement — sig(x) = sig(y) ⇒ isomorphic on the covered attributes for every
    back-end, and ⇔ for the exact back-end.  Isomorphism is decided by the proven engine
    (`match.iso` on the covered projection) for pairs and by the proven brute-force canonical
    form (`canon.brute`, theorems `canonBrute_invariant` / `canonBrute_sound`) for pools;
(4) exact back-end: isomorphic inputs ⇒ equal canonical graphs on the covered attributes
    (equal `_serialise` text, and `spec.covEq` on a sample);
(5) wrapper equality / hash (`CanonicalGraph`, `SynGraph`, `SynRule`) consistent with (3).
"""
import ast
import hashlib
import itertools
import json

import networkx as nx

from .. import graphio
from ..core import ROOT, build_and_audit, load_known, match_known

THEOREMS = [
    "SynKit.Canon.canonBy_faithful",
    "SynKit.Canon.serialise_inj",
    "SynKit.Canon.signature_sound",
    "SynKit.Canon.signature_sound_digest",
    "SynKit.Canon.canonBrute_faithful",
    "SynKit.Canon.canonBrute_sound",
    "SynKit.Canon.canonBrute_invariant",
    "SynKit.Canon.canonBrute_covEq",
    "SynKit.Canon.valueobject_eq_iff",
    "SynKit.Canon.valueobject_exact_iff",
    "SynKit.Canon.synRule_eq_iff",
    "SynKit.Canon.canonicalGraph_eq_sound",
    "SynKit.Canon.fullStatement_model",
    "SynKit.Canon.spec_isRelabelling_iff",
]

BACKENDS = ["generic", "wl", "morgan", "nauty"]
EXACT = {"nauty"}
NODE_KEYS = ["element", "charge", "aromatic", "hcount"]
EDGE_KEYS = ["order", "standard_order"]
NODE_DEFAULT = {"element": "", "charge": 0, "aromatic": False, "hcount": 0}
EDGE_DEFAULT = {"order": 0, "standard_order": 0}
MAX_VIOL = 6

_canon = {}


def canoniser(be, twin=False):
    key = (be, twin)
    if key not in _canon:
        if twin:
            from synkit.Graph.Canon.canon_graph import GraphCanonicaliser
        else:
            from synkit.Graph.canon_graph import GraphCanonicaliser
        _canon[key] = GraphCanonicaliser(backend=be)
    return _canon[key]


# ------------------------------------------------------------------ graphs
def mk(nodes, edges):
    """nodes: [(id, attrs)], edges: [(u, v, attrs)] in insertion order."""
    g = nx.Graph()
    for n, a in nodes:
        g.add_node(n, **a)
    for u, v, a in edges:
        g.add_edge(u, v, **a)
    return g


def dump(g):
    """JSON-able exact description (insertion order and orientation kept)."""
    return graphio.graph(g)


def undump(j):
    return graphio.to_nx(j)


def atom(el="C", charge=0, aromatic=False, hcount=0, **extra):
    d = {"element": el, "charge": charge, "aromatic": aromatic, "hcount": hcount}
    d.update(extra)
    return d


def relabelled_copy(g, pi, node_order=None, edge_order=None, flips=None):
    """Copy of g with node v renamed pi[v]; nodes inserted in `node_order` (old ids), edges in
    `edge_order` (indices into list(g.edges)), edge k inserted reversed when flips[k]."""
    old_nodes = list(g.nodes)
    old_edges = list(g.edges(data=True))
    node_order = old_nodes if node_order is None else node_order
    edge_order = list(range(len(old_edges))) if edge_order is None else edge_order
    h = nx.Graph()
    for v in node_order:
        h.add_node(pi[v], **dict(g.nodes[v]))
    for k in edge_order:
        u, v, d = old_edges[k]
        if flips and flips[k]:
            u, v = v, u
        h.add_edge(pi[u], pi[v], **dict(d))
    return h


def random_copy(rnd, g):
    n = g.number_of_nodes()
    ids = rnd.sample(range(0, 3 * n + 3), n)
    pi = dict(zip(g.nodes, ids))
    no = list(g.nodes)
    rnd.shuffle(no)
    eo = list(range(g.number_of_edges()))
    rnd.shuffle(eo)
    flips = [rnd.random() < 0.5 for _ in eo]
    return relabelled_copy(g, pi, no, eo, flips)


def cov_view(g):
    """The graph as the signature sees it (encoded for the driver)."""
    return {
        "nodes": [[int(n), {k: graphio.val(d.get(k, NODE_DEFAULT[k])) for k in NODE_KEYS}] for n, d in g.nodes(data=True)],
        "edges": [[int(u), int(v), {k: graphio.val(d.get(k, EDGE_DEFAULT[k])) for k in EDGE_KEYS}] for u, v, d in g.edges(data=True)],
    }


def iso_req(x, y):
    return {"cmd": "match.iso", "host": cov_view(x), "pattern": cov_view(y),
            "node_keys": NODE_KEYS, "edge_keys": EDGE_KEYS, "hcount": False}


# ------------------------------------------------------------------ input classes (known findings)
def input_classes(g):
    cls = []
    # standard_order not determined by order: the exact search labels edges by `order` only
    seen = {}
    for _, _, d in g.edges(data=True):
        o = repr(d.get("order", 0))
        s = d.get("standard_order", 0)
        if o in seen and seen[o] != s:
            cls.append("std_order_not_function_of_order")
            break
        seen.setdefault(o, s)
    for keys, items in ((NODE_KEYS, [d for _, d in g.nodes(data=True)]), (EDGE_KEYS[:1], [d for _, _, d in g.edges(data=True)])):
        for k in keys:
            have = sum(1 for d in items if k in d)
            if 0 < have < len(items):
                cls.append("mixed_missing_attrs")
                break
    return sorted(set(cls))


# ------------------------------------------------------------------ implementation adapter
def parse_ser(text):
    """`_serialise` text -> the structure of Lean's `Ser` (values encoded like graphio.val)."""
    if not (text.startswith("N[") and "]|E[" in text and text.endswith("]")):
        raise ValueError("serialisation frame")
    ns, es = text[2:-1].split("]|E[", 1)
    nodes, edges = [], []
    for item in (ns.split(";") if ns else []):
        n, key = item.split(":", 1)
        nodes.append([int(n), [graphio.val(x) for x in ast.literal_eval(key)]])
    for item in (es.split(";") if es else []):
        i = item.index("):") + 1
        uv = ast.literal_eval(item[:i])
        key = ast.literal_eval(item[i + 1:])
        edges.append([[int(uv[0]), int(uv[1])], [int(key[0][0]), int(key[0][1])], [graphio.val(key[1]), graphio.val(key[2])]])
    return {"nodes": nodes, "edges": edges}


def tagged(g):
    t = g.copy()
    for n in t.nodes:
        t.nodes[n]["_vid"] = n
    return t


class Obs:
    """Everything observed from the implementation for one (graph, back-end).  `deep`: the graph
    is canonicalised with node tags so that the bijection can be read off; otherwise only the
    canonical graph, its serialised text and the signature are taken."""

    def __init__(self, be, g, twin=False, deep=True):
        gc = canoniser(be, twin)
        self.be, self.g, self.deep = be, g, deep
        self.error = None
        self.mapping = None
        try:
            self.sig_plain = gc.canonical_signature(g)
            if not deep:
                self.gt = g
                self.cg = gc._make_canonical_graph(g)
                self.text = gc._serialise(self.cg)
                self.sig = self.sig_plain
                self.onto = onto_1_n(self.cg, g.number_of_nodes())
                return
            self.gt = tagged(g)
            self.cg = gc._make_canonical_graph(self.gt)
            self.text = gc._serialise(self.cg)
            self.sig = gc.canonical_signature(self.gt)
        except Exception as e:  # an exception is an outcome, mapped onto an enum
            self.error = type(e).__name__
            return
        tags = [d.get("_vid") for _, d in self.cg.nodes(data=True)]
        if len(tags) == len(set(map(repr, tags))) and set(map(repr, tags)) == set(map(repr, g.nodes)):
            self.mapping = {d["_vid"]: n for n, d in self.cg.nodes(data=True)}
        self.onto = onto_1_n(self.cg, g.number_of_nodes())


def onto_1_n(cg, n):
    nodes = list(cg.nodes)
    return len(nodes) == n and all(isinstance(v, int) and not isinstance(v, bool) for v in nodes) and set(nodes) == set(range(1, n + 1))


def ids_ok(g):
    return all(isinstance(n, int) and not isinstance(n, bool) and n >= 0 for n in g.nodes)


class Batch:
    def __init__(self, ctx):
        self.ctx, self.reqs, self.handlers = ctx, [], []

    def add(self, req, handler):
        self.reqs.append(req)
        self.handlers.append(handler)

    def run(self):
        while self.reqs:  # handlers may queue follow-up requests
            reqs, hs = self.reqs, self.handlers
            self.reqs, self.handlers = [], []
            for rep, h in zip(self.ctx.lean().ok(reqs, shards=8), hs):
                h(rep)


_known = None


def unknown_violations(ctx):
    global _known
    if _known is None:
        _known = load_known(ctx.pid)
    return [v for v in ctx.violations if match_known(v, _known) is None]


def full(ctx):
    return len(unknown_violations(ctx)) >= MAX_VIOL


# ------------------------------------------------------------------ checks
def check_single(ctx, batch, be, g, tag, deep=True, twin=False):
    """(1), (1b), (2) for one graph and one back-end.  Returns the Obs."""
    ob = Obs(be, g, twin, deep)
    case = {"kind": "single", "backend": be, "graph": dump(g), "twin": twin}
    classes = input_classes(g)
    ctx.count(f"single:{be}:{'deep' if deep else 'light'}")
    if ob.error:
        ctx.count(f"error:{be}:{ob.error}")
        ctx.violation(f"canonicalisation raises {ob.error}", case, {"stream": tag}, classes=classes)
        return ob
    gc = canoniser(be, twin)
    if ob.sig != hashlib.sha256(ob.text.encode()).hexdigest()[:32]:
        ctx.violation("signature is not sha256 of the serialised canonical graph (not a deterministic function of the graph)", case, {"stream": tag}, classes=classes)
        return ob
    if not deep:
        if not ob.onto:
            ob.error = "not-onto"
            ctx.violation("canonical graph is not the input relabelled by a bijection onto 1..N with all attributes preserved",
                          case, {"stream": tag, "reason": "canonical node ids are not 1..N", "canonical_nodes": repr(sorted(ob.cg.nodes, key=repr))[:300]}, classes=classes)
        return ob
    # determinism
    if ob.sig != gc.canonical_signature(ob.gt):
        ctx.violation("signature is not a deterministic function of the graph (two calls differ)", case, {"stream": tag}, classes=classes)
        return ob
    if ob.sig_plain != ob.sig:
        ctx.violation("signature depends on an attribute the signature does not cover (node tag)", case, {"stream": tag}, classes=classes)
        return ob
    if ob.mapping is None or not ids_ok(ob.cg):
        ob.error = "no-bijection"
        ctx.violation("canonical graph is not the input relabelled by a bijection onto 1..N with all attributes preserved",
                      case, {"stream": tag, "reason": "node tags lost, duplicated, or ids not integers", "canonical_nodes": repr(list(ob.cg.nodes(data=True)))[:400]},
                      classes=classes)
        return ob
    genc, cenc = dump(ob.gt), dump(ob.cg)
    mp = [[int(v), int(ob.mapping[v])] for v in ob.gt.nodes]

    def on_spec(rep):
        if rep != "ok":
            ctx.violation("canonical graph is not the input relabelled by a bijection onto 1..N with all attributes preserved",
                          case, {"stream": tag, "spec.isRelabelling": rep, "canonical_nodes": sorted(ob.cg.nodes)}, classes=classes)
            ob.spec_failed = True
    batch.add({"cmd": "spec.isRelabelling", "graph": genc, "canon": cenc, "mapping": mp}, on_spec)
    order = [v for v, _ in sorted(ob.mapping.items(), key=lambda kv: kv[1])]
    try:
        impl_ser = parse_ser(ob.text)
    except Exception as e:
        ctx.violation("serialised text of the canonical graph cannot be parsed back", case, {"text": ob.text[:300], "err": str(e)}, no_input=True)
        return ob

    def on_ser(rep):
        if getattr(ob, "spec_failed", False):
            return
        if rep != impl_ser:
            ctx.violation("correspondence: serialisation of the implementation's canonical graph differs from the model's serialise(canonBy order G)",
                          case, {"stream": tag, "impl": impl_ser, "model": rep}, classes=classes, no_input=True)
    batch.add({"cmd": "canon.sig", "graph": genc, "order": [int(v) for v in order]}, on_ser)

    def on_ser2(rep):
        if rep != impl_ser:
            ctx.violation("correspondence: model serialise(G') differs from the implementation's _serialise(G') on the canonical graph G'",
                          case, {"stream": tag, "impl": impl_ser, "model": rep}, classes=classes, no_input=True)
    batch.add({"cmd": "canon.serialise", "graph": cenc}, on_ser2)
    # canon(canon g)
    try:
        cg2 = gc._make_canonical_graph(ob.cg)
        text2 = gc._serialise(cg2)
    except Exception as e:
        ctx.violation(f"canonicalising the canonical graph raises {type(e).__name__}", case, {"stream": tag}, classes=classes)
        return ob
    if text2 == ob.text:
        ctx.count(f"canon_canon_fixed:{be}")
    else:
        ctx.count(f"canon_canon_moved:{be}")
        if be in EXACT:
            ctx.violation("exact back-end: the canonical graph of a canonical graph has a different serialisation (isomorphic inputs, different signatures)",
                          {"kind": "pair", "backend": be, "x": dump(ob.gt), "y": dump(ob.cg)}, {"stream": tag}, classes=classes + ["canon_of_canon"])
    return ob


def check_copies(ctx, batch, base, copies, tag, deep_n=1):
    """`copies` are relabelled / re-ordered copies of `base` (isomorphic by construction; the Lean
    engine confirms it on the reported pair).  Returns {backend: signature of base}."""
    out = {}
    classes = input_classes(base)
    for be in BACKENDS:
        ob0 = check_single(ctx, batch, be, base, tag, deep=True)
        if ob0.error:
            continue
        out[be] = ob0.sig_plain
        sigs = {}
        for i, c in enumerate(copies):
            ob = check_single(ctx, batch, be, c, tag, deep=(i < deep_n))
            if ob.error:
                continue
            ctx.count(f"copies:{be}")
            if be in EXACT and (ob.sig_plain != ob0.sig_plain):
                if not sigs:
                    report_pair(ctx, batch, be, base, c, True, ob0, ob, tag, classes)
                sigs[ob.sig_plain] = 1
            if be in EXACT and ob.sig_plain == ob0.sig_plain:
                # (4) same canonical graph on the covered attributes: texts without the tag are equal
                pass
        if sigs:
            ctx.count(f"invariance_broken_bases:{be}")
        if full(ctx):
            break
    return out


def report_pair(ctx, batch, be, x, y, iso, obx, oby, tag, classes):
    case = {"kind": "pair", "backend": be, "x": dump(x), "y": dump(y)}
    if iso:
        ctx.violation("exact back-end: isomorphic graphs receive different signatures / canonical graphs",
                      case, {"stream": tag, "sig_x": obx.sig_plain, "sig_y": oby.sig_plain,
                             "ser_x": obx.text[:400], "ser_y": oby.text[:400]}, classes=classes)
    else:
        ctx.violation("equal signatures for graphs that are not isomorphic on the covered attributes",
                      case, {"stream": tag, "sig": obx.sig_plain, "ser_x": obx.text[:400]}, classes=classes)


def check_pair(ctx, batch, x, y, tag, backends=BACKENDS, twin=False):
    """(3)/(4)/(5) on one pair, isomorphism decided by the proven engine."""
    classes = sorted(set(input_classes(x) + input_classes(y)))
    obs = {}
    for be in backends:
        a, b = check_single(ctx, batch, be, x, tag, deep=False, twin=twin), check_single(ctx, batch, be, y, tag, deep=False, twin=twin)
        if a.error or b.error:
            continue
        obs[be] = (a, b)
    if not obs:
        return

    def on_iso(iso):
        if full(ctx):
            return
        ctx.count("pairs_iso" if iso else "pairs_noniso")
        for be, (a, b) in obs.items():
            eq = a.sig_plain == b.sig_plain
            ctx.count(f"pair:{be}:{'eq' if eq else 'ne'}:{'iso' if iso else 'noniso'}")
            if eq and not iso:
                report_pair(ctx, batch, be, x, y, False, a, b, tag, classes)
            if be in EXACT and iso and not eq:
                report_pair(ctx, batch, be, x, y, True, a, b, tag, classes)
            if be in EXACT and iso and eq:
                # (4) canonical graphs equal on the covered attributes
                case = {"kind": "pair", "backend": be, "x": dump(x), "y": dump(y)}
                if a.text != b.text:  # `_serialise` prints the covered keys only
                    ctx.violation("exact back-end: isomorphic graphs with equal signatures have different canonical graphs on the covered attributes",
                                  case, {"stream": tag}, classes=classes)
                elif ids_ok(a.cg) and ids_ok(b.cg):
                    def on_cov(rep, case=case):
                        ctx.count("covEq_checked")
                        if rep is not True:
                            ctx.violation("exact back-end: isomorphic graphs have different canonical graphs on the covered attributes (spec.covEq)",
                                          case, {"stream": tag}, classes=classes)
                    batch.add({"cmd": "spec.covEq", "g": dump(a.cg), "h": dump(b.cg)}, on_cov)
            wrappers(ctx, be, x, y, eq, iso, tag, classes, twin)
    batch.add(iso_req(x, y), on_iso)


def wrappers(ctx, be, x, y, sig_eq, iso, tag, classes, twin=False):
    """(5) CanonicalGraph / SynGraph equality and hash follow the signatures."""
    if twin:
        from synkit.Graph.Canon.canon_graph import CanonicalGraph
    else:
        from synkit.Graph.canon_graph import CanonicalGraph
    from synkit.Graph.syn_graph import SynGraph
    gc = canoniser(be, twin)
    case = {"kind": "pair", "backend": be, "x": dump(x), "y": dump(y)}
    try:
        sx, sy = SynGraph(x, gc), SynGraph(y, gc)
        eq = (sx == sy)
        if eq != sig_eq or (eq and hash(sx) != hash(sy)) or sx.signature != gc.canonical_signature(x):
            ctx.violation("SynGraph equality / hash is not equality of the signatures of the wrapped graphs", case, {"stream": tag}, classes=classes)
        cx, cy = CanonicalGraph(x, gc), CanonicalGraph(y, gc)
        ceq = (cx == cy)
        ctx.count(f"wrapper:{be}:{'eq' if ceq else 'ne'}")
        if ceq and hash(cx) != hash(cy):
            ctx.violation("CanonicalGraph objects compare equal but hash differently", case, {"stream": tag}, classes=classes)
        if ceq and not iso:
            ctx.violation("CanonicalGraph objects compare equal for graphs that are not isomorphic on the covered attributes", case,
                          {"stream": tag}, classes=classes)
        if be in EXACT and iso and not ceq:
            ctx.violation("exact back-end: CanonicalGraph objects of isomorphic graphs compare unequal", case,
                          {"stream": tag, "wrapper_eq": ceq, "sig_eq": sig_eq}, classes=classes)
    except Exception as e:
        ctx.violation(f"wrapper construction raises {type(e).__name__}", case, {"stream": tag, "err": str(e)[:200]}, classes=classes)


# ------------------------------------------------------------------ generators
def tiny_bases(n, elements, orders, rnd=None, sample=None):
    """All labelled graphs on nodes 0..n-1: every edge absent or with an order from `orders`,
    every node an element from `elements` (node 0 additionally hcount 0/1 when n <= 3)."""
    pairs = list(itertools.combinations(range(n), 2))
    out = []
    hopts = [0, 1] if n <= 3 else [0]
    for es in itertools.product([None] + list(orders), repeat=len(pairs)):
        for els in itertools.product(elements, repeat=n):
            for h in hopts:
                out.append((es, els, h))
    if sample is not None and len(out) > sample:
        out = rnd.sample(out, sample)
    gs = []
    for es, els, h in out:
        nodes = [(i, atom(els[i], hcount=(h if i == 0 else 0))) for i in range(n)]
        edges = [(u, v, {"order": o}) for (u, v), o in zip(pairs, es) if o is not None]
        gs.append(mk(nodes, edges))
    return gs


def all_copies(rnd, g, n_orders=3):
    nodes = list(g.nodes)
    m = g.number_of_edges()
    res = []
    for perm in itertools.permutations(nodes):
        pi = dict(zip(nodes, perm))
        for k in ({1: [2], 2: [0, 2]}.get(n_orders, range(n_orders))):
            if k == 0:
                no, eo, fl = nodes, list(range(m)), [False] * m
            elif k == 1:
                no, eo, fl = nodes[::-1], list(range(m))[::-1], [True] * m
            else:
                no = nodes[:]
                rnd.shuffle(no)
                eo = list(range(m))
                rnd.shuffle(eo)
                fl = [rnd.random() < 0.5 for _ in range(m)]
            res.append(relabelled_copy(g, pi, no, eo, fl))
    return res


ELS = ["C", "N", "O", "S"]


def random_mol(rnd, n, its=False, extra=True):
    """Tree + ring closures, degree <= 4; covered attributes drawn from small alphabets (so that
    symmetric and near-symmetric graphs are frequent); uncovered attributes carried along."""
    nodes = []
    same = rnd.random() < 0.35
    for i in range(n):
        a = atom(rnd.choice(ELS[:2] if same else ELS), rnd.choice([0, 0, 0, 0, 1, -1]) if not same else 0,
                 rnd.random() < 0.25 and not same, rnd.choice([0, 0, 1, 2, 3]) if not same else 0)
        if extra:
            a["atom_map"] = rnd.randint(0, 30)
            a["neighbors"] = [rnd.choice(ELS) for _ in range(rnd.randint(0, 2))]
            a["typesGH"] = ((a["element"], a["aromatic"], a["hcount"], a["charge"], []), (a["element"], False, 0, 0, ["C"]))
        nodes.append((i, a))
    edges = {}
    deg = [0] * n
    for i in range(1, n):
        if rnd.random() < 0.12:
            continue  # disconnected now and then
        cands = [j for j in range(i) if deg[j] < 4]
        if not cands:
            continue
        j = rnd.choice(cands)
        edges[(j, i)] = 1
        deg[i] += 1
        deg[j] += 1
    for _ in range(rnd.choice([0, 0, 1, 1, 2, 3])):
        if n < 3:
            break
        u, v = sorted(rnd.sample(range(n), 2))
        if (u, v) not in edges and deg[u] < 4 and deg[v] < 4:
            edges[(u, v)] = 1
            deg[u] += 1
            deg[v] += 1
    es = []
    uniform = rnd.random() < 0.4
    for (u, v) in edges:
        if its:
            o1, o2 = (1.0, 1.0) if uniform else rnd.choice([(1.0, 1.0), (1.0, 2.0), (2.0, 1.0), (0.0, 1.0), (1.0, 0.0), (1.5, 1.5), (2.0, 2.0)])
            d = {"order": (o1, o2), "standard_order": o1 - o2}
        else:
            d = {"order": 1.0 if uniform else rnd.choice([1.0, 1.0, 2.0, 1.5, 3.0])}
        if extra and rnd.random() < 0.3:
            d["w"] = rnd.randint(0, 5)
        es.append((u, v, d))
    ids = rnd.sample(range(0, 3 * n + 3), n)
    g0 = mk(nodes, es)
    return relabelled_copy(g0, dict(zip(range(n), ids)))


def uniform_graph(G0, el="C", order=1.0):
    nodes = [(int(n), atom(el)) for n in G0.nodes]
    return mk(nodes, [(int(u), int(v), {"order": order}) for u, v in G0.edges])


def symmetric_families(quick):
    fams = {}
    for k in (3, 4, 5, 6, 8):
        fams[f"C{k}"] = nx.cycle_graph(k)
    fams["K23"] = nx.complete_bipartite_graph(2, 3)
    fams["K33"] = nx.complete_bipartite_graph(3, 3)
    fams["K4"] = nx.complete_graph(4)
    fams["star4"] = nx.star_graph(4)
    fams["Q3"] = nx.cubical_graph()
    fams["2xC3"] = nx.disjoint_union(nx.cycle_graph(3), nx.cycle_graph(3))
    fams["prism"] = nx.circular_ladder_graph(3)
    fams["2xP2"] = nx.disjoint_union(nx.path_graph(2), nx.path_graph(2))
    fams["P2+P3"] = nx.disjoint_union(nx.path_graph(2), nx.path_graph(3))
    if not quick:
        fams["C10"] = nx.cycle_graph(10)
        fams["Petersen"] = nx.petersen_graph()
        fams["K34"] = nx.complete_bipartite_graph(3, 4)
        fams["3xC3"] = nx.disjoint_union(nx.disjoint_union(nx.cycle_graph(3), nx.cycle_graph(3)), nx.cycle_graph(3))
        fams["ladder4"] = nx.ladder_graph(4)
    out = {k: uniform_graph(v) for k, v in fams.items()}
    # one refinement cell, several orbits (1-WL cannot tell the rings apart): the search has to branch
    mixed = {"C3+C4": (3, 4), "C3+C5": (3, 5)}
    if not quick:
        mixed.update({"C4+C6": (4, 6), "2xC3+C6": (3, 3, 6)})
    for name, ks in mixed.items():
        G0 = nx.Graph()
        for k in ks:
            G0 = nx.disjoint_union(G0, nx.cycle_graph(k))
        out[name] = uniform_graph(G0)
        # the same behind an atom that sorts first (a singleton first cell; the target cell is not the first)
        g = uniform_graph(G0)
        b = max(g.nodes) + 1
        g.add_node(b, **atom("B"))
        out["B." + name] = g
        g2 = uniform_graph(G0)
        g2.add_node(b, **atom("B"))
        g2.add_edge(b, 0, order=1.0)
        out["B-" + name] = g2
    # alternating single/double bonds: refinement sees the same multiset at every atom
    for k in ((4, 6) if quick else (4, 6, 8, 10)):
        g = uniform_graph(nx.cycle_graph(k))
        for i in range(k):
            g[i][(i + 1) % k]["order"] = 1.0 if i % 2 == 0 else 2.0
        out[f"kekule-C{k}"] = g
        h = g.copy()
        b = k
        h.add_node(b, **atom("B"))
        out[f"B.kekule-C{k}"] = h
    return out


def near_misses(rnd, g):
    """One covered attribute / one edge changed (may or may not stay isomorphic: the engine decides)."""
    out = []
    nodes = list(g.nodes)
    edges = list(g.edges)
    if nodes:
        h = g.copy()
        v = rnd.choice(nodes)
        k = rnd.choice(NODE_KEYS)
        d = h.nodes[v]
        d[k] = {"element": rnd.choice([e for e in ("B", "N", "O") if e != d.get("element")]), "charge": d.get("charge", 0) + 1,
                "aromatic": not d.get("aromatic", False), "hcount": d.get("hcount", 0) + 1}[k]
        out.append(h)
    if edges:
        h = g.copy()
        u, v = rnd.choice(edges)
        o = h[u][v].get("order", 0)
        if isinstance(o, tuple):
            h[u][v]["order"] = (o[1], o[0])
            h[u][v]["standard_order"] = o[1] - o[0]
        else:
            h[u][v]["order"] = 2.0 if o != 2.0 else 1.0
        out.append(h)
        h = g.copy()
        h.remove_edge(*rnd.choice(edges))
        out.append(h)
    non = [(u, v) for u, v in itertools.combinations(nodes, 2) if not g.has_edge(u, v)]
    if non and edges:
        # move an edge: same degree multiset more often than not
        h = g.copy()
        a, b = rnd.choice(edges)
        d = dict(h[a][b])
        h.remove_edge(a, b)
        u, v = rnd.choice(non)
        h.add_edge(u, v, **d)
        out.append(h)
    return out


# ------------------------------------------------------------------ streams
def load_regress():
    d = ROOT / "regress" / "C08"
    return [json.loads(f.read_text()) for f in sorted(d.glob("*.json"))] if d.exists() else []


def run_case(ctx, batch, c, tag):
    if c["kind"] == "single":
        check_single(ctx, batch, c["backend"], undump(c["graph"]), tag, twin=c.get("twin", False))
    elif c["kind"] == "pair":
        check_pair(ctx, batch, undump(c["x"]), undump(c["y"]), tag, backends=[c["backend"]])
    elif c["kind"] == "rule":
        check_rules(ctx, batch, c["backend"], c["a"], c["b"], tag)
    batch.run()


def stream_tiny(ctx, batch):
    """tiny-exhaustive bases × all node permutations × 3 insertion orders; pool kernel by the proven
    brute-force canonical form."""
    rnd = ctx.rnd
    plan = [(1, ["C", "O"], [1.0], None, 3), (2, ["C", "O"], [1.0, 2.0], None, 3), (3, ["C", "O"], [1.0, 2.0], None, 3)]
    if ctx.quick:
        plan.append((4, ["C", "O"], [1.0], 80, 3))
    else:
        plan.append((4, ["C", "O"], [1.0], None, 2))
        plan.append((4, ["C", "N"], [1.0, 2.0], 300, 2))
        plan.append((5, ["C", "O"], [1.0], 150, 1))
    pool = []
    for n, els, orders, sample, n_orders in plan:
        bases = tiny_bases(n, els, orders, rnd, sample)
        ctx.count(f"tiny_bases_n{n}", len(bases))
        for g in bases:
            copies = all_copies(rnd, g, n_orders)
            sigs = check_copies(ctx, batch, g, copies, f"tiny-n{n}", deep_n=1)
            ctx.case(["tiny", dump(g)], nontrivial=g.number_of_nodes() >= 2,
                     sample={"stream": "tiny", "graph": dump(g), "copies": len(copies)} if n == 3 else None)
            pool.append((g, sigs))
            if full(ctx):
                return
        batch.run()
    kernel_pool(ctx, batch, pool, "tiny-pool")


def kernel_pool(ctx, batch, pool, tag):
    """Partition by signature vs partition by the proven exact form `sigBrute`."""
    keys = [None] * len(pool)
    for i, (g, _) in enumerate(pool):
        def h(rep, i=i):
            keys[i] = json.dumps(rep["ser"], sort_keys=True)
        batch.add({"cmd": "canon.brute", "graph": cov_view(g)}, h)
    batch.run()
    ctx.count(f"{tag}:graphs", len(pool))
    ctx.count(f"{tag}:iso_classes", len(set(keys)))
    for be in BACKENDS:
        by_sig, by_key = {}, {}
        for i, (g, sigs) in enumerate(pool):
            if be not in sigs:
                continue
            by_sig.setdefault(sigs[be], []).append(i)
            by_key.setdefault(keys[i], []).append(i)
        ctx.count(f"{tag}:{be}:signatures", len(by_sig))
        for s, idx in by_sig.items():  # soundness: one signature -> one class
            ks = {keys[i] for i in idx}
            if len(ks) > 1:
                i = idx[0]
                j = next(j for j in idx if keys[j] != keys[i])
                ob_i, ob_j = Obs(be, pool[i][0]), Obs(be, pool[j][0])
                report_pair(ctx, batch, be, pool[i][0], pool[j][0], False, ob_i, ob_j, tag, input_classes(pool[i][0]))
                break
        if be in EXACT:
            for k, idx in by_key.items():  # invariance: one class -> one signature
                ss = {pool[i][1][be] for i in idx}
                if len(ss) > 1:
                    i = idx[0]
                    j = next(j for j in idx if pool[j][1][be] != pool[i][1][be])
                    report_pair(ctx, batch, be, pool[i][0], pool[j][0], True, Obs(be, pool[i][0]), Obs(be, pool[j][0]), tag,
                                input_classes(pool[i][0]))
                    break


def stream_random(ctx, batch):
    rnd = ctx.rnd
    n_graphs = 120 if ctx.quick else 900
    k_copies = 3 if ctx.quick else 5
    pool = []
    for t in range(n_graphs):
        n = rnd.choice([1, 2, 3, 4, 5, 5, 6, 6, 7, 8, 9])
        g = random_mol(rnd, n, its=rnd.random() < 0.35)
        ctx.count(f"random_n{n}")
        copies = [random_copy(rnd, g) for _ in range(k_copies)]
        sigs = check_copies(ctx, batch, g, copies, "random", deep_n=1)
        ctx.case(["random", dump(g)], nontrivial=n >= 2, sample={"stream": "random", "graph": dump(g)} if t < 2 else None)
        for c in copies[:2]:
            check_pair(ctx, batch, g, c, "random-copy")
        for h in near_misses(rnd, g):
            check_pair(ctx, batch, g, random_copy(rnd, h), "near-miss")
            ctx.case(["near", dump(g), dump(h)], nontrivial=True)
        if n <= 6:
            pool.append((g, sigs))
        if t % 50 == 49:
            batch.run()
        if full(ctx):
            return
    batch.run()
    # pairs across the pool with equal invariants but drawn independently are rare; the tiny pool covers that


def stream_symmetric(ctx, batch):
    rnd = ctx.rnd
    fams = symmetric_families(ctx.quick)
    k = 12 if ctx.quick else 40
    k0 = k
    for name, g in fams.items():
        k = k0 if g.number_of_nodes() < 11 else 6  # the exact search is slow on large single-cell graphs
        copies = [random_copy(rnd, g) for _ in range(k)]
        check_copies(ctx, batch, g, copies, f"sym:{name}", deep_n=2)
        ctx.case(["sym", name], nontrivial=True, sample={"stream": "symmetric", "family": name})
        ctx.count("symmetric_families")
        # one label changed on one node / one edge: breaks part of the symmetry
        for h in near_misses(rnd, g)[:2]:
            hc = [random_copy(rnd, h) for _ in range(k // 2)]
            check_copies(ctx, batch, h, hc, f"sym1:{name}", deep_n=1)
            check_pair(ctx, batch, g, random_copy(rnd, h), "sym-near-miss")
            ctx.case(["sym1", name, dump(h)], nontrivial=True)
        if full(ctx):
            return
        batch.run()
    # cospectral-looking / same-degree-sequence non-isomorphic pairs
    pairs = [("2xC3", "C6"), ("prism", "K33"), ("2xP2", None)]
    named = dict(fams)
    named["C6"] = fams["C6"]
    for a, b in pairs:
        if b is None:
            continue
        check_pair(ctx, batch, random_copy(rnd, named[a]), random_copy(rnd, named[b]), f"hard-pair:{a}/{b}")
        ctx.case(["hard", a, b], nontrivial=True)
    if not ctx.quick:
        check_pair(ctx, batch, random_copy(rnd, fams["3xC3"]), random_copy(rnd, uniform_graph(nx.cycle_graph(9))), "hard-pair:3xC3/C9")
        check_pair(ctx, batch, random_copy(rnd, fams["Q3"]), random_copy(rnd, uniform_graph(nx.disjoint_union(nx.complete_graph(4), nx.complete_graph(4)))), "hard-pair:Q3/2K4")
    batch.run()


def stream_twin(ctx, batch):
    """synkit/Graph/Canon/canon_graph.py is a second copy of the module: same checks on a sample."""
    rnd = ctx.rnd
    for t in range(12 if ctx.quick else 60):
        g = random_mol(rnd, rnd.randint(2, 7))
        for be in BACKENDS:
            check_single(ctx, batch, be, g, "twin", twin=True)
        check_pair(ctx, batch, g, random_copy(rnd, g), "twin", twin=True)
        ctx.case(["twin", dump(g)], nontrivial=True)
    batch.run()


def stream_malformed(ctx, batch):
    """Empty graph, isolated nodes, attributes absent everywhere (defaults apply), and — classified
    `mixed_missing_attrs` — attributes present on some nodes only."""
    rnd = ctx.rnd
    gs = [mk([], []), mk([(4, atom())], []), mk([(4, atom()), (9, atom())], []),
          mk([(2, {}), (5, {})], [(2, 5, {"order": 1.0})]),
          mk([(2, {"element": "C"}), (5, {"element": "O"}), (7, {"element": "C"})], [(2, 5, {"order": 1.0}), (5, 7, {"order": 1.0})]),
          mk([(1, {"element": "C", "hcount": 1}), (3, {"element": "C", "hcount": 1})], [(1, 3, {"order": 2.0})])]
    for g in gs:
        copies = [random_copy(rnd, g) for _ in range(4)]
        check_copies(ctx, batch, g, copies, "malformed-uniform", deep_n=2)
        ctx.case(["malformed", dump(g)], nontrivial=False)
        ctx.count("malformed_uniform")
    mixed = [mk([(1, {"element": "C"}), (2, {"element": "C", "charge": 0})], [(1, 2, {"order": 1.0})]),
             mk([(1, atom()), (2, atom()), (3, {"element": "C", "charge": 0, "aromatic": False})], [(1, 2, {"order": 1.0}), (2, 3, {"order": 1.0})])]
    for g in mixed:
        for be in BACKENDS:
            check_single(ctx, batch, be, g, "malformed-mixed")
        check_pair(ctx, batch, g, random_copy(rnd, g), "malformed-mixed")
        ctx.case(["malformed-mixed", dump(g)], nontrivial=False)
        ctx.count("malformed_mixed")
    batch.run()


def stream_std(ctx, batch):
    """standard_order NOT a function of order (never produced by SynKit itself: ITS graphs carry
    standard_order = order[0] - order[1], molecule graphs none).  Classified."""
    rnd = ctx.rnd
    for name in ("C4", "C6", "K23"):
        g = symmetric_families(True)[name].copy()
        es = list(g.edges)
        for k, (u, v) in enumerate(es):
            g[u][v]["standard_order"] = 1 if k == 0 else 0
        copies = [random_copy(rnd, g) for _ in range(8)]
        check_copies(ctx, batch, g, copies, "std-independent", deep_n=1)
        ctx.case(["std", name], nontrivial=True)
        ctx.count("std_independent")
    batch.run()


RULES = [
    # (reaction, an equivalent renumbering / reordering, a different reaction)
    ("[CH3:1][CH2:2][OH:3]>>[CH3:1][CH:2]=[O:3]", "[OH:1][CH2:2][CH3:3]>>[O:1]=[CH:2][CH3:3]", "[CH3:1][CH2:2][NH2:3]>>[CH3:1][CH:2]=[NH:3]"),
    ("[CH2:1]=[CH2:2].[H:3][H:4]>>[CH2:1]([H:3])[CH2:2][H:4]", "[H:1][H:2].[CH2:3]=[CH2:4]>>[CH2:3]([H:1])[CH2:4][H:2]", "[CH2:1]=[O:2].[H:3][H:4]>>[CH2:1]([H:3])[O:2][H:4]"),
    ("[CH3:1][Cl:2].[OH2:3]>>[CH3:1][OH:3].[ClH:2]", "[OH2:1].[Cl:2][CH3:3]>>[OH:1][CH3:3].[ClH:2]", "[CH3:1][Br:2].[OH2:3]>>[CH3:1][OH:3].[BrH:2]"),
]


def check_rules(ctx, batch, be, a, b, tag):
    from synkit.Rule.syn_rule import SynRule
    gc = canoniser(be)
    try:
        ra, rb = SynRule.from_smart(a, canonicaliser=gc), SynRule.from_smart(b, canonicaliser=gc)
    except Exception as e:
        ctx.count(f"rule_build_error:{type(e).__name__}")
        return
    eq = (ra == rb)
    case = {"kind": "rule", "backend": be, "a": a, "b": b}
    if eq != (ra.canonical_smiles == rb.canonical_smiles) or (eq and hash(ra) != hash(rb)):
        ctx.violation("SynRule equality / hash is not equality of its fragment signatures", case, {"stream": tag})
        return
    if ra.canonical_smiles != (gc.canonical_signature(ra.left.raw), gc.canonical_signature(ra.right.raw)):
        ctx.violation("SynRule fragment signatures are not the signatures of its left / right fragments", case, {"stream": tag})
        return
    res = {}

    def done():
        if len(res) < 2:
            return
        iso = res["l"] and res["r"]
        ctx.count(f"rule:{be}:{'eq' if eq else 'ne'}:{'iso' if iso else 'noniso'}")
        if eq and not iso:
            ctx.violation("SynRule objects compare equal although their fragments are not isomorphic on the covered attributes", case, {"stream": tag})
        if be in EXACT and iso and not eq:
            ctx.violation("exact back-end: SynRule objects with isomorphic left and right fragments compare unequal", case, {"stream": tag},
                          classes=sorted(set(input_classes(ra.left.raw) + input_classes(ra.right.raw))))
    for side, x, y in (("l", ra.left.raw, rb.left.raw), ("r", ra.right.raw, rb.right.raw)):
        if not (ids_ok(x) and ids_ok(y)):
            return

        def h(rep, side=side):
            res[side] = rep
            done()
        try:
            batch.add(iso_req(x, y), h)
        except graphio.Unsupported:
            return


def stream_rules(ctx, batch):
    for a, b, c in RULES:
        for be in BACKENDS:
            check_rules(ctx, batch, be, a, b, "rules-equivalent")
            check_rules(ctx, batch, be, a, c, "rules-different")
            check_rules(ctx, batch, be, a, a, "rules-same")
        ctx.case(["rule", a], nontrivial=True)
    batch.run()


def run(ctx):
    ctx.trusted = [
        "Lean 4.33 kernel; axioms of the property theorems as listed in obligation_list",
        "hand-written model SynKitModel/Canon.lean (canonBy for an externally supplied node order, serialise, canonBrute) tied to /repo by this "
        "correspondence run; the shared matching engine SynKitModel/Match.lean (isoDecide) decides isomorphism",
        "SHA-256 is treated as injective (hypothesis of the digest-level theorems); signatures are compared only through the equalities they induce",
        "how a back-end computes its node order (attribute sort, WL hashes, Morgan products, the individualisation-refinement search of nauty.py) is "
        "NOT modelled: faithfulness and soundness are proved for every order; invariance of the exact back-end rests on the kernel test against the "
        "proven engine / brute-force canonical form",
        "Driver/Canon.lean JSON codec, harness/graphio.py encoder, harness/props/c08.py adapter (node tags to read off the bijection; parser of the "
        "serialised text)",
    ]
    ctx.assumptions = [
        "node ids are non-negative integers; covered attributes hold one Python type per key (str / int / bool / float or pair of floats), bond orders multiples of 1/2",
        "graphs are simple undirected networkx.Graph objects (no multigraph / digraph)",
        "standard_order is absent or a function of order, as in every graph SynKit builds (the other case is the classified stream std-independent)",
    ]
    ctx.gen_rule = (
        "regression corpus first; tiny-exhaustive: ALL labelled graphs on n<=3 nodes (elements C/O, each edge absent/single/double, one node with hcount 0/1) and "
        "on 4 nodes (elements C/O, edges absent/single; quick: seeded sample of 80, thorough: all 1024 + 300 with double bonds + 150 on 5 nodes), each with ALL "
        "node permutations x 3 insertion orders (identity, reversed+flipped, shuffled; 2 resp. 1 for the thorough-only 4- and 5-node sets), 4 back-ends; random molecule-like graphs (1..9 nodes, trees + ring "
        "closures, sparse ids, 4 elements, charges, aromatic flags, hcounts, bond orders 1/1.5/2/3 or ITS-style order pairs with standard_order, extra uncovered "
        "attributes incl. tuples/lists) x random relabellings+insertion orders, plus one-attribute / one-edge near misses decided by the proven engine; "
        "symmetric families (cycles, K_{a,b}, K4, star, cube, prism, disjoint triangles, Petersen...) x random copies, each also with one label changed; "
        "hard non-isomorphic pairs (two triangles vs hexagon, prism vs K33, ...); the twin module Graph/Canon/canon_graph.py on a sample; malformed stream "
        "(empty, isolated nodes, attributes absent everywhere / on some nodes); SynRule pairs (renumbered / different reactions).")
    ctx.nontrivial_rule = "distinct as a JSON value of (stream, graph[, variant]); non-trivial when the graph has >= 2 nodes"
    build_and_audit(ctx, ["SynKitProofs.Props.C08"], "SynKitProofs/Audit/C08.lean", THEOREMS)
    batch = Batch(ctx)
    reg = load_regress()
    for c in reg:
        run_case(ctx, batch, c["case"] if "case" in c else c, "regress")
    ctx.count("regress_cases", len(reg))
    for stream in (stream_symmetric, stream_tiny, stream_random, stream_twin, stream_malformed, stream_std, stream_rules):
        if full(ctx):
            break
        stream(ctx, batch)
    ctx.extra["exhaustive"] = False
    ctx.extra["exhaustive_part"] = "all labelled graphs on <=3 nodes (2 elements, 2 bond orders) and, in the thorough tier, on 4 nodes (2 elements, single bonds) x all node permutations x 2-3 insertion orders"
    ctx.extra["remark"] = ("SynRule equality is equality of the (left, right) fragment signatures (DESIGN 5a): rules with isomorphic sides and "
                           "non-isomorphic centres compare equal under an exact back-end; not a violation.")
    real = unknown_violations(ctx)
    ctx.obligation("correspondence: faithfulness (spec.isRelabelling), serialisation = model, determinism, kernel agreement with the proven "
                   "isomorphism engine, wrapper equality", not real)


def replay(ctx, case):
    batch = Batch(ctx)
    run_case(ctx, batch, case["case"], "replay")

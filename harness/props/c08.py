"""C08 — graph canonicalisation is faithful and sound; the exact back-end is invariant.

What is compared (implementation = `synkit.Graph.canon_graph.GraphCanonicaliser`, the module
`SynGraph` / `SynRule` import; `synkit/Graph/Canon/canon_graph.py` is a verbatim twin and is run
on a sample too):

(1) faithfulness — every node of the input gets a unique tag attribute `_vid`; the tags found on
    the implementation's canonical graph give the bijection it used; the Lean command
    `spec.isRelabelling` (the predicate of theorem `canonBy_faithful`) decides "the canonical
    graph is the input relabelled by this bijection onto 1..N, every node and edge attribute
    dict preserved, adjacency preserved";
(1b) model agreement — the implementation's pre-digest text `_serialise(canonical graph)`, parsed
    back into values, equals the model's `serialise (canonBy order G)` for the order the
    implementation used (ties `_serialise` — sort keys, tie rule, defaults — and the way the
    canonical graph is built to the model the theorems are about); the digest is
    sha256(text)[:32];
(2) determinism — same object twice; `canon(canon g)` (gated for the exact back-end: equal
    serialisation; recorded for the others);
(3) kernel agreement — sig(x) = sig(y) ⇒ isomorphic on the covered attributes for every
    back-end, and ⇔ for the exact back-end.  Isomorphism is decided by the proven engine
    (`match.iso` on the covered projection) for pairs and by the proven brute-force canonical
    form (`canon.brute`, theorems `canonBrute_invariant` / `canonBrute_sound`) for pools;
(4) exact back-end: isomorphic inputs ⇒ equal canonical graphs on the covered attributes
    (equal `_serialise` text, and `spec.covEq` on a sample);
(5) wrapper equality / hash (`CanonicalGraph`, `SynGraph`, `SynRule`) consistent with (3).

Streams added for the classes of breakage the first generators under-sampled (every gate is one of
(1)-(5); the specification side of each query is computed without reference to earlier queries):

* `stream_shapes` — rare-but-legal inputs: pair-valued bond orders with (a,b) next to (b,a) and
  standard_order absent / a-b / zeroed below 1 / zero (all the ways SynKit writes or omits it),
  tiny-exhaustive with all node permutations and on symmetric skeletons; symmetric graphs in which
  exactly one attribute (each covered key in turn, standard_order alone, one swapped pair, an
  uncovered key) breaks the symmetry; optional keys absent on all nodes; spectator fragments;
* `stream_options` — non-default configurations: node_attrs permuted / extended, other WL and Morgan
  depths, sort keys over permuted / extended key lists (covered attributes = the keys of the sort
  keys; isomorphism decided by the proven engine on exactly those keys), attribute names present
  on both nodes and edges;
* `stream_history` — hidden state between calls: long-lived canonicalisers, several configurations
  interleaved on the same objects, repeated queries, in-place mutation, copies, relabelling onto the
  object's own ids, sub-graphs, canonical graphs re-queried, one Python object refilled with another
  graph.  Each answer (signature, serialised text, canonical graph as a value, wrapper digests)
  must equal the answer of `Pristine`: a process forked before this process made its first
  canonicalisation call, which answers every request in a grand-child of its own with a new
  canonicaliser — "a function of the graph" in the literal sense, with no instance-, class- or
  module-level history.  A failing history is minimised (each trial again in a history-free process).

Streams added for anchored code the quick tier never executed (coverage/C08.json), same gates:

* `stream_direct` — `NautyCanonicalizer` built directly, as documented (node_attrs / edge_attrs optional, the
  constructor default is none; `_initial_partition` without node attributes), with its options return_perm /
  return_aut / remap_aut / return_orbits / max_depth.  The IR correspondence runs for every configuration whose lists
  are sub-sequences of the model's (the model sees the graph with the left-out attributes overwritten by a
  constant); faithfulness by `spec.isRelabelling`, invariance by `spec.covEq` on the projections, kernel agreement
  of `graph_signature` by the proven engine on the configured keys; max_depth against the leaf depths of the
  model's search tree and, for every depth, exactly against the depth-capped model (`canon.irCapped`).  The automorphism / orbit lists themselves are outside the property (recorded only);
* `stream_classes` — nx.DiGraph / nx.MultiGraph / nx.MultiDiGraph inputs (class docstring: the class of the input is
  preserved): relabelling predicate evaluated in the harness (the Lean model has simple undirected graphs only),
  isomorphism decided by the proven engine on an edge-subdivision encoding;
* option variants `empty` (node_attrs=[]: WL seeded by `element` alone, Morgan by the primes alone, the exact
  search with a signature that covers no node attribute) and `superset-list` (a list-valued attribute in
  node_attrs); the input graph is compared with a snapshot taken before the call; the remaining public surface
  of the value objects (CanonicalGraph.original_graph, canonicalise_graphs, graph_canonical_hash, SynGraph.canonical /
  canon=False, comparison with non-wrappers), SynRule.from_gml and the GML value object CanonicalRule.
"""
import ast
import copy
import hashlib
import itertools
import json
import os
import pickle
import sys
import time

import networkx as nx

from .. import graphio
from ..core import ROOT, build_and_audit, load_known, match_known

THEOREMS = [
    "SynKit.Canon.canonBy_faithful",
    "SynKit.Canon.serialise_inj",
    "SynKit.Canon.signature_sound",
    "SynKit.Canon.signature_sound_digest",
    "SynKit.Canon.canonBrute_faithful",
    "SynKit.Canon.canonBrute_sound",
    "SynKit.Canon.canonBrute_invariant",
    "SynKit.Canon.canonBrute_covEq",
    "SynKit.Canon.valueobject_eq_iff",
    "SynKit.Canon.valueobject_exact_iff",
    "SynKit.Canon.synRule_eq_iff",
    "SynKit.Canon.canonicalGraph_eq_sound",
    "SynKit.Canon.fullStatement_model",
    "SynKit.Canon.spec_isRelabelling_iff",
    "SynKit.Canon.refine_equivariant",
    "SynKit.Canon.ir_leaves_equivariant",
    "SynKit.Canon.ir_label_lower_bound",
    "SynKit.Canon.ir_prune_sound",
    "SynKit.Canon.ir_result_spec",
    "SynKit.Canon.ir_fuel_adequate",
    "SynKit.Canon.canonIR_faithful",
    "SynKit.Canon.canonIR_sound",
    "SynKit.Canon.ir_invariant_noprune",
    "SynKit.Canon.ir_invariant",
    "SynKit.Canon.ir_invariant_anyOrder",
    "SynKit.Canon.canonIR_covEq",
    "SynKit.Canon.valueobject_ir_iff",
    "SynKit.Canon.fullStatement_ir",
    "SynKit.Canon.irDepth_spec",
    "SynKit.Canon.irCapped_full",
    "SynKit.Canon.irCapped_flag_sound",
    "SynKit.Canon.irCapped_partial_is_leaf",
]

BACKENDS = ["generic", "wl", "morgan", "nauty"]
EXACT = {"nauty"}
NODE_KEYS = ["element", "charge", "aromatic", "hcount"]
EDGE_KEYS = ["order", "standard_order"]
NODE_DEFAULT = {"element": "", "charge": 0, "aromatic": False, "hcount": 0}
EDGE_DEFAULT = {"order": 0, "standard_order": 0}
MAX_VIOL = 6

ATTR_DEFAULT = {**NODE_DEFAULT, **EDGE_DEFAULT, "atom_map": 0, "kind": ""}

_canon = {}


def opts_key(opts):
    return json.dumps(opts, sort_keys=True) if opts else ""


def node_keys_of(opts):
    """Node attributes the signature covers under these options (the keys of the node sort key)."""
    return list(opts["node_key"]) if opts and opts.get("node_key") is not None else NODE_KEYS


def edge_keys_of(opts):
    return list(opts["edge_key"]) if opts and opts.get("edge_key") is not None else EDGE_KEYS


def custom_keys(opts):
    return bool(opts and (opts.get("node_key") is not None or opts.get("edge_key") is not None))


def make_canoniser(be, twin=False, opts=None):
    """A NEW GraphCanonicaliser.  `opts` (JSON-able, all optional): node_attrs (list), wl_iterations,
    morgan_radius, node_key / edge_key (lists of attribute names: the sort keys are built from them
    the way the default ones are, `(tuple(sorted((u, v))), *values)` for edges)."""
    if twin:
        from synkit.Graph.Canon.canon_graph import GraphCanonicaliser
    else:
        from synkit.Graph.canon_graph import GraphCanonicaliser
    kw = {}
    opts = opts or {}
    for k in ("node_attrs", "wl_iterations", "morgan_radius"):
        if k in opts:
            kw[k] = list(opts[k]) if k == "node_attrs" else opts[k]
    if opts.get("node_key") is not None:  # [] = a signature that covers no node attribute
        nk = list(opts["node_key"])
        kw["node_sort_key"] = lambda n, d, nk=nk: tuple(d.get(k, ATTR_DEFAULT[k]) for k in nk)
    if opts.get("edge_key") is not None:
        ek = list(opts["edge_key"])
        kw["edge_sort_key"] = lambda u, v, d, ek=ek: (tuple(sorted((u, v))),) + tuple(d.get(k, ATTR_DEFAULT[k]) for k in ek)
    return GraphCanonicaliser(backend=be, **kw)


def canoniser(be, twin=False, opts=None):
    """The long-lived instance of this configuration (shared by every stream of the run)."""
    key = (be, twin, opts_key(opts))
    if key not in _canon:
        _canon[key] = make_canoniser(be, twin, opts)
    return _canon[key]


# ------------------------------------------------------------------ graphs
def mk(nodes, edges):
    """nodes: [(id, attrs)], edges: [(u, v, attrs)] in insertion order."""
    g = nx.Graph()
    for n, a in nodes:
        g.add_node(n, **a)
    for u, v, a in edges:
        g.add_edge(u, v, **a)
    return g


def dump(g):
    """JSON-able exact description (insertion order and orientation kept)."""
    return graphio.graph(g)


def undump(j):
    return graphio.to_nx(j)


def atom(el="C", charge=0, aromatic=False, hcount=0, **extra):
    d = {"element": el, "charge": charge, "aromatic": aromatic, "hcount": hcount}
    d.update(extra)
    return d


def relabelled_copy(g, pi, node_order=None, edge_order=None, flips=None):
    """Copy of g with node v renamed pi[v]; nodes inserted in `node_order` (old ids), edges in
    `edge_order` (indices into list(g.edges)), edge k inserted reversed when flips[k]."""
    old_nodes = list(g.nodes)
    old_edges = list(g.edges(data=True))
    node_order = old_nodes if node_order is None else node_order
    edge_order = list(range(len(old_edges))) if edge_order is None else edge_order
    h = nx.Graph()
    for v in node_order:
        h.add_node(pi[v], **dict(g.nodes[v]))
    for k in edge_order:
        u, v, d = old_edges[k]
        if flips and flips[k]:
            u, v = v, u
        h.add_edge(pi[u], pi[v], **dict(d))
    return h


def random_copy(rnd, g):
    n = g.number_of_nodes()
    ids = rnd.sample(range(0, 3 * n + 3), n)
    pi = dict(zip(g.nodes, ids))
    no = list(g.nodes)
    rnd.shuffle(no)
    eo = list(range(g.number_of_edges()))
    rnd.shuffle(eo)
    flips = [rnd.random() < 0.5 for _ in eo]
    return relabelled_copy(g, pi, no, eo, flips)


def cov_view(g, opts=None):
    """The graph as the signature sees it (encoded for the driver)."""
    nk, ek = node_keys_of(opts), edge_keys_of(opts)
    return {
        "nodes": [[int(n), {k: graphio.val(d.get(k, ATTR_DEFAULT[k])) for k in nk}] for n, d in g.nodes(data=True)],
        "edges": [[int(u), int(v), {k: graphio.val(d.get(k, ATTR_DEFAULT[k])) for k in ek}] for u, v, d in g.edges(data=True)],
    }


def iso_req(x, y, opts=None):
    return {"cmd": "match.iso", "host": cov_view(x, opts), "pattern": cov_view(y, opts),
            "node_keys": node_keys_of(opts), "edge_keys": edge_keys_of(opts), "hcount": False}


# ------------------------------------------------------------------ input classes (known findings)
def input_classes(g):
    cls = []
    # standard_order not determined by order: the exact search labels edges by `order` only
    seen = {}
    for _, _, d in g.edges(data=True):
        o = repr(d.get("order", 0))
        s = d.get("standard_order", 0)
        if o in seen and seen[o] != s:
            cls.append("std_order_not_function_of_order")
            break
        seen.setdefault(o, s)
    for keys, items in ((NODE_KEYS, [d for _, d in g.nodes(data=True)]), (EDGE_KEYS[:1], [d for _, _, d in g.edges(data=True)])):
        for k in keys:
            have = sum(1 for d in items if k in d)
            if 0 < have < len(items):
                cls.append("mixed_missing_attrs")
                break
    return sorted(set(cls))


# ------------------------------------------------------------------ implementation adapter
def parse_ser(text):
    """`_serialise` text -> the structure of Lean's `Ser` (values encoded like graphio.val)."""
    if not (text.startswith("N[") and "]|E[" in text and text.endswith("]")):
        raise ValueError("serialisation frame")
    ns, es = text[2:-1].split("]|E[", 1)
    nodes, edges = [], []
    for item in (ns.split(";") if ns else []):
        n, key = item.split(":", 1)
        nodes.append([int(n), [graphio.val(x) for x in ast.literal_eval(key)]])
    for item in (es.split(";") if es else []):
        i = item.index("):") + 1
        uv = ast.literal_eval(item[:i])
        key = ast.literal_eval(item[i + 1:])
        edges.append([[int(uv[0]), int(uv[1])], [int(key[0][0]), int(key[0][1])], [graphio.val(key[1]), graphio.val(key[2])]])
    return {"nodes": nodes, "edges": edges}


def tagged(g):
    t = g.copy()
    for n in t.nodes:
        t.nodes[n]["_vid"] = n
    return t


class Obs:
    """Everything observed from the implementation for one (graph, back-end).  `deep`: the graph
    is canonicalised with node tags so that the bijection can be read off; otherwise only the
    canonical graph, its serialised text and the signature are taken."""

    def __init__(self, be, g, twin=False, deep=True, opts=None):
        gc = canoniser(be, twin, opts)
        self.be, self.g, self.deep = be, g, deep
        self.error = None
        self.mapping = None
        try:
            before0 = norm_graph(g) if deep else None
            self.sig_plain = gc.canonical_signature(g)
            if not deep:
                self.gt = g
                self.cg = gc._make_canonical_graph(g)
                self.text = gc._serialise(self.cg)
                self.sig = self.sig_plain
                self.onto = onto_1_n(self.cg, g.number_of_nodes())
                return
            self.gt = tagged(g)
            self.cg = gc._make_canonical_graph(self.gt)
            self.text = gc._serialise(self.cg)
            self.sig = gc.canonical_signature(self.gt)
            # (canonical_signature canonicalises g itself: what the call does to its argument shows on g)
            self.input_changed = norm_graph(g) != before0
        except Exception as e:  # an exception is an outcome, mapped onto an enum
            self.error = type(e).__name__
            return
        tags = [d.get("_vid") for _, d in self.cg.nodes(data=True)]
        if len(tags) == len(set(map(repr, tags))) and set(map(repr, tags)) == set(map(repr, g.nodes)):
            self.mapping = {d["_vid"]: n for n, d in self.cg.nodes(data=True)}
        self.onto = onto_1_n(self.cg, g.number_of_nodes())


def onto_1_n(cg, n):
    nodes = list(cg.nodes)
    return len(nodes) == n and all(isinstance(v, int) and not isinstance(v, bool) for v in nodes) and set(nodes) == set(range(1, n + 1))


def ids_ok(g):
    return all(isinstance(n, int) and not isinstance(n, bool) and n >= 0 for n in g.nodes)


class Batch:
    def __init__(self, ctx):
        self.ctx, self.reqs, self.handlers = ctx, [], []

    def add(self, req, handler):
        self.reqs.append(req)
        self.handlers.append(handler)

    def run(self):
        while self.reqs:  # handlers may queue follow-up requests
            reqs, hs = self.reqs, self.handlers
            self.reqs, self.handlers = [], []
            for rep, h in zip(self.ctx.lean().ok(reqs, shards=8), hs):
                h(rep)


_known = None


def unknown_violations(ctx):
    global _known
    if _known is None:
        _known = load_known(ctx.pid)
    return [v for v in ctx.violations if match_known(v, _known) is None]


def full(ctx):
    return len(unknown_violations(ctx)) >= MAX_VIOL


# ------------------------------------------------------------------ checks
def with_opts(case, opts):
    if opts:
        case["opts"] = opts
    return case


def check_single(ctx, batch, be, g, tag, deep=True, twin=False, opts=None):
    """(1), (1b), (2) for one graph and one back-end.  Returns the Obs.  With custom sort keys
    (`opts.node_key` / `opts.edge_key`) the model serialisation (default keys) is not compared."""
    case = with_opts({"kind": "single", "backend": be, "graph": dump(g), "twin": twin}, opts)  # (before the first call: the graph as it was handed over)
    ob = Obs(be, g, twin, deep, opts)
    classes = input_classes(g)
    ctx.count(f"single:{be}:{'deep' if deep else 'light'}")
    if opts:
        ctx.count(f"single_with_options:{be}")
    if ob.error:
        ctx.count(f"error:{be}:{ob.error}")
        ctx.violation(f"canonicalisation raises {ob.error}", case, {"stream": tag}, classes=classes)
        return ob
    gc = canoniser(be, twin, opts)
    if ob.sig != hashlib.sha256(ob.text.encode()).hexdigest()[:32]:
        ctx.violation("signature is not sha256 of the serialised canonical graph (not a deterministic function of the graph)", case, {"stream": tag}, classes=classes)
        return ob
    if not deep:
        if not ob.onto:
            ob.error = "not-onto"
            ctx.violation("canonical graph is not the input relabelled by a bijection onto 1..N with all attributes preserved",
                          case, {"stream": tag, "reason": "canonical node ids are not 1..N", "canonical_nodes": repr(sorted(ob.cg.nodes, key=repr))[:300]}, classes=classes)
        return ob
    # determinism
    if ob.sig != gc.canonical_signature(ob.gt):
        ctx.violation("signature is not a deterministic function of the graph (two calls differ)", case, {"stream": tag}, classes=classes)
        return ob
    if ob.sig_plain != ob.sig:
        ctx.violation("signature depends on an attribute the signature does not cover (node tag)", case, {"stream": tag}, classes=classes)
        return ob
    if getattr(ob, "input_changed", False):
        ob.error = "input-changed"
        ctx.violation("canonical graph is not the input relabelled by a bijection onto 1..N with all attributes preserved",
                      case, {"stream": tag, "reason": "canonicalisation changed the graph it was given (attributes added, removed or rewritten in place)"}, classes=classes)
        return ob
    if ob.mapping is None or not ids_ok(ob.cg):
        ob.error = "no-bijection"
        ctx.violation("canonical graph is not the input relabelled by a bijection onto 1..N with all attributes preserved",
                      case, {"stream": tag, "reason": "node tags lost, duplicated, or ids not integers", "canonical_nodes": repr(list(ob.cg.nodes(data=True)))[:400]},
                      classes=classes)
        return ob
    genc, cenc = dump(ob.gt), dump(ob.cg)
    mp = [[int(v), int(ob.mapping[v])] for v in ob.gt.nodes]

    def on_spec(rep):
        if rep != "ok":
            ctx.violation("canonical graph is not the input relabelled by a bijection onto 1..N with all attributes preserved",
                          case, {"stream": tag, "spec.isRelabelling": rep, "canonical_nodes": sorted(ob.cg.nodes)}, classes=classes)
            ob.spec_failed = True
    batch.add({"cmd": "spec.isRelabelling", "graph": genc, "canon": cenc, "mapping": mp}, on_spec)
    order = [v for v, _ in sorted(ob.mapping.items(), key=lambda kv: kv[1])]
    if custom_keys(opts):
        return check_canon_canon(ctx, be, gc, ob, tag, classes, case, opts)
    try:
        impl_ser = parse_ser(ob.text)
    except Exception as e:
        ctx.violation("serialised text of the canonical graph cannot be parsed back", case, {"text": ob.text[:300], "err": str(e)}, no_input=True)
        return ob

    def on_ser(rep):
        if getattr(ob, "spec_failed", False):
            return
        if rep != impl_ser:
            ctx.violation("correspondence: serialisation of the implementation's canonical graph differs from the model's serialise(canonBy order G)",
                          case, {"stream": tag, "impl": impl_ser, "model": rep}, classes=classes, no_input=True)
    batch.add({"cmd": "canon.sig", "graph": genc, "order": [int(v) for v in order]}, on_ser)

    def on_ser2(rep):
        if rep != impl_ser:
            ctx.violation("correspondence: model serialise(G') differs from the implementation's _serialise(G') on the canonical graph G'",
                          case, {"stream": tag, "impl": impl_ser, "model": rep}, classes=classes, no_input=True)
    batch.add({"cmd": "canon.serialise", "graph": cenc}, on_ser2)
    return check_canon_canon(ctx, be, gc, ob, tag, classes, case, opts)


def check_canon_canon(ctx, be, gc, ob, tag, classes, case, opts=None):
    """canon(canon g): gated for the exact back-end (equal serialisation), recorded for the others."""
    try:
        cg2 = gc._make_canonical_graph(ob.cg)
        text2 = gc._serialise(cg2)
    except Exception as e:
        ctx.violation(f"canonicalising the canonical graph raises {type(e).__name__}", case, {"stream": tag}, classes=classes)
        return ob
    if text2 == ob.text:
        ctx.count(f"canon_canon_fixed:{be}")
    else:
        ctx.count(f"canon_canon_moved:{be}")
        if be in EXACT:
            ctx.violation("exact back-end: the canonical graph of a canonical graph has a different serialisation (isomorphic inputs, different signatures)",
                          with_opts({"kind": "pair", "backend": be, "x": dump(ob.gt), "y": dump(ob.cg)}, opts), {"stream": tag}, classes=classes + ["canon_of_canon"])
    return ob


def check_copies(ctx, batch, base, copies, tag, deep_n=1, backends=BACKENDS, opts=None):
    """`copies` are relabelled / re-ordered copies of `base` (isomorphic by construction; the Lean
    engine confirms it on the reported pair).  Returns {backend: signature of base}."""
    out = {}
    classes = input_classes(base)
    for be in backends:
        ob0 = check_single(ctx, batch, be, base, tag, deep=True, opts=opts)
        if ob0.error:
            continue
        out[be] = ob0.sig_plain
        sigs = {}
        for i, c in enumerate(copies):
            ob = check_single(ctx, batch, be, c, tag, deep=(i < deep_n), opts=opts)
            if ob.error:
                continue
            ctx.count(f"copies:{be}")
            if be in EXACT and (ob.sig_plain != ob0.sig_plain):
                if not sigs:
                    report_pair(ctx, batch, be, base, c, True, ob0, ob, tag, classes, opts)
                sigs[ob.sig_plain] = 1
            if be in EXACT and ob.sig_plain == ob0.sig_plain:
                # (4) same canonical graph on the covered attributes: texts without the tag are equal
                pass
            if be in EXACT and i == 0:
                # the search's own signature (NautyCanonicalizer.graph_signature, an observation point of the
                # property): an attribute-preserving copy gets the same one
                d0, d1 = direct_sig(be, base, opts), direct_sig(be, c, opts)
                if d0 is not None and d1 is not None:
                    ctx.count("direct_signature_copies")
                    if d0 != d1:
                        ctx.violation("exact back-end: NautyCanonicalizer.graph_signature differs between a graph and a relabelled copy of it",
                                      with_opts({"kind": "pair", "backend": be, "x": dump(base), "y": dump(c)}, opts),
                                      {"stream": tag, "graph_signature_x": d0, "graph_signature_y": d1}, classes=classes)
        if sigs:
            ctx.count(f"invariance_broken_bases:{be}")
        if full(ctx):
            break
    return out


def direct_sig(be, g, opts=None):
    """`NautyCanonicalizer.graph_signature` of the exact back-end's search object (None when the
    back-end has none or the call raises: exceptions are reported by check_single)."""
    nauty = getattr(canoniser(be, False, opts), "nauty", None)
    if nauty is None:
        return None
    try:
        return nauty.graph_signature(g)
    except Exception:
        return None


def report_pair(ctx, batch, be, x, y, iso, obx, oby, tag, classes, opts=None):
    case = with_opts({"kind": "pair", "backend": be, "x": dump(x), "y": dump(y)}, opts)
    if iso:
        ctx.violation("exact back-end: isomorphic graphs receive different signatures / canonical graphs",
                      case, {"stream": tag, "sig_x": obx.sig_plain, "sig_y": oby.sig_plain,
                             "ser_x": obx.text[:400], "ser_y": oby.text[:400]}, classes=classes)
    else:
        ctx.violation("equal signatures for graphs that are not isomorphic on the covered attributes",
                      case, {"stream": tag, "sig": obx.sig_plain, "ser_x": obx.text[:400]}, classes=classes)


def check_pair(ctx, batch, x, y, tag, backends=BACKENDS, twin=False, opts=None, extras=None):
    """(3)/(4)/(5) on one pair, isomorphism (on the attributes the signature covers under `opts`)
    decided by the proven engine."""
    classes = sorted(set(input_classes(x) + input_classes(y)))
    obs = {}
    for be in backends:
        a, b = (check_single(ctx, batch, be, x, tag, deep=False, twin=twin, opts=opts),
                check_single(ctx, batch, be, y, tag, deep=False, twin=twin, opts=opts))
        if a.error or b.error:
            continue
        obs[be] = (a, b)
    if not obs:
        return

    def on_iso(iso):
        if full(ctx):
            return
        ctx.count("pairs_iso" if iso else "pairs_noniso")
        for be, (a, b) in obs.items():
            eq = a.sig_plain == b.sig_plain
            ctx.count(f"pair:{be}:{'eq' if eq else 'ne'}:{'iso' if iso else 'noniso'}")
            if eq and not iso:
                report_pair(ctx, batch, be, x, y, False, a, b, tag, classes, opts)
            if be in EXACT and iso and not eq:
                report_pair(ctx, batch, be, x, y, True, a, b, tag, classes, opts)
            if be in EXACT and not iso and not twin:
                dx, dy = direct_sig(be, x, opts), direct_sig(be, y, opts)
                if dx is not None and dx == dy:
                    ctx.violation("exact back-end: NautyCanonicalizer.graph_signature is equal for graphs that are not isomorphic on the covered attributes",
                                  with_opts({"kind": "pair", "backend": be, "x": dump(x), "y": dump(y)}, opts), {"stream": tag, "graph_signature": dx}, classes=classes)
            if be in EXACT and iso and eq:
                # (4) canonical graphs equal on the covered attributes
                case = with_opts({"kind": "pair", "backend": be, "x": dump(x), "y": dump(y)}, opts)
                if a.text != b.text:  # `_serialise` prints the covered keys only
                    ctx.violation("exact back-end: isomorphic graphs with equal signatures have different canonical graphs on the covered attributes",
                                  case, {"stream": tag}, classes=classes)
                elif ids_ok(a.cg) and ids_ok(b.cg) and not custom_keys(opts):
                    def on_cov(rep, case=case):
                        ctx.count("covEq_checked")
                        if rep is not True:
                            ctx.violation("exact back-end: isomorphic graphs have different canonical graphs on the covered attributes (spec.covEq)",
                                          case, {"stream": tag}, classes=classes)
                    batch.add({"cmd": "spec.covEq", "g": dump(a.cg), "h": dump(b.cg)}, on_cov)
            wrappers(ctx, be, x, y, eq, iso, tag, classes, twin, opts, extras)
    batch.add(iso_req(x, y, opts), on_iso)


_wrapper_calls = [0]
WRAPPER_EXTRAS_EVERY = 17  # (coprime with the number of back-ends: the extras rotate through them)


def wrappers(ctx, be, x, y, sig_eq, iso, tag, classes, twin=False, opts=None, extras=None):
    """(5) CanonicalGraph / SynGraph equality and hash follow the signatures.  On every 17th call (and
    when a replayed case says so) also the remaining public surface of the value objects."""
    if twin:
        from synkit.Graph.Canon.canon_graph import CanonicalGraph
    else:
        from synkit.Graph.canon_graph import CanonicalGraph
    from synkit.Graph.syn_graph import SynGraph
    gc = canoniser(be, twin, opts)
    case = with_opts({"kind": "pair", "backend": be, "x": dump(x), "y": dump(y)}, opts)
    try:
        sx, sy = SynGraph(x, gc), SynGraph(y, gc)
        eq = (sx == sy)
        if eq != sig_eq or (eq and hash(sx) != hash(sy)) or sx.signature != gc.canonical_signature(x):
            ctx.violation("SynGraph equality / hash is not equality of the signatures of the wrapped graphs", case, {"stream": tag}, classes=classes)
        cx, cy = CanonicalGraph(x, gc), CanonicalGraph(y, gc)
        ceq = (cx == cy)
        ctx.count(f"wrapper:{be}:{'eq' if ceq else 'ne'}")
        if ceq and hash(cx) != hash(cy):
            ctx.violation("CanonicalGraph objects compare equal but hash differently", case, {"stream": tag}, classes=classes)
        if ceq and not iso:
            ctx.violation("CanonicalGraph objects compare equal for graphs that are not isomorphic on the covered attributes", case,
                          {"stream": tag}, classes=classes)
        if be in EXACT and iso and not ceq:
            ctx.violation("exact back-end: CanonicalGraph objects of isomorphic graphs compare unequal", case,
                          {"stream": tag, "wrapper_eq": ceq, "sig_eq": sig_eq}, classes=classes)
        _wrapper_calls[0] += 1
        if extras or (extras is None and _wrapper_calls[0] % WRAPPER_EXTRAS_EVERY == 0):
            case = dict(case, extras=True)
            wrapper_extras(ctx, be, gc, x, y, sx, sy, cx, cy, sig_eq, ceq, case, tag, classes)
    except Exception as e:
        ctx.violation(f"wrapper construction raises {type(e).__name__}", case, {"stream": tag, "err": str(e)[:200]}, classes=classes)


def wrapper_extras(ctx, be, gc, x, y, sx, sy, cx, cy, sig_eq, ceq, case, tag, classes):
    """The rest of the value objects' public surface, each answer against what the canonicaliser itself
    returns for the wrapped graph (`a function of the graph`) or against the pair's signatures:
    CanonicalGraph.original_graph / canonical_graph, the bulk constructor canonicalise_graphs, the alias
    graph_canonical_hash, SynGraph.raw / canonical, SynGraph(..., canon=False), comparison with a non-wrapper."""
    from synkit.Graph.syn_graph import SynGraph
    ctx.count(f"wrapper_extras:{be}")

    def bad(what, **d):
        ctx.violation(what, case, dict(d, stream=tag), classes=classes)
    want_x, want_y = norm_graph(gc.make_canonical_graph(x)), norm_graph(gc.make_canonical_graph(y))
    if cx.original_graph is not x or cy.original_graph is not y:
        bad("CanonicalGraph.original_graph is not the graph the wrapper was built from")
    if norm_graph(cx.canonical_graph) != want_x or norm_graph(cy.canonical_graph) != want_y:
        bad("CanonicalGraph.canonical_graph is not the canonical graph of the wrapped graph (not a function of the graph)")
    if gc.graph_canonical_hash(x) != gc.canonical_signature(x):
        bad("graph_canonical_hash (alias) differs from canonical_signature")
    ws = gc.canonicalise_graphs(g for g in (x, y))
    hs = [w.canonical_hash for w in ws]
    if len(ws) != 2 or sorted(hs) != sorted([cx.canonical_hash, cy.canonical_hash]) or \
            any((w.original_graph is x and w != cx) or (w.original_graph is y and w != cy) for w in ws) or \
            sorted(id(w.original_graph) for w in ws) != sorted([id(x), id(y)]):
        bad("canonicalise_graphs: the bulk wrappers are not the wrappers of the individual graphs", bulk=hs, single=[cx.canonical_hash, cy.canonical_hash])
    if len({w for w in ws}) != (1 if ceq else 2):
        bad("CanonicalGraph objects in a set do not collapse exactly when they compare equal")
    if sx.raw is not x or norm_graph(sx.canonical) != want_x or norm_graph(sy.canonical) != want_y:
        bad("SynGraph.raw / SynGraph.canonical is not the wrapped graph / its canonical graph")
    lx, ly = SynGraph(x, gc, canon=False), SynGraph(y, gc, canon=False)
    if (lx == ly) != sig_eq or (lx == sy) != sig_eq or (lx == sx) is not True or hash(lx) != hash(sx) or lx.signature != sx.signature:
        bad("SynGraph(..., canon=False): equality / hash is not equality of the signatures of the wrapped graphs")
    if len({sx, sy, lx, ly}) != (1 if sig_eq else 2):
        bad("SynGraph objects in a set do not collapse exactly when their signatures are equal")
    for other in (x, "SynGraph", None, cx):
        if (sx == other) is not False or (cx == other) is not (other is cx):
            bad("a value object compares equal to something that is not a wrapper of its kind", other=type(other).__name__)


# ------------------------------------------------------------------ generators
def tiny_bases(n, elements, orders, rnd=None, sample=None):
    """All labelled graphs on nodes 0..n-1: every edge absent or with an order from `orders`,
    every node an element from `elements` (node 0 additionally hcount 0/1 when n <= 3)."""
    pairs = list(itertools.combinations(range(n), 2))
    out = []
    hopts = [0, 1] if n <= 3 else [0]
    for es in itertools.product([None] + list(orders), repeat=len(pairs)):
        for els in itertools.product(elements, repeat=n):
            for h in hopts:
                out.append((es, els, h))
    if sample is not None and len(out) > sample:
        out = rnd.sample(out, sample)
    gs = []
    for es, els, h in out:
        nodes = [(i, atom(els[i], hcount=(h if i == 0 else 0))) for i in range(n)]
        edges = [(u, v, {"order": o}) for (u, v), o in zip(pairs, es) if o is not None]
        gs.append(mk(nodes, edges))
    return gs


def all_copies(rnd, g, n_orders=3):
    nodes = list(g.nodes)
    m = g.number_of_edges()
    res = []
    for perm in itertools.permutations(nodes):
        pi = dict(zip(nodes, perm))
        for k in ({1: [2], 2: [0, 2]}.get(n_orders, range(n_orders))):
            if k == 0:
                no, eo, fl = nodes, list(range(m)), [False] * m
            elif k == 1:
                no, eo, fl = nodes[::-1], list(range(m))[::-1], [True] * m
            else:
                no = nodes[:]
                rnd.shuffle(no)
                eo = list(range(m))
                rnd.shuffle(eo)
                fl = [rnd.random() < 0.5 for _ in range(m)]
            res.append(relabelled_copy(g, pi, no, eo, fl))
    return res


ELS = ["C", "N", "O", "S"]


def random_mol(rnd, n, its=False, extra=True):
    """Tree + ring closures, degree <= 4; covered attributes drawn from small alphabets (so that
    symmetric and near-symmetric graphs are frequent); uncovered attributes carried along."""
    nodes = []
    same = rnd.random() < 0.35
    for i in range(n):
        a = atom(rnd.choice(ELS[:2] if same else ELS), rnd.choice([0, 0, 0, 0, 1, -1]) if not same else 0,
                 rnd.random() < 0.25 and not same, rnd.choice([0, 0, 1, 2, 3]) if not same else 0)
        if extra:
            a["atom_map"] = rnd.randint(0, 30)
            a["neighbors"] = [rnd.choice(ELS) for _ in range(rnd.randint(0, 2))]
            a["typesGH"] = ((a["element"], a["aromatic"], a["hcount"], a["charge"], []), (a["element"], False, 0, 0, ["C"]))
        nodes.append((i, a))
    edges = {}
    deg = [0] * n
    for i in range(1, n):
        if rnd.random() < 0.12:
            continue  # disconnected now and then
        cands = [j for j in range(i) if deg[j] < 4]
        if not cands:
            continue
        j = rnd.choice(cands)
        edges[(j, i)] = 1
        deg[i] += 1
        deg[j] += 1
    for _ in range(rnd.choice([0, 0, 1, 1, 2, 3])):
        if n < 3:
            break
        u, v = sorted(rnd.sample(range(n), 2))
        if (u, v) not in edges and deg[u] < 4 and deg[v] < 4:
            edges[(u, v)] = 1
            deg[u] += 1
            deg[v] += 1
    es = []
    uniform = rnd.random() < 0.4
    for (u, v) in edges:
        if its:
            o1, o2 = (1.0, 1.0) if uniform else rnd.choice([(1.0, 1.0), (1.0, 2.0), (2.0, 1.0), (0.0, 1.0), (1.0, 0.0), (1.5, 1.5), (2.0, 2.0)])
            d = {"order": (o1, o2), "standard_order": o1 - o2}
        else:
            d = {"order": 1.0 if uniform else rnd.choice([1.0, 1.0, 2.0, 1.5, 3.0])}
        if extra and rnd.random() < 0.3:
            d["w"] = rnd.randint(0, 5)
        es.append((u, v, d))
    ids = rnd.sample(range(0, 3 * n + 3), n)
    g0 = mk(nodes, es)
    return relabelled_copy(g0, dict(zip(range(n), ids)))


def uniform_graph(G0, el="C", order=1.0):
    nodes = [(int(n), atom(el)) for n in G0.nodes]
    return mk(nodes, [(int(u), int(v), {"order": order}) for u, v in G0.edges])


def symmetric_families(quick):
    fams = {}
    for k in (3, 4, 5, 6, 8):
        fams[f"C{k}"] = nx.cycle_graph(k)
    fams["K23"] = nx.complete_bipartite_graph(2, 3)
    fams["K33"] = nx.complete_bipartite_graph(3, 3)
    fams["K4"] = nx.complete_graph(4)
    fams["star4"] = nx.star_graph(4)
    fams["Q3"] = nx.cubical_graph()
    fams["2xC3"] = nx.disjoint_union(nx.cycle_graph(3), nx.cycle_graph(3))
    fams["prism"] = nx.circular_ladder_graph(3)
    fams["2xP2"] = nx.disjoint_union(nx.path_graph(2), nx.path_graph(2))
    fams["P2+P3"] = nx.disjoint_union(nx.path_graph(2), nx.path_graph(3))
    if not quick:
        fams["C10"] = nx.cycle_graph(10)
        fams["Petersen"] = nx.petersen_graph()
        fams["K34"] = nx.complete_bipartite_graph(3, 4)
        fams["3xC3"] = nx.disjoint_union(nx.disjoint_union(nx.cycle_graph(3), nx.cycle_graph(3)), nx.cycle_graph(3))
        fams["ladder4"] = nx.ladder_graph(4)
    out = {k: uniform_graph(v) for k, v in fams.items()}
    # one refinement cell, several orbits (1-WL cannot tell the rings apart): the search has to branch
    mixed = {"C3+C4": (3, 4), "C3+C5": (3, 5)}
    if not quick:
        mixed.update({"C4+C6": (4, 6), "2xC3+C6": (3, 3, 6)})
    for name, ks in mixed.items():
        G0 = nx.Graph()
        for k in ks:
            G0 = nx.disjoint_union(G0, nx.cycle_graph(k))
        out[name] = uniform_graph(G0)
        # the same behind an atom that sorts first (a singleton first cell; the target cell is not the first)
        g = uniform_graph(G0)
        b = max(g.nodes) + 1
        g.add_node(b, **atom("B"))
        out["B." + name] = g
        g2 = uniform_graph(G0)
        g2.add_node(b, **atom("B"))
        g2.add_edge(b, 0, order=1.0)
        out["B-" + name] = g2
    # alternating single/double bonds: refinement sees the same multiset at every atom
    for k in ((4, 6) if quick else (4, 6, 8, 10)):
        g = uniform_graph(nx.cycle_graph(k))
        for i in range(k):
            g[i][(i + 1) % k]["order"] = 1.0 if i % 2 == 0 else 2.0
        out[f"kekule-C{k}"] = g
        h = g.copy()
        b = k
        h.add_node(b, **atom("B"))
        out[f"B.kekule-C{k}"] = h
    return out


def near_misses(rnd, g):
    """One covered attribute / one edge changed (may or may not stay isomorphic: the engine decides)."""
    out = []
    nodes = list(g.nodes)
    edges = list(g.edges)
    if nodes:
        h = g.copy()
        v = rnd.choice(nodes)
        k = rnd.choice(NODE_KEYS)
        d = h.nodes[v]
        d[k] = {"element": rnd.choice([e for e in ("B", "N", "O") if e != d.get("element")]), "charge": d.get("charge", 0) + 1,
                "aromatic": not d.get("aromatic", False), "hcount": d.get("hcount", 0) + 1}[k]
        out.append(h)
    if edges:
        h = g.copy()
        u, v = rnd.choice(edges)
        o = h[u][v].get("order", 0)
        if isinstance(o, tuple):
            h[u][v]["order"] = (o[1], o[0])
            h[u][v]["standard_order"] = o[1] - o[0]
        else:
            h[u][v]["order"] = 2.0 if o != 2.0 else 1.0
        out.append(h)
        h = g.copy()
        h.remove_edge(*rnd.choice(edges))
        out.append(h)
    non = [(u, v) for u, v in itertools.combinations(nodes, 2) if not g.has_edge(u, v)]
    if non and edges:
        # move an edge: same degree multiset more often than not
        h = g.copy()
        a, b = rnd.choice(edges)
        d = dict(h[a][b])
        h.remove_edge(a, b)
        u, v = rnd.choice(non)
        h.add_edge(u, v, **d)
        out.append(h)
    return out


# ------------------------------------------------------------------ streams
def load_regress():
    d = ROOT / "regress" / "C08"
    return [json.loads(f.read_text()) for f in sorted(d.glob("*.json"))] if d.exists() else []


def run_case(ctx, batch, c, tag):
    if c["kind"] == "single":
        check_single(ctx, batch, c["backend"], undump(c["graph"]), tag, twin=c.get("twin", False), opts=c.get("opts"))
    elif c["kind"] == "pair":
        check_pair(ctx, batch, undump(c["x"]), undump(c["y"]), tag, backends=[c["backend"]], opts=c.get("opts"), extras=c.get("extras"))
    elif c["kind"] == "history":
        check_history(ctx, c, tag, shrink=False)
    elif c["kind"] == "rule":
        check_rules(ctx, batch, c["backend"], c["a"], c["b"], tag, c.get("ctor", "smart"))
    elif c["kind"] == "ir":
        check_ir(ctx, batch, undump(c["graph"]), tag, c.get("cfg"))
    elif c["kind"] == "direct":
        check_direct(ctx, batch, hist_undump(c["graph"]), c["cfg"], tag, flags=c.get("flags"), depths=[c["max_depth"]] if "max_depth" in c else None)
    elif c["kind"] == "direct-pair":
        check_direct_pair(ctx, batch, hist_undump(c["x"]), hist_undump(c["y"]), c["cfg"], tag)
    elif c["kind"] == "class":
        check_class_case(ctx, batch, c, tag)
    batch.run()


def stream_tiny(ctx, batch):
    """tiny-exhaustive bases × all node permutations × 3 insertion orders; pool kernel by the proven
    brute-force canonical form."""
    rnd = ctx.rnd
    # quick: 3- and 4-node graphs with 1 insertion order per permutation (shuffled nodes and edges, random orientation); all 3 on 1-2 nodes
    plan = [(1, ["C", "O"], [1.0], None, 3), (2, ["C", "O"], [1.0, 2.0], None, 3), (3, ["C", "O"], [1.0, 2.0], None, 1 if ctx.quick else 3)]
    if ctx.quick:
        plan.append((4, ["C", "O"], [1.0], 32, 1))
    else:
        plan.append((4, ["C", "O"], [1.0], None, 2))
        plan.append((4, ["C", "N"], [1.0, 2.0], 300, 2))
        plan.append((5, ["C", "O"], [1.0], 150, 1))
    pool = []
    for n, els, orders, sample, n_orders in plan:
        bases = tiny_bases(n, els, orders, rnd, sample)
        ctx.count(f"tiny_bases_n{n}", len(bases))
        for g in bases:
            copies = all_copies(rnd, g, n_orders)
            sigs = check_copies(ctx, batch, g, copies, f"tiny-n{n}", deep_n=1)
            ctx.case(["tiny", dump(g)], nontrivial=g.number_of_nodes() >= 2,
                     sample={"stream": "tiny", "graph": dump(g), "copies": len(copies)} if n == 3 else None)
            pool.append((g, sigs))
            if full(ctx):
                return
        batch.run()
    kernel_pool(ctx, batch, pool, "tiny-pool")


def kernel_pool(ctx, batch, pool, tag):
    """Partition by signature vs partition by the proven exact form `sigBrute`."""
    keys = [None] * len(pool)
    for i, (g, _) in enumerate(pool):
        def h(rep, i=i):
            keys[i] = json.dumps(rep["ser"], sort_keys=True)
        batch.add({"cmd": "canon.brute", "graph": cov_view(g)}, h)
    batch.run()
    ctx.count(f"{tag}:graphs", len(pool))
    ctx.count(f"{tag}:iso_classes", len(set(keys)))
    for be in BACKENDS:
        by_sig, by_key = {}, {}
        for i, (g, sigs) in enumerate(pool):
            if be not in sigs:
                continue
            by_sig.setdefault(sigs[be], []).append(i)
            by_key.setdefault(keys[i], []).append(i)
        ctx.count(f"{tag}:{be}:signatures", len(by_sig))
        for s, idx in by_sig.items():  # soundness: one signature -> one class
            ks = {keys[i] for i in idx}
            if len(ks) > 1:
                i = idx[0]
                j = next(j for j in idx if keys[j] != keys[i])
                ob_i, ob_j = Obs(be, pool[i][0]), Obs(be, pool[j][0])
                report_pair(ctx, batch, be, pool[i][0], pool[j][0], False, ob_i, ob_j, tag, input_classes(pool[i][0]))
                break
        if be in EXACT:
            for k, idx in by_key.items():  # invariance: one class -> one signature
                ss = {pool[i][1][be] for i in idx}
                if len(ss) > 1:
                    i = idx[0]
                    j = next(j for j in idx if pool[j][1][be] != pool[i][1][be])
                    report_pair(ctx, batch, be, pool[i][0], pool[j][0], True, Obs(be, pool[i][0]), Obs(be, pool[j][0]), tag,
                                input_classes(pool[i][0]))
                    break


def stream_random(ctx, batch):
    rnd = ctx.rnd
    n_graphs = 80 if ctx.quick else 900
    k_copies = 3 if ctx.quick else 5
    pool = []
    for t in range(n_graphs):
        n = rnd.choice([1, 2, 3, 4, 5, 5, 6, 6, 7, 8, 9])
        g = random_mol(rnd, n, its=rnd.random() < 0.35)
        ctx.count(f"random_n{n}")
        copies = [random_copy(rnd, g) for _ in range(k_copies)]
        sigs = check_copies(ctx, batch, g, copies, "random", deep_n=1)
        ctx.case(["random", dump(g)], nontrivial=n >= 2, sample={"stream": "random", "graph": dump(g)} if t < 2 else None)
        for c in copies[:2]:
            check_pair(ctx, batch, g, c, "random-copy")
        for h in near_misses(rnd, g):
            check_pair(ctx, batch, g, random_copy(rnd, h), "near-miss")
            ctx.case(["near", dump(g), dump(h)], nontrivial=True)
        if n <= 6:
            pool.append((g, sigs))
        if t % 50 == 49:
            batch.run()
        if full(ctx):
            return
    batch.run()
    # pairs across the pool with equal invariants but drawn independently are rare; the tiny pool covers that


def stream_symmetric(ctx, batch):
    rnd = ctx.rnd
    fams = symmetric_families(ctx.quick)
    k = 6 if ctx.quick else 40
    k0 = k
    for name, g in fams.items():
        k = k0 if g.number_of_nodes() < 11 else 6  # the exact search is slow on large single-cell graphs
        copies = [random_copy(rnd, g) for _ in range(k)]
        check_copies(ctx, batch, g, copies, f"sym:{name}", deep_n=1 if ctx.quick else 2)
        ctx.case(["sym", name], nontrivial=True, sample={"stream": "symmetric", "family": name})
        ctx.count("symmetric_families")
        # one label changed on one node / one edge: breaks part of the symmetry
        for h in near_misses(rnd, g)[:2]:
            hc = [random_copy(rnd, h) for _ in range(k // 2)]
            check_copies(ctx, batch, h, hc, f"sym1:{name}", deep_n=1)
            check_pair(ctx, batch, g, random_copy(rnd, h), "sym-near-miss")
            ctx.case(["sym1", name, dump(h)], nontrivial=True)
        if full(ctx):
            return
        batch.run()
    # cospectral-looking / same-degree-sequence non-isomorphic pairs
    pairs = [("2xC3", "C6"), ("prism", "K33"), ("2xP2", None)]
    named = dict(fams)
    named["C6"] = fams["C6"]
    for a, b in pairs:
        if b is None:
            continue
        check_pair(ctx, batch, random_copy(rnd, named[a]), random_copy(rnd, named[b]), f"hard-pair:{a}/{b}")
        ctx.case(["hard", a, b], nontrivial=True)
    if not ctx.quick:
        check_pair(ctx, batch, random_copy(rnd, fams["3xC3"]), random_copy(rnd, uniform_graph(nx.cycle_graph(9))), "hard-pair:3xC3/C9")
        check_pair(ctx, batch, random_copy(rnd, fams["Q3"]), random_copy(rnd, uniform_graph(nx.disjoint_union(nx.complete_graph(4), nx.complete_graph(4)))), "hard-pair:Q3/2K4")
    batch.run()


def stream_twin(ctx, batch):
    """synkit/Graph/Canon/canon_graph.py is a second copy of the module: same checks on a sample."""
    rnd = ctx.rnd
    for t in range(12 if ctx.quick else 60):
        g = random_mol(rnd, rnd.randint(2, 7))
        for be in BACKENDS:
            check_single(ctx, batch, be, g, "twin", twin=True)
        check_pair(ctx, batch, g, random_copy(rnd, g), "twin", twin=True, extras=(t % 4 == 0) or None)
        if t % 4 == 1:  # the option branches of the twin (WL without node attributes)
            for be in ("wl", "morgan"):
                check_pair(ctx, batch, g, random_copy(rnd, near_misses(rnd, g)[0]), "twin-options", backends=[be], twin=True, opts={"node_attrs": []})
        ctx.case(["twin", dump(g)], nontrivial=True)
    batch.run()


def stream_malformed(ctx, batch):
    """Empty graph, isolated nodes, attributes absent everywhere (defaults apply), and — classified
    `mixed_missing_attrs` — attributes present on some nodes only."""
    rnd = ctx.rnd
    gs = [mk([], []), mk([(4, atom())], []), mk([(4, atom()), (9, atom())], []),
          mk([(2, {}), (5, {})], [(2, 5, {"order": 1.0})]),
          mk([(2, {"element": "C"}), (5, {"element": "O"}), (7, {"element": "C"})], [(2, 5, {"order": 1.0}), (5, 7, {"order": 1.0})]),
          mk([(1, {"element": "C", "hcount": 1}), (3, {"element": "C", "hcount": 1})], [(1, 3, {"order": 2.0})])]
    for g in gs:
        copies = [random_copy(rnd, g) for _ in range(4)]
        check_copies(ctx, batch, g, copies, "malformed-uniform", deep_n=2)
        ctx.case(["malformed", dump(g)], nontrivial=False)
        ctx.count("malformed_uniform")
    mixed = [mk([(1, {"element": "C"}), (2, {"element": "C", "charge": 0})], [(1, 2, {"order": 1.0})]),
             mk([(1, atom()), (2, atom()), (3, {"element": "C", "charge": 0, "aromatic": False})], [(1, 2, {"order": 1.0}), (2, 3, {"order": 1.0})])]
    for g in mixed:
        for be in BACKENDS:
            check_single(ctx, batch, be, g, "malformed-mixed")
        check_pair(ctx, batch, g, random_copy(rnd, g), "malformed-mixed")
        ctx.case(["malformed-mixed", dump(g)], nontrivial=False)
        ctx.count("malformed_mixed")
    batch.run()


def stream_std(ctx, batch):
    """standard_order NOT a function of order (never produced by SynKit itself: ITS graphs carry
    standard_order = order[0] - order[1], molecule graphs none).  Classified."""
    rnd = ctx.rnd
    for name in ("C4", "C6", "K23"):
        g = symmetric_families(True)[name].copy()
        es = list(g.edges)
        for k, (u, v) in enumerate(es):
            g[u][v]["standard_order"] = 1 if k == 0 else 0
        copies = [random_copy(rnd, g) for _ in range(8)]
        check_copies(ctx, batch, g, copies, "std-independent", deep_n=1)
        ctx.case(["std", name], nontrivial=True)
        ctx.count("std_independent")
    batch.run()


RULES = [
    # (reaction, an equivalent renumbering / reordering, a different reaction)
    ("[CH3:1][CH2:2][OH:3]>>[CH3:1][CH:2]=[O:3]", "[OH:1][CH2:2][CH3:3]>>[O:1]=[CH:2][CH3:3]", "[CH3:1][CH2:2][NH2:3]>>[CH3:1][CH:2]=[NH:3]"),
    ("[CH2:1]=[CH2:2].[H:3][H:4]>>[CH2:1]([H:3])[CH2:2][H:4]", "[H:1][H:2].[CH2:3]=[CH2:4]>>[CH2:3]([H:1])[CH2:4][H:2]", "[CH2:1]=[O:2].[H:3][H:4]>>[CH2:1]([H:3])[O:2][H:4]"),
    ("[CH3:1][Cl:2].[OH2:3]>>[CH3:1][OH:3].[ClH:2]", "[OH2:1].[Cl:2][CH3:3]>>[OH:1][CH3:3].[ClH:2]", "[CH3:1][Br:2].[OH2:3]>>[CH3:1][OH:3].[BrH:2]"),
]


_gml_cache = {}


def rule_gml(smart):
    """The reaction as a GML rule text (whole reaction, not only the centre) — the input format of
    `SynRule.from_gml` and `CanonicalRule`."""
    if smart not in _gml_cache:
        from synkit.IO.chem_converter import smart_to_gml
        _gml_cache[smart] = smart_to_gml(smart, core=False)
    return _gml_cache[smart]


def check_rules(ctx, batch, be, a, b, tag, ctor="smart"):
    """SynRule built by `from_smart` (ctor="smart") or by the alternative constructor `from_gml` from the
    GML text of the same reaction (ctor="gml"; then also the GML value object `CanonicalRule`)."""
    from synkit.Rule.syn_rule import SynRule
    gc = canoniser(be)
    try:
        if ctor == "gml":
            ta, tb = rule_gml(a), rule_gml(b)
            ra, rb = SynRule.from_gml(ta, canonicaliser=gc), SynRule.from_gml(tb, canonicaliser=gc)
        else:
            ra, rb = SynRule.from_smart(a, canonicaliser=gc), SynRule.from_smart(b, canonicaliser=gc)
    except Exception as e:
        ctx.count(f"rule_build_error:{type(e).__name__}")
        return
    eq = (ra == rb)
    case = {"kind": "rule", "backend": be, "a": a, "b": b}
    if ctor != "smart":
        case["ctor"] = ctor
    if eq != (ra.canonical_smiles == rb.canonical_smiles) or (eq and hash(ra) != hash(rb)) or (ra == "rule") is not False:
        ctx.violation("SynRule equality / hash is not equality of its fragment signatures", case, {"stream": tag})
        return
    if ra.canonical_smiles != (gc.canonical_signature(ra.left.raw), gc.canonical_signature(ra.right.raw)):
        ctx.violation("SynRule fragment signatures are not the signatures of its left / right fragments", case, {"stream": tag})
        return
    res = {}

    def done():
        if len(res) < 2:
            return
        iso = res["l"] and res["r"]
        ctx.count(f"rule:{be}:{'eq' if eq else 'ne'}:{'iso' if iso else 'noniso'}" + ("" if ctor == "smart" else f":{ctor}"))
        if eq and not iso:
            ctx.violation("SynRule objects compare equal although their fragments are not isomorphic on the covered attributes", case, {"stream": tag})
        if be in EXACT and iso and not eq:
            ctx.violation("exact back-end: SynRule objects with isomorphic left and right fragments compare unequal", case, {"stream": tag},
                          classes=sorted(set(input_classes(ra.left.raw) + input_classes(ra.right.raw))))
    for side, x, y in (("l", ra.left.raw, rb.left.raw), ("r", ra.right.raw, rb.right.raw)):
        if not (ids_ok(x) and ids_ok(y)):
            return

        def h(rep, side=side):
            res[side] = rep
            done()
        try:
            batch.add(iso_req(x, y), h)
        except graphio.Unsupported:
            return
    if ctor == "gml":
        check_canonical_rule(ctx, batch, be, gc, ta, tb, case, tag)
        if be == "wl":  # and the same class of the twin module, with the twin's canonicaliser
            check_canonical_rule(ctx, batch, be, canoniser(be, True), ta, tb, dict(case, twin=True), tag, twin=True)


def check_canonical_rule(ctx, batch, be, gc, ta, tb, case, tag, twin=False):
    """`CanonicalRule` (GML text in, value object out): equal ⇒ the rule graphs are isomorphic on the covered
    attributes, ⇔ for the exact back-end; equal objects hash equally; the digest is a function of the text."""
    if twin:
        from synkit.Graph.Canon.canon_graph import CanonicalRule
    else:
        from synkit.Graph.canon_graph import CanonicalRule
    try:
        ca, cb, ca2 = CanonicalRule(ta, gc), CanonicalRule(tb, gc), CanonicalRule(ta, gc)
        x, y = ca.original_graph, cb.original_graph
        req = iso_req(x, y)
    except Exception as e:
        ctx.count(f"canonical_rule_error:{type(e).__name__}")
        return
    if not (ids_ok(x) and ids_ok(y)):
        return
    ceq = (ca == cb)
    classes = sorted(set(input_classes(x) + input_classes(y)))
    if ca.canonical_hash != ca2.canonical_hash or ca != ca2 or hash(ca) != hash(ca2) or (ceq and hash(ca) != hash(cb)) or (ca == ta) is not False \
            or ca.original_rule != ta or not onto_1_n(ca.canonical_graph, x.number_of_nodes()):
        ctx.violation("CanonicalRule: digest / equality / hash is not a function of the rule text, or the canonical graph is not numbered 1..N", case, {"stream": tag}, classes=classes)
        return

    def on_iso(iso):
        ctx.count(f"canonical_rule:{be}:{'eq' if ceq else 'ne'}:{'iso' if iso else 'noniso'}")
        if ceq and not iso:
            ctx.violation("CanonicalRule objects compare equal although their rule graphs are not isomorphic on the covered attributes", case, {"stream": tag}, classes=classes)
        if be in EXACT and iso and not ceq:
            ctx.violation("exact back-end: CanonicalRule objects of isomorphic rule graphs compare unequal", case, {"stream": tag}, classes=classes)
    batch.add(req, on_iso)


def stream_rules(ctx, batch):
    for a, b, c in RULES:
        for be in BACKENDS:
            for ctor in ("smart", "gml"):
                check_rules(ctx, batch, be, a, b, "rules-equivalent", ctor)
                check_rules(ctx, batch, be, a, c, "rules-different", ctor)
                check_rules(ctx, batch, be, a, a, "rules-same", ctor)
        ctx.case(["rule", a], nontrivial=True)
    batch.run()


# ------------------------------------------------------------------ rare-but-legal inputs
ITS_PAIRS = [((1.0, 2.0), (2.0, 1.0)), ((1.5, 1.0), (1.0, 1.5)), ((0.0, 1.0), (1.0, 0.0)), ((2.0, 3.0), (3.0, 2.0))]
STD_MODES = ["absent", "diff", "zero", "arom"]


def set_std(g, mode):
    """`standard_order` of an ITS-style graph (edge `order` = (reactant, product)) as SynKit produces it:
    absent (hand-built / stripped graphs), order[0]-order[1] (ITSConstruction), 0 where |difference| < 1
    (ITSConstruction(..., ignore_aromaticity=True)), or 0 everywhere.  Always a function of `order`."""
    for u, v, d in g.edges(data=True):
        o = d.get("order")
        d.pop("standard_order", None)
        if mode == "absent" or not isinstance(o, tuple):
            continue
        diff = o[0] - o[1]
        if mode == "zero" or (mode == "arom" and abs(diff) < 1):
            diff = 0
        d["standard_order"] = diff
    return g


def tiny_its_bases(n, alphabet, rnd, sample=None):
    """All labelled graphs on 0..n-1 whose edges are absent or carry a pair-valued order from
    `alphabet`; all atoms carbon, node 0 with hcount 0 or 1 (so that a skeleton symmetry exchanging
    (a, b) with (b, a) exists in many of them); standard_order mode drawn per graph."""
    pairs = list(itertools.combinations(range(n), 2))
    combos = [(es, h) for es in itertools.product([None] + list(alphabet), repeat=len(pairs)) for h in (0, 1)]
    if sample is not None and len(combos) > sample:
        combos = rnd.sample(combos, sample)
    out = []
    for es, h in combos:
        nodes = [(i, atom("C", hcount=(h if i == 0 else 0))) for i in range(n)]
        edges = [(u, v, {"order": o}) for (u, v), o in zip(pairs, es) if o is not None]
        mode = rnd.choice(STD_MODES)
        out.append((set_std(mk(nodes, edges), mode), mode))
    return out


def its_symmetric(rnd, G0, pattern, ab, mode):
    """A symmetric skeleton with pair-valued orders: `alt` alternates (a,b)/(b,a) along the edge list
    (a genuine alternation on cycles), `rand2` draws each edge from {(a,b),(b,a)}, `rand3` also (c,c),
    `one` is uniform (a,b) with a single (b,a)."""
    a, b = ab
    g = uniform_graph(G0)
    es = list(g.edges)
    one = rnd.randrange(len(es)) if es else 0
    for k, (u, v) in enumerate(es):
        if pattern == "alt":
            o = a if k % 2 == 0 else b
        elif pattern == "rand2":
            o = rnd.choice([a, b])
        elif pattern == "rand3":
            o = rnd.choice([a, b, (1.0, 1.0)])
        else:
            o = b if k == one else a
        g[u][v]["order"] = o
    return set_std(g, mode)


def skeletons(quick):
    sk = {f"C{k}": nx.cycle_graph(k) for k in (3, 4, 5, 6)}
    sk.update({f"P{k}": nx.path_graph(k) for k in (3, 4, 5)})
    sk["star3"] = nx.star_graph(3)
    sk["K23"] = nx.complete_bipartite_graph(2, 3)
    sk["2xP3"] = nx.disjoint_union(nx.path_graph(3), nx.path_graph(3))
    sk["2xC3"] = nx.disjoint_union(nx.cycle_graph(3), nx.cycle_graph(3))
    sk["K4"] = nx.complete_graph(4)
    if not quick:
        sk["C8"] = nx.cycle_graph(8)
        sk["Q3"] = nx.cubical_graph()
        sk["prism"] = nx.circular_ladder_graph(3)
        sk["P7"] = nx.path_graph(7)
        sk["star4"] = nx.star_graph(4)
    return sk


def one_breaker(rnd, g, kind):
    """Copy of a uniform symmetric graph in which exactly ONE attribute on ONE node / edge (or, for the
    `drop_*` kinds, the presence of one optional key on ALL nodes) differs.  None when not applicable."""
    h = g.copy()
    nodes, edges = list(h.nodes), list(h.edges)
    if kind in ("element", "charge", "aromatic", "hcount"):
        d = h.nodes[rnd.choice(nodes)]
        d[kind] = {"element": "N", "charge": 1, "aromatic": True, "hcount": 2}[kind]
    elif kind == "order":
        if not edges:
            return None
        u, v = rnd.choice(edges)
        h[u][v]["order"] = 2.0
    elif kind == "std_only":
        if not edges:
            return None
        for u, v in edges:
            h[u][v]["standard_order"] = 0
        u, v = rnd.choice(edges)
        h[u][v]["standard_order"] = 1
    elif kind == "pair_swap":
        if not edges:
            return None
        a, b = rnd.choice(ITS_PAIRS)
        for u, v in edges:
            h[u][v]["order"] = a
        u, v = rnd.choice(edges)
        h[u][v]["order"] = b
        set_std(h, rnd.choice(["absent", "zero", "arom"]))
    elif kind.startswith("drop_"):
        k = kind[5:]
        for n in nodes:
            h.nodes[n].pop(k, None)
        if rnd.random() < 0.5 and k != "element":
            h.nodes[rnd.choice(nodes)]["element"] = "O"
    elif kind == "extra_only":
        # differs only in attributes the signature does NOT cover: must not matter
        h.nodes[rnd.choice(nodes)]["atom_map"] = 7
        if edges:
            u, v = rnd.choice(edges)
            h[u][v]["w"] = 3
    return h


BREAKERS = ["element", "charge", "aromatic", "hcount", "order", "std_only", "pair_swap", "drop_hcount", "drop_aromatic", "drop_charge", "extra_only"]


def add_spectators(rnd, g, its):
    """g plus unconnected spectator fragments (single atoms, H-H, a duplicate of one of its own bonds),
    some of them twice (symmetry between components)."""
    h = g.copy()
    nxt = max(h.nodes, default=0) + 1
    one = (1.0, 1.0) if its else 1.0
    for _ in range(rnd.choice([1, 1, 2])):
        kind = rnd.choice(["atom", "HH", "HH", "bond", "water"])
        reps = rnd.choice([1, 2])
        for _ in range(reps):
            if kind == "atom":
                h.add_node(nxt, **atom(rnd.choice(["H", "Cl", "Na"]), charge=rnd.choice([0, 1, -1])))
                nxt += 1
            elif kind == "HH":
                h.add_node(nxt, **atom("H"))
                h.add_node(nxt + 1, **atom("H"))
                h.add_edge(nxt, nxt + 1, order=one)
                nxt += 2
            elif kind == "water":
                h.add_node(nxt, **atom("O", hcount=2))
                nxt += 1
            elif g.number_of_edges():
                u, v = rnd.choice(list(g.edges))
                h.add_node(nxt, **dict(g.nodes[u]))
                h.add_node(nxt + 1, **dict(g.nodes[v]))
                h.add_edge(nxt, nxt + 1, **dict(g[u][v]))
                nxt += 2
    if its:
        set_std(h, rnd.choice(STD_MODES))
    return h


def stream_shapes(ctx, batch):
    """Rare-but-legal inputs: pair-valued bond orders with (a,b) next to (b,a) and every way SynKit sets
    (or omits) standard_order; symmetric skeletons where exactly one attribute breaks the symmetry;
    optional keys absent on all nodes; spectator fragments."""
    rnd = ctx.rnd
    q = ctx.quick
    # (a) tiny-exhaustive, pair-valued orders, all node permutations
    pools = {m: [] for m in STD_MODES}  # one Python type per value within a pool: `arom` / `zero` write the int 0, `diff` the float 0.0
    plan = [(2, ITS_PAIRS[0] + ((1.0, 1.0),), None, 2), (3, ITS_PAIRS[0] + ((1.0, 1.0),), 30 if q else None, 1 if q else 2),
            (3, ITS_PAIRS[1] + ITS_PAIRS[2][:1], 8 if q else 128, 1), (4, ITS_PAIRS[0] + ((1.0, 1.0),), 5 if q else 200, 1)]
    for n, alphabet, sample, n_orders in plan:
        bases = tiny_its_bases(n, alphabet, rnd, sample)
        ctx.count(f"shapes:tiny_its_bases_n{n}", len(bases))
        for g, mode in bases:
            copies = all_copies(rnd, g, n_orders)
            sigs = check_copies(ctx, batch, g, copies, f"shapes:tiny-its-n{n}", deep_n=1)
            ctx.case(["tiny-its", mode, dump(g)], nontrivial=g.number_of_edges() >= 1)
            pools[mode].append((g, sigs))
            if full(ctx):
                return
        batch.run()
    for mode, pool in pools.items():
        kernel_pool(ctx, batch, pool, f"shapes:tiny-its-pool:{mode}")
    # (b) symmetric skeletons with pair-valued orders
    k = 4 if q else 16
    for name, G0 in skeletons(q).items():
        for pattern in ((rnd.choice(["alt", "one"]), rnd.choice(["rand2", "rand3"])) if q else ("alt", "one", "rand2", "rand3", "rand3")):
            mode = rnd.choice(STD_MODES)
            g = its_symmetric(rnd, G0, pattern, rnd.choice(ITS_PAIRS), mode)
            copies = [random_copy(rnd, g) for _ in range(k)]
            check_copies(ctx, batch, g, copies, f"shapes:its-sym:{name}:{pattern}", deep_n=1)
            # one bond's (a, b) turned into (b, a): isomorphic or not, the engine decides
            check_pair(ctx, batch, random_copy(rnd, g), random_copy(rnd, set_std(near_misses(rnd, g)[1], mode)), "shapes:its-sym-near-miss")
            ctx.case(["its-sym", name, dump(g)], nontrivial=True, sample={"stream": "shapes", "family": name, "pattern": pattern, "graph": dump(g)} if name == "C4" else None)
            ctx.count("shapes:its_symmetric")
        if full(ctx):
            return
        batch.run()
    # (c) one attribute breaks the symmetry
    fams = symmetric_families(True)
    names = ["C4", "C6", "K23", "star4", "2xC3", "2xP2"] + ([] if q else ["Q3", "K33", "prism", "C8", "P2+P3"])
    for name in (rnd.sample(names, 4) if q else names):
        g = fams[name]
        for kind in (rnd.sample(BREAKERS, 5) if q else BREAKERS):
            h = one_breaker(rnd, g, kind)
            if h is None:
                continue
            copies = [random_copy(rnd, h) for _ in range(3 if q else 10)]
            check_copies(ctx, batch, h, copies, f"shapes:breaker:{name}:{kind}", deep_n=1)
            # against the unbroken graph: the engine decides (drop_* without a changed element and
            # extra_only stay isomorphic on the covered attributes, the others do not)
            check_pair(ctx, batch, random_copy(rnd, g), random_copy(rnd, h), f"shapes:breaker-pair:{kind}")
            ctx.case(["breaker", name, kind, dump(h)], nontrivial=True)
            ctx.count(f"shapes:breaker:{kind}")
        if full(ctx):
            return
        batch.run()
    # (d) spectators, (e) optional keys absent everywhere
    for t in range(12 if q else 120):
        its = rnd.random() < 0.5
        g = random_mol(rnd, rnd.choice([2, 3, 4, 5, 6]), its=its)
        h = add_spectators(rnd, g, its)
        if rnd.random() < 0.4:
            k_drop = rnd.choice(["hcount", "aromatic", "charge"])
            for n in h.nodes:
                h.nodes[n].pop(k_drop, None)
            ctx.count(f"shapes:dropped_everywhere:{k_drop}")
        copies = [random_copy(rnd, h) for _ in range(3 if q else 5)]
        check_copies(ctx, batch, h, copies, "shapes:spectators", deep_n=1)
        check_pair(ctx, batch, h, random_copy(rnd, g), "shapes:with-vs-without-spectators")
        ctx.case(["spectators", dump(h)], nontrivial=True)
        ctx.count("shapes:spectators")
        if full(ctx):
            return
    batch.run()


# ------------------------------------------------------------------ options
def option_variants(rnd, be):
    """Non-default configurations under which the property is still determined: node_attrs a permutation
    or a superset of the covered node keys, other refinement depths, and sort keys built from permuted /
    extended key lists (then the signature covers exactly those keys, and node_attrs follows them)."""
    perm = lambda: rnd.sample(NODE_KEYS, len(NODE_KEYS))
    out = [("perm", {"node_attrs": perm()}),
           ("superset", {"node_attrs": perm() + ["atom_map"]})]
    depth = {"wl": ("wl_iterations", [1, 2, 5]), "morgan": ("morgan_radius", [0, 1, 2, 5])}.get(be)
    if depth:
        out.append(("depth", {depth[0]: rnd.choice(depth[1]), "node_attrs": perm()}))
    nk = perm()
    out.append(("keys-perm", {"node_key": nk, "edge_key": ["standard_order", "order"], "node_attrs": list(nk)}))
    nk2 = perm()
    nk2.insert(rnd.randrange(len(nk2) + 1), "atom_map")
    out.append(("keys-extra", {"node_key": nk2, "node_attrs": list(nk2)}))
    # (appended last: the history stream draws from the first three)
    # node_attrs=[]: WL seeds its colours with `element` alone (the `else` branch of _canon_wl), Morgan with the primes
    # alone, the exact search starts from one cell (`_initial_partition` without node attributes).  Faithfulness,
    # determinism and soundness do not depend on the order the back-end finds; for the exact back-end the
    # configuration is coherent when the signature covers no node attribute either (node sort key `()`).
    if be != "generic":
        out.append(("empty", {"node_attrs": [], "node_key": []} if be in EXACT else {"node_attrs": []}))
    # a list-valued attribute among node_attrs (`neighbors`, as ITS graphs carry it; `_freeze` turns it into a tuple)
    out.append(("superset-list", {"node_attrs": perm() + ["neighbors"]}))
    return out


def stream_options(ctx, batch):
    rnd = ctx.rnd
    per = 3 if ctx.quick else 40
    for be in BACKENDS:
        for vname, opts in option_variants(rnd, be):
            for t in range(per):
                n = rnd.choice([3, 4, 5, 6, 7])
                g = random_mol(rnd, n, its=rnd.random() < 0.4)
                mode = None
                if rnd.random() < 0.3:
                    mode = rnd.choice(STD_MODES)
                    g = its_symmetric(rnd, rnd.choice(list(skeletons(True).values())), rnd.choice(["alt", "rand3"]), rnd.choice(ITS_PAIRS), mode)
                    for v in g.nodes:
                        g.nodes[v]["atom_map"] = rnd.choice([0, 0, 1, 2])
                elif rnd.random() < 0.4:
                    mode = rnd.choice(STD_MODES)
                    set_std(g, mode)
                # keys present on BOTH nodes and edges (uncovered on the side where the signature does not read them)
                if rnd.random() < 0.5:
                    for v in g.nodes:
                        g.nodes[v]["order"] = rnd.choice([1.0, 2.0])
                    for u, v in g.edges:
                        g[u][v]["element"] = rnd.choice(["C", "N"])
                        g[u][v]["charge"] = rnd.choice([0, 1])
                    ctx.count("options:keys_on_nodes_and_edges")
                copies = [random_copy(rnd, g) for _ in range(3)]
                check_copies(ctx, batch, g, copies, f"options:{vname}", deep_n=1, backends=[be], opts=opts)
                if not vname.startswith("superset"):
                    # (superset: the search separates more than the signature covers, so only copies that
                    # preserve every attribute are in the property's scope)
                    for h in near_misses(rnd, g)[:3]:
                        if mode is not None:
                            set_std(h, mode)  # keep standard_order the same function of order on both sides
                        check_pair(ctx, batch, g, random_copy(rnd, h), f"options-near-miss:{vname}", backends=[be], opts=opts)
                    if "atom_map" in node_keys_of(opts):
                        h = g.copy()
                        v = rnd.choice(list(h.nodes))
                        h.nodes[v]["atom_map"] = h.nodes[v].get("atom_map", 0) + 1
                        check_pair(ctx, batch, g, random_copy(rnd, h), f"options-near-miss:{vname}:atom_map", backends=[be], opts=opts)
                ctx.case(["options", be, opts, dump(g)], nontrivial=True, sample={"stream": "options", "backend": be, "opts": opts} if t == 0 and be == "nauty" else None)
                ctx.count(f"options:{be}:{vname}")
            if full(ctx):
                return
        batch.run()


# ------------------------------------------------------------------ hidden state between calls
def norm_graph(g):
    """The graph as a value (node / edge sets with full attribute dicts; no insertion order)."""
    return [sorted([repr(n), sorted((str(k), repr(v)) for k, v in d.items())] for n, d in g.nodes(data=True)),
            sorted([sorted([repr(u), repr(v)]), sorted((str(k), repr(x)) for k, x in d.items())] for u, v, d in g.edges(data=True))]


def observe(gc, g, wrap=False):
    """Everything public a query returns, as plain data."""
    try:
        cg = gc.make_canonical_graph(g)
        out = {"sig": gc.canonical_signature(g), "text": gc._serialise(cg), "canonical_graph": norm_graph(cg)}
        if wrap:
            from synkit.Graph.syn_graph import SynGraph
            out["SynGraph.signature"] = SynGraph(g, gc).signature
            w = gc.canonicalise_graph(g)
            out["CanonicalGraph.canonical_hash"] = w.canonical_hash
            out["CanonicalGraph.canonical_graph"] = norm_graph(w.canonical_graph)
    except Exception as e:
        out = {"error": type(e).__name__}
    return out


def _fork_call(fn, *args):
    """fn(*args) evaluated in a forked child; the pickled result comes back through a pipe."""
    r, w = os.pipe()
    sys.stdout.flush()
    sys.stderr.flush()
    pid = os.fork()
    if pid == 0:
        code = 0
        try:
            os.close(r)
            try:
                data = pickle.dumps(("ok", fn(*args)))
            except BaseException as e:  # noqa
                data = pickle.dumps(("err", f"{type(e).__name__}: {e}"))
            with os.fdopen(w, "wb") as f:
                f.write(data)
        except BaseException:  # noqa
            code = 1
        finally:
            os._exit(code)
    os.close(w)
    with os.fdopen(r, "rb") as f:
        data = f.read()
    os.waitpid(pid, 0)
    kind, val = pickle.loads(data) if data else ("err", "no answer from the forked child")
    if kind != "ok":
        raise RuntimeError(val)
    return val


def _pristine_answer(req):
    be, twin, opts, blob, wrap = req
    return observe(make_canoniser(be, twin, opts), pickle.loads(blob), wrap)


def _pristine_trial(case):
    """In a process without history: run the history, then compare every query with the answer of yet
    another history-free process.  Returns the first differing query (or None)."""
    queries = _fork_call(run_history, case)
    for q in queries:
        ref = _fork_call(_pristine_answer, (*q["cfg"], q["blob"], q["wrap"]))
        if ref != q["live"]:
            return {"step": q["step"], "live": q["live"], "pristine": ref}
    return None


class Pristine:
    """The specification side of `the signature (and canonical graph) is a function of the graph`: a
    server process forked BEFORE the harness makes its first canonicalisation call; every request is
    answered in a grand-child forked for that request alone, with a new canonicaliser — so each answer
    is what the library returns when nothing at all has been asked before (no instance-, class- or
    module-level state)."""

    def __init__(self):
        import synkit.Graph.canon_graph  # noqa: imported, never called, before the fork
        import synkit.Graph.Canon.canon_graph  # noqa
        import synkit.Graph.syn_graph  # noqa
        c2s_r, c2s_w = os.pipe()
        s2c_r, s2c_w = os.pipe()
        sys.stdout.flush()
        sys.stderr.flush()
        self.pid = os.fork()
        if self.pid == 0:
            try:
                os.close(c2s_w)
                os.close(s2c_r)
                self._serve(os.fdopen(c2s_r, "rb"), os.fdopen(s2c_w, "wb"))
            finally:
                os._exit(0)
        os.close(c2s_r)
        os.close(s2c_w)
        self.w = os.fdopen(c2s_w, "wb")
        self.r = os.fdopen(s2c_r, "rb")

    @staticmethod
    def _serve(rf, wf):
        while True:
            try:
                op, arg = pickle.load(rf)
            except EOFError:
                return
            try:
                if op == "ask":
                    res = ("ok", [_fork_call(_pristine_answer, req) for req in arg])
                else:
                    res = ("ok", _pristine_trial(arg))
            except Exception as e:
                res = ("err", f"{type(e).__name__}: {e}")
            pickle.dump(res, wf)
            wf.flush()

    def _call(self, op, arg):
        pickle.dump((op, arg), self.w)
        self.w.flush()
        kind, val = pickle.load(self.r)
        if kind != "ok":
            raise RuntimeError(val)
        return val

    def ask(self, reqs):
        return self._call("ask", reqs)

    def trial(self, case):
        return self._call("trial", case)

    def close(self):
        try:
            self.w.close()
            self.r.close()
            os.waitpid(self.pid, 0)
        except Exception:
            pass


_pristine = None


def pristine():
    global _pristine
    if _pristine is None:
        _pristine = Pristine()
    return _pristine


def enc_attrs(d):
    return {k: graphio.val(v) for k, v in d.items()}


def bond_float(key, x):
    """Bond orders are floats in the graphs SynKit builds; the JSON encoding keeps half-units only."""
    if key not in EDGE_KEYS:
        return x
    if isinstance(x, tuple):
        return tuple(bond_float(key, y) for y in x)
    return float(x) if isinstance(x, int) and not isinstance(x, bool) else x


def hist_undump(j):
    g = undump(j)
    for _, _, d in g.edges(data=True):
        for k in EDGE_KEYS:
            if k in d:
                d[k] = bond_float(k, d[k])
    return g


def run_history(case, count=None):
    """Execute a history: `objects` {name: graph dump}, `insts` [[backend, twin, opts], ...] (one NEW
    canonicaliser each, alive for the whole history), `steps`:
      ["q", obj, inst, wrap]            query
      ["set_node", obj, v, key, val]    in-place mutations of a live object (val None = delete the key)
      ["set_edge", obj, u, v, key, val]
      ["del_edge", obj, u, v] / ["add_edge", obj, u, v, attrs] / ["del_node", obj, v]
      ["refill", obj, graph dump]       same Python object, emptied and filled with another graph
      ["copy", src, dst] / ["deepcopy", src, dst] / ["relabel", src, dst, [[old, new], ...]] /
      ["subgraph", src, dst, nodes] / ["canon", src, dst, inst]     derived objects
    Returns the queries: step index, configuration, live answer, pickled snapshot of the object as it
    was when queried."""
    objs = {str(k): hist_undump(v) for k, v in case["objects"].items()}
    insts = [make_canoniser(be, twin, opts) for be, twin, opts in case["insts"]]
    out = []
    for i, st in enumerate(case["steps"]):
        op = st[0]
        if count:
            count(op)
        if op == "q":
            _, o, k, wrap = st
            g = objs[str(o)]
            blob = pickle.dumps(g)
            out.append({"step": i, "cfg": tuple(case["insts"][k]), "wrap": bool(wrap), "live": observe(insts[k], g, wrap), "blob": blob})
            continue
        g = objs[str(st[1])]
        if op == "set_node":
            _, _, v, key, val = st
            if val is None:
                del g.nodes[v][key]
            else:
                g.nodes[v][key] = graphio.unval(val)
        elif op == "set_edge":
            _, _, u, v, key, val = st
            if val is None:
                del g[u][v][key]
            else:
                g[u][v][key] = bond_float(key, graphio.unval(val))
        elif op == "del_edge":
            g.remove_edge(st[2], st[3])
        elif op == "add_edge":
            if g.has_edge(st[2], st[3]) or st[2] not in g or st[3] not in g:
                raise KeyError("add_edge")
            g.add_edge(st[2], st[3], **{k: bond_float(k, graphio.unval(x)) for k, x in st[4].items()})
        elif op == "del_node":
            g.remove_node(st[2])
        elif op == "refill":
            src = hist_undump(st[2])
            g.clear()
            g.add_nodes_from(src.nodes(data=True))
            g.add_edges_from(src.edges(data=True))
        elif op == "copy":
            objs[str(st[2])] = g.copy()
        elif op == "deepcopy":
            objs[str(st[2])] = copy.deepcopy(g)
        elif op == "relabel":
            objs[str(st[2])] = nx.relabel_nodes(g, {a: b for a, b in st[3]}, copy=True)
        elif op == "subgraph":
            objs[str(st[2])] = g.subgraph(st[3]).copy()
        elif op == "canon":
            objs[str(st[2])] = insts[st[3]].make_canonical_graph(g)
        else:
            raise ValueError(op)
    return out


def gen_history(rnd, be, quick):
    n = rnd.choice([3, 4, 5, 5, 6, 7])
    its = rnd.random() < 0.45
    norm = lambda x: undump(dump(x))
    if rnd.random() < 0.3:
        g = its_symmetric(rnd, rnd.choice(list(skeletons(True).values())), rnd.choice(["alt", "one", "rand3"]), rnd.choice(ITS_PAIRS), rnd.choice(STD_MODES))
        its = True
        n = g.number_of_nodes()
    else:
        g = random_mol(rnd, n, its=its)
        if its and rnd.random() < 0.5:
            set_std(g, rnd.choice(STD_MODES))
    g = norm(g)
    ids = list(g.nodes)
    other = random_mol(rnd, n, its=its)
    other = norm(relabelled_copy(other, dict(zip(other.nodes, rnd.sample(ids, len(ids))))))  # same id set, other structure
    objects = {"0": dump(g), "1": dump(other)}
    variants = option_variants(rnd, be)
    others = [b for b in BACKENDS if b != be]
    insts = [[be, False, None], [be, False, rnd.choice(variants[:3])[1]], [rnd.choice(others), False, None], [be, rnd.random() < 0.5, None]]
    inst = lambda: rnd.choice([0, 0, 0, 0, 1, 2, 3])
    wrap = lambda: rnd.random() < 0.25
    q = lambda o, k=None: ["q", o, inst() if k is None else k, wrap()]
    nxt = [2]

    def new():
        nxt[0] += 1
        return nxt[0] - 1

    def node_mut(o, gg):
        v = rnd.choice(list(gg.nodes))
        key = rnd.choice(NODE_KEYS + ["atom_map"])
        old = gg.nodes[v].get(key)
        newv = ("N" if old != "N" else "O") if key == "element" else (not old) if key == "aromatic" else (old or 0) + 1
        return ["set_node", o, v, key, graphio.val(newv)], ["set_node", o, v, key, graphio.val(old) if key in gg.nodes[v] else None]

    def edge_mut(o, gg):
        u, v = rnd.choice(list(gg.edges))
        old = gg[u][v].get("order")
        newv = (old[1], old[0]) if isinstance(old, tuple) and old[0] != old[1] else ((2, 1) if isinstance(old, tuple) else (2 if old != 2 else 1))
        return ["set_edge", o, u, v, "order", graphio.val(newv)], ["set_edge", o, u, v, "order", graphio.val(old)]

    blocks = []
    # the same graph under a permutation of its own ids, as a fresh copy and as a structural copy
    d = new()
    pm = rnd.sample(ids, len(ids))
    blocks.append([["relabel", 0, d, [[a, b] for a, b in zip(ids, pm)]], q(d), q(0)])
    # in-place mutation of an object that was queried; an earlier copy keeps the old content
    d = new()
    mut, back = node_mut(0, g)
    blk = [["deepcopy", 0, d], q(0, 0), mut, q(0, 0), q(d)]
    if rnd.random() < 0.6:
        blk += [back, q(0, 0), q(d)]
    blocks.append(blk)
    if g.number_of_edges():
        mut, back = edge_mut(0, g)
        blk = [q(0, 0), mut, q(0, 0)]
        if rnd.random() < 0.6:
            blk += [back, q(0)]
        blocks.append(blk)
    if other.number_of_edges():
        u, v = rnd.choice(list(other.edges))
        blk = [q(1, 0), ["del_edge", 1, u, v], q(1, 0), q(1)]
        if rnd.random() < 0.5:
            blk += [["add_edge", 1, u, v, enc_attrs(other[u][v])], q(1, 0)]
        blocks.append(blk)
    # derived objects: sub-graph, copy, canonical graph (queried again, also by another instance)
    d = new()
    keep = [v for v in ids if v != rnd.choice(ids)]
    blocks.append([q(0), ["subgraph", 0, d, keep], q(d), q(d, 0)])
    d, d2 = new(), new()
    blocks.append([["canon", 0, d, 0], q(d, 0), ["copy", d, d2], q(d2), q(0)])
    # one configuration after the other on the same object; the same query three times
    blocks.append([q(0, 1), q(0, 2), q(0, 0), q(0, 3), q(0, 0)])
    blocks.append([q(1, 0), q(0, 0), q(1, 0), q(1, 0)])
    # same Python object, new content (same ids)
    blocks.append([q(1, 0), ["refill", 1, dump(g)], q(1, 0), ["refill", 1, dump(other)], q(1, 0)])
    rnd.shuffle(blocks)
    if quick:
        blocks = blocks[:6]
    steps = [q(0, 0), q(1, 0)] + [s for b in blocks for s in b]
    return {"kind": "history", "backend": be, "objects": objects, "insts": insts, "steps": steps}


def history_mismatch(live, ref):
    for k in ("error", "sig", "text", "canonical_graph", "SynGraph.signature", "CanonicalGraph.canonical_hash", "CanonicalGraph.canonical_graph"):
        if live.get(k) != ref.get(k):
            return k
    return None


def check_history(ctx, case, tag, shrink=True):
    """Every query of the history is compared with the answer a history-free process gives for an
    identical copy of the object (pickled at query time) under the same configuration."""
    try:
        queries = run_history(case, count=lambda op: ctx.count(f"history:step:{op}"))
    except Exception as e:
        ctx.violation("history could not be executed", case, {"err": f"{type(e).__name__}: {e}"}, no_input=True)
        return
    refs = pristine().ask([(*q["cfg"], q["blob"], q["wrap"]) for q in queries])
    for q, ref in zip(queries, refs):
        ctx.count(f"history:queries:{q['cfg'][0]}")
        key = history_mismatch(q["live"], ref)
        if key is None:
            continue
        g = pickle.loads(q["blob"])
        classes = input_classes(g)
        if "error" in ref and "error" in q["live"]:
            continue
        small = dict(case, steps=case["steps"][:q["step"] + 1])
        detail = {"stream": tag, "differs_in": key, "failing_step": q["step"], "configuration": list(q["cfg"]), "graph_at_query": dump(g),
                  "with_history": {k: v for k, v in q["live"].items() if k in ("error", "sig", "text")},
                  "history_free": {k: v for k, v in ref.items() if k in ("error", "sig", "text")}}
        if shrink:
            small, detail["reproduces_in_a_fresh_process"] = shrink_history(small)
        ctx.violation("the result of a query depends on earlier calls: signature / canonical graph is not a function of the graph "
                      "(differs from the answer of a process in which nothing was queried before)", small, detail, classes=classes)
        return


def shrink_history(case):
    """Greedy removal of steps (the last one is the failing query), each trial in a history-free process."""
    try:
        if pristine().trial(case) is None:
            return case, False
    except Exception:
        return case, False
    steps = list(case["steps"])
    trials = 0
    i = len(steps) - 2
    while i >= 0 and trials < 40:
        cand = steps[:i] + steps[i + 1:]
        trials += 1
        try:
            bad = pristine().trial(dict(case, steps=cand))
        except Exception:
            bad = None
        if bad is not None and bad["step"] == len(cand) - 1:
            steps = cand
        i -= 1
    used = {str(s[1]) for s in steps} | {str(s[2]) for s in steps if s[0] in ("copy", "deepcopy", "relabel", "subgraph", "canon")}
    return dict(case, steps=steps, objects={k: v for k, v in case["objects"].items() if k in used}), True


def stream_history(ctx, batch):
    """Hidden state between calls: long-lived canonicalisers queried repeatedly, in changing order, on
    objects that are mutated in place, copied, relabelled onto their own ids, cut down, refilled, and on
    the canonical graphs themselves; several configurations interleaved on the same objects."""
    rnd = ctx.rnd
    for be in BACKENDS:
        for t in range(5 if ctx.quick else 30):
            case = gen_history(rnd, be, ctx.quick)
            check_history(ctx, case, "history")
            ctx.case(["history", case], nontrivial=True, sample={"stream": "history", "backend": be, "steps": case["steps"][:12]} if t == 0 and be == "nauty" else None)
            ctx.count(f"history:{be}")
            if full(ctx):
                return
    # the run's long-lived canonicalisers (every stream above went through them): are their answers
    # still those of a history-free process?
    reqs, lives = [], []
    for t in range(24 if ctx.quick else 150):
        g = random_mol(rnd, rnd.choice([2, 3, 4, 5, 6, 7, 8]), its=rnd.random() < 0.4)
        if rnd.random() < 0.3:
            set_std(g, rnd.choice(STD_MODES))
        for be in BACKENDS:
            twin = rnd.random() < 0.2
            lives.append((be, twin, g, observe(canoniser(be, twin), g, True)))
            reqs.append((be, twin, None, pickle.dumps(g), True))
        ctx.case(["long-lived", dump(g)], nontrivial=True)
    for (be, twin, g, live), ref in zip(lives, pristine().ask(reqs)):
        ctx.count(f"history:long_lived_queries:{be}")
        key = history_mismatch(live, ref)
        if key is not None and not ("error" in live and "error" in ref):
            ctx.violation("the run's long-lived canonicaliser answers differently from a history-free process: signature / canonical graph "
                          "is not a function of the graph", {"kind": "single", "backend": be, "graph": dump(g), "twin": twin},
                          {"stream": "history:long-lived", "differs_in": key, "with_history": live.get("sig"), "history_free": ref.get("sig")},
                          classes=input_classes(g))
            if full(ctx):
                return


# ------------------------------------------------------------------ IR correspondence (exact back-end, stage by stage)
IR_NODE_ATTRS = ["element", "aromatic", "charge", "hcount"]  # SynKitModel/NautyIR.lean: irNodeAttrNames / irEdgeAttrNames
IR_EDGE_ATTRS = ["order", "standard_order"]
IR_MAX_REPORTS = 3


class _TooManyLeaves(Exception):
    pass


_probe_cls = None


def probe_class():
    """Subclass of the REAL `NautyCanonicalizer` (nothing of the algorithm is re-implemented): it records
    every `_build_label` call `_search` makes — one per leaf, with the sequence the label is built over
    (prefix + order) and the string the real method returns — and can switch the pruning test off by
    answering the empty string for the partial label (`"" > best` is false for every string)."""
    global _probe_cls
    if _probe_cls is None:
        from synkit.Graph.Canon.nauty import NautyCanonicalizer

        class Probe(NautyCanonicalizer):
            __slots__ = ("leaves", "prune", "cap")

            def _build_label(self, G, perm):
                label = super()._build_label(G, perm)
                self.leaves.append(([v for v in perm], label))
                if len(self.leaves) > self.cap:
                    raise _TooManyLeaves()
                return label

            def _build_partial_label(self, G, prefix):
                return super()._build_partial_label(G, prefix) if self.prune else ""

        _probe_cls = Probe
    return _probe_cls


def ir_scope(g):
    """None when the graph is within the model's precondition (`IRCovered`: every node / edge carries
    every covered attribute) and writes each covered attribute with one Python type (the model reads
    numbers in half-units, `str` does not: 0 and 0.0 are one value there and two strings here)."""
    if not ids_ok(g):
        return "ids"
    for keys, items in ((IR_NODE_ATTRS, [d for _, d in g.nodes(data=True)]), (IR_EDGE_ATTRS, [d for _, _, d in g.edges(data=True)])):
        for k in keys:
            if any(k not in d for d in items):
                return "not_covered"
            if len({len(d[k]) if isinstance(d[k], tuple) else -1 for d in items}) > 1:
                return "mixed_shapes"  # scalar next to pair-valued orders: Python cannot sort them
            try:
                seen = {(json.dumps(graphio.val(d[k]), sort_keys=True), str(d[k])) for d in items}
            except graphio.Unsupported:
                return "unsupported_value"
            if not len({a for a, _ in seen}) == len({b for _, b in seen}) == len(seen):
                return "mixed_types"  # e.g. 0 next to 0.0
    return None


def ir_complete(rnd, g):
    """Molecule-style graphs carry no `standard_order`; the model's precondition wants the key on every
    edge.  When NO edge has it, write it as a function of `order` (pairs: one of SynKit's rules; scalars:
    0.0 or the order itself)."""
    if not g.number_of_edges() or any("standard_order" in d for _, _, d in g.edges(data=True)):
        return g
    if any(isinstance(d.get("order"), tuple) for _, _, d in g.edges(data=True)):
        return set_std(g, rnd.choice(["diff", "zero", "arom"]))
    same = rnd.random() < 0.5
    for _, _, d in g.edges(data=True):
        if "order" in d:
            d["standard_order"] = float(d["order"]) if same else 0.0
    return g


def enc_part(p):
    return [[int(v) for v in c] for c in p]


def enc_sig(sig):
    attrs, degree, counts, edges = sig
    return {"attrs": [graphio.val(x) for x in attrs], "degree": int(degree), "counts": [int(c) for c in counts],
            "edges": [[graphio.val(x) for x in e] for e in edges]}


def eq_pattern(xs):
    """The partition of positions induced by equality, as the list of first occurrences."""
    first = {}
    return [first.setdefault(x, i) for i, x in enumerate(xs)]


def random_partition(rnd, g, refined):
    """A partition to probe `_node_signature` / `_refine` on: the unit partition, one cell of the refined
    partition individualised at a random node, or random cells (every cell sorted by id, as the code keeps them)."""
    nodes = sorted(g.nodes)
    kind = rnd.choice(["unit", "indiv", "indiv", "random"])
    big = [i for i, c in enumerate(refined) if len(c) > 1]
    if kind == "indiv" and big:
        i = rnd.choice(big)
        v = rnd.choice(refined[i])
        return [list(c) for c in refined[:i]] + [[v], sorted(w for w in refined[i] if w != v)] + [list(c) for c in refined[i + 1:]]
    if kind == "unit" or len(nodes) < 2:
        return [nodes]
    sh = nodes[:]
    rnd.shuffle(sh)
    cuts = sorted(rnd.sample(range(1, len(sh)), rnd.randint(1, min(3, len(sh) - 1))))
    return [sorted(sh[a:b]) for a, b in zip([0] + cuts, cuts + [len(sh)])]


def ir_reports(ctx):
    return sum(1 for v in ctx.violations if isinstance(v.get("detail"), dict) and str(v["detail"].get("stream", "")).startswith("ir:"))


def ir_break(ctx, g, tag, stage, detail, cfg=None):
    """A stage of the real search differs from the model.  If the difference shows up as a violation of
    the property itself — a relabelled copy of the graph with another signature — report that pair;
    otherwise the correspondence broke without a failing input.  `cfg`: the search object is a directly
    constructed NautyCanonicalizer with these attribute lists (its own `graph_signature` is the signature)."""
    ctx.count(f"ir:break:{stage}")
    if ir_reports(ctx) >= IR_MAX_REPORTS:
        return
    detail = dict(detail, stream=f"ir:{tag}", stage=stage)
    classes = input_classes(g)
    try:
        sigf = canoniser("nauty").canonical_signature if cfg is None else nauty_direct(cfg).graph_signature
        s0 = sigf(g)
        for _ in range(8):
            c = random_copy(ctx.rnd, g)
            s1 = sigf(c)
            if s1 != s0:
                ctx.violation("exact back-end: isomorphic graphs receive different signatures / canonical graphs",
                              {"kind": "pair", "backend": "nauty", "x": dump(g), "y": dump(c)} if cfg is None else
                              {"kind": "direct-pair", "cfg": cfg, "x": dump(g), "y": dump(c)},
                              dict(detail, sig_x=s0, sig_y=s1, found_by="stage of the search differs from the model SynKitModel/NautyIR.lean"), classes=classes)
                return
    except Exception as e:
        detail["signature_raises"] = type(e).__name__
    ctx.violation(f"correspondence (exact back-end search, stage {stage}): nauty.py differs from the model SynKitModel/NautyIR.lean the "
                  "invariance theorems are about", with_cfg({"kind": "ir", "graph": dump(g)}, cfg), detail, classes=classes, no_input=True)


# -- directly constructed search objects: NautyCanonicalizer(node_attrs=…, edge_attrs=…)
IR_CONST = {"element": "C", "aromatic": False, "charge": 0, "hcount": 0, "order": 1.0, "standard_order": 0.0}


def with_cfg(case, cfg):
    if cfg is not None:
        case["cfg"] = cfg
    return case


def cfg_keys(cfg):
    return list(cfg.get("node_attrs") or []), list(cfg.get("edge_attrs") or [])


def nauty_direct(cfg):
    """A NEW NautyCanonicalizer built the documented way (None = the constructor's default = no attributes)."""
    from synkit.Graph.Canon.nauty import NautyCanonicalizer
    return NautyCanonicalizer(node_attrs=cfg.get("node_attrs"), edge_attrs=cfg.get("edge_attrs"))


def project(g, cfg):
    """The graph as a search over `cfg`'s attribute lists sees it, written for the model (whose lists are
    fixed: element, aromatic, charge, hcount / order, standard_order): every attribute the configuration
    leaves out is overwritten by one constant.  A sub-sequence of the model's lists orders keys, signatures
    and labels exactly as the full lists do on the projected graph (the constants never decide a comparison)."""
    kn, ke = cfg_keys(cfg)
    h = g.copy()
    for _, d in h.nodes(data=True):
        for k in IR_NODE_ATTRS:
            if k not in kn:
                d[k] = IR_CONST[k]
    for _, _, d in h.edges(data=True):
        for k in IR_EDGE_ATTRS:
            if k not in ke:
                d[k] = IR_CONST[k]
    return h


def short(x, n=600):
    s = json.dumps(x, default=str)
    return s if len(s) <= n else s[:n] + "..."


def check_ir(ctx, batch, g, tag, cfg=None, after=None):
    """Stage-by-stage comparison of the real `NautyCanonicalizer` (configured by `GraphCanonicaliser(backend="nauty")`)
    with the model of SynKitModel/NautyIR.lean on one graph.  With `cfg` the search object is built directly,
    `NautyCanonicalizer(node_attrs=cfg.node_attrs, edge_attrs=cfg.edge_attrs)` (sub-sequences of the model's lists,
    None = the constructor default), it runs on `g` itself, and the model runs on `project(g, cfg)`.
    `after(rep)` is called with the model's answer when every stage agrees."""
    rnd = ctx.rnd
    gm = g if cfg is None else project(g, cfg)
    why = ir_scope(gm)
    if why:
        ctx.count(f"ir:skipped:{why}")
        return False
    n = g.number_of_nodes()
    cap = 400 if ctx.quick else 1500
    case = with_cfg({"kind": "ir", "graph": dump(g)}, cfg)
    kn, ke = (IR_NODE_ATTRS, IR_EDGE_ATTRS) if cfg is None else cfg_keys(cfg)
    try:
        nz = make_canoniser("nauty").nauty if cfg is None else nauty_direct(cfg)
        if list(nz.node_attrs) != kn or list(nz.edge_attrs) != ke or type(nz).__name__ != "NautyCanonicalizer":
            ir_break(ctx, g, tag, "configuration", {"node_attrs": list(nz.node_attrs), "edge_attrs": list(nz.edge_attrs)}, cfg)
            return False
        initial = nz._initial_partition(g)
        refined = nz._refine(g, [list(c) for c in initial])
        probe = probe_class()(node_attrs=nz.node_attrs, edge_attrs=nz.edge_attrs)
        probe.cap = cap
        runs = {}
        for prune in (False, True):
            probe.leaves, probe.prune = [], prune
            best = {"label": None, "perm": None}
            try:
                probe._search(g, probe._initial_partition(g), [], best, [], depth=0, max_depth=None)
            except _TooManyLeaves:
                ctx.count("ir:skipped:too_many_leaves")
                return False
            runs[prune] = (probe.leaves, best)
        leaves = runs[False][0]
        res = nz.canonical_form(g, return_perm=True)
        perm = list(res[1])
        parts = [random_partition(rnd, g, refined) for _ in range(2)] if n else []
        sig_q = [(p, v, nz._node_signature(g, v, p)) for p in parts for v in rnd.sample(sorted(g.nodes), min(2, n))]
        ref_q = [(p, nz._refine(g, [list(c) for c in p])) for p in parts]
    except Exception as e:
        ctx.count(f"ir:impl_raises:{type(e).__name__}")
        if ir_reports(ctx) < IR_MAX_REPORTS:
            ctx.violation(f"exact back-end: the search raises {type(e).__name__} on a graph that carries every covered attribute",
                          {"kind": "single", "backend": "nauty", "graph": dump(g), "twin": False} if cfg is None else {"kind": "direct", "cfg": cfg, "graph": dump(g)},
                          {"stream": f"ir:{tag}", "err": str(e)[:300]}, classes=input_classes(g))
        return False
    ctx.count("ir:graphs")
    ctx.count(f"ir:graphs:{tag}")
    if cfg is not None:
        ctx.count(f"ir:graphs_direct:nodes={','.join(kn) or '-'}:edges={','.join(ke) or '-'}")
    ctx.count("ir:leaves", len(leaves))
    ctx.count("ir:leaves_le_1" if len(leaves) <= 1 else "ir:leaves_gt_1")
    if len(runs[True][0]) < len(leaves):
        ctx.count("ir:pruning_fired")
    genc = dump(gm)
    state = {"broken": False}
    keep_n = [i for i, k in enumerate(IR_NODE_ATTRS) if k in kn]
    keep_e = [i for i, k in enumerate(IR_EDGE_ATTRS) if k in ke]

    def brk(stage, detail):
        if not state["broken"]:
            state["broken"] = True
            ir_break(ctx, g, tag, stage, detail, cfg)

    def on_ir(rep):
        if rep["initial"] != enc_part(initial):
            return brk("_initial_partition", {"impl": enc_part(initial), "model": rep["initial"]})
        if rep["refined"] != enc_part(refined):
            return brk("_refine(initial partition)", {"impl": enc_part(refined), "model": rep["refined"]})
        impl_tree = [[[int(v) for v in p[:max(len(p) - n, 0)]], [int(v) for v in p[max(len(p) - n, 0):]]] for p, _ in leaves]
        model_tree = [[l["prefix"], l["order"]] for l in rep["leaves"]]
        if impl_tree != model_tree:
            k = next((i for i, (a, b) in enumerate(zip(impl_tree, model_tree)) if a != b), min(len(impl_tree), len(model_tree)))
            return brk("_search: leaves (prefix, order) in visiting order",
                       {"n_impl": len(impl_tree), "n_model": len(model_tree), "first_difference_at": k,
                        "impl": short(impl_tree[k:k + 2]), "model": short(model_tree[k:k + 2])})
        pi = eq_pattern([lab for _, lab in leaves])
        pm = eq_pattern([json.dumps(l["label"], sort_keys=True) for l in rep["leaves"]])
        ctx.count("ir:label_classes", len(set(pm)))
        if pi != pm:
            k = next(i for i, (a, b) in enumerate(zip(pi, pm)) if a != b)
            return brk("_build_label: which leaves have equal labels",
                       {"leaf": k, "impl_equal_to_leaf": pi[k], "model_equal_to_leaf": pm[k], "leaves": short([impl_tree[k], impl_tree[pi[k]], impl_tree[pm[k]]]),
                        "impl_labels": [leaves[k][1][:300], leaves[min(pi[k], pm[k])][1][:300]]})
        labels = [lab for _, lab in leaves]
        want = impl_tree[labels.index(min(labels))][1] if labels else None
        if perm != want:
            return brk("canonical_form: result is the first leaf with the minimal label", {"perm": perm, "first_minimal_leaf": want, "n_leaves": len(labels)})
        if rep["best"] != rep["best_noprune"]:
            return brk("model: search with pruning = search without", {"best": short(rep["best"]), "best_noprune": short(rep["best_noprune"])})
        ctx.count("ir:final_order_same_as_model" if rep["order"] == perm else "ir:final_order_other_valid_choice")
        if after is not None and not state["broken"]:
            after(rep)
    batch.add({"cmd": "canon.ir", "graph": genc, "leaves": True}, on_ir)
    for p, v, sig in sig_q:
        def on_sig(rep, p=p, v=v, sig=sig):
            ctx.count("ir:node_signatures")
            try:
                impl = enc_sig(sig)
            except Exception as e:
                impl = {"unencodable": repr(sig)[:300], "err": str(e)}
            if cfg is not None:  # the model's lists are the full ones: keep the positions the configuration has
                rep = dict(rep, attrs=[rep["attrs"][i] for i in keep_n], edges=[[e[i] for i in keep_e] for e in rep["edges"]])
            if rep != impl:
                brk("_node_signature", {"partition": enc_part(p), "node": int(v), "impl": short(impl), "model": short(rep)})
        batch.add({"cmd": "canon.ir_sig", "graph": genc, "partition": enc_part(p), "node": int(v)}, on_sig)
    for p, out in ref_q:
        def on_ref(rep, p=p, out=out):
            ctx.count("ir:refine_of_random_partition")
            if rep != enc_part(out):
                brk("_refine", {"partition": enc_part(p), "impl": enc_part(out), "model": rep})
        batch.add({"cmd": "canon.ir_refine", "graph": genc, "partition": enc_part(p)}, on_ref)
    return True


def twin_regular(rnd, quick):
    """A d-regular carbon skeleton (one refinement cell, usually several orbits: branches of the search
    discretise the carbons at different depths) plus two nitrogen twins (isolated, bonded to each other,
    or both on one carbon) whose cell never splits: prefixes of equal length then differ in their node
    segments and the partial-label pruning test fires."""
    n = rnd.choice([6, 8, 8] if quick else [6, 8, 8, 10])
    G0 = nx.random_regular_graph(3, n, seed=rnd)
    g = uniform_graph(G0)
    kind = rnd.choice(["isolated", "bonded", "isolated", "bonded", "geminal"])
    b = n
    g.add_node(b, **atom("N"))
    g.add_node(b + 1, **atom("N"))
    if kind == "bonded":
        g.add_edge(b, b + 1, order=1.0)
    elif kind == "geminal":
        c = rnd.randrange(n)
        g.add_edge(b, c, order=1.0)
        g.add_edge(b + 1, c, order=1.0)
    if rnd.random() < 0.3:
        for v in g.nodes:
            g.nodes[v]["atom_map"] = rnd.randint(0, 3)  # children of a cell ordered by atom map, ties by id
    return g


def ir_inputs(ctx):
    """(tag, graph) for the IR correspondence stream: the populations of the other streams, re-used."""
    rnd, q = ctx.rnd, ctx.quick
    yield "malformed", mk([], [])
    yield "malformed", mk([(4, atom())], [])
    yield "malformed", mk([(4, atom()), (9, atom()), (2, atom())], [])
    # tiny-exhaustive (sampled in the quick tier)
    for n, els, orders, sample in ((1, ["C", "O"], [1.0], None), (2, ["C", "O"], [1.0, 2.0], None), (3, ["C", "O"], [1.0, 2.0], 40 if q else None),
                                   (4, ["C", "O"], [1.0], 25 if q else 250)):
        for g in tiny_bases(n, els, orders, rnd, sample):
            yield f"tiny-n{n}", g
    for n, alphabet, sample in ((2, ITS_PAIRS[0] + ((1.0, 1.0),), None), (3, ITS_PAIRS[0] + ((1.0, 1.0),), 25 if q else 128), (4, ITS_PAIRS[1] + ((1.0, 1.0),), 10 if q else 100)):
        for g, _ in tiny_its_bases(n, alphabet, rnd, sample):
            yield f"tiny-its-n{n}", g
    # random molecule-like / ITS-style
    for _ in range(60 if q else 600):
        n = rnd.choice([1, 2, 3, 4, 5, 5, 6, 6, 7, 8, 9])
        yield "random", random_mol(rnd, n, its=rnd.random() < 0.4)
    # symmetric families, one label changed, pair-valued orders on symmetric skeletons
    for name, g in symmetric_families(q).items():
        yield "symmetric", g.copy()
        for h in near_misses(rnd, g)[:1 if q else 2]:
            yield "symmetric-1", h
    for name, G0 in skeletons(q).items():
        for pattern in ((rnd.choice(["alt", "one", "rand2", "rand3"]),) if q else ("alt", "one", "rand2", "rand3")):
            yield "its-symmetric", its_symmetric(rnd, G0, pattern, rnd.choice(ITS_PAIRS), rnd.choice(STD_MODES))
    # regular skeletons with twin nodes: pruning fires
    for _ in range(30 if q else 150):
        yield "twin-regular", twin_regular(rnd, q)
    # one attribute breaks a symmetry (drop_*: an attribute absent everywhere — outside the model's precondition, counted and skipped); spectators
    fams = symmetric_families(True)
    for name in ("C4", "C6", "K23", "star4", "2xC3", "2xP2"):
        for kind in (rnd.sample(BREAKERS, 3) if q else BREAKERS):
            h = one_breaker(rnd, fams[name], kind)
            if h is not None:
                yield "breaker", h
    for _ in range(8 if q else 80):
        its = rnd.random() < 0.5
        yield "spectators", add_spectators(rnd, random_mol(rnd, rnd.choice([2, 3, 4, 5]), its=its), its)
    # two label classes whose order differs between Python's strings ("10.0" < "2.0") and the model's numbers: both
    # minima are canonical forms, the final orders differ (recorded as ir:final_order_other_valid_choice, not gated)
    for k in (4, 6) if q else (4, 6, 8):
        g = uniform_graph(nx.cycle_graph(k))
        for i in range(k):
            g[i][(i + 1) % k]["order"] = 10.0 if i % 2 == 0 else 2.0
        yield "string-vs-number-order", g
    # standard_order NOT a function of order (within the model's precondition; the label has to carry it)
    for name in ("C4", "C6", "K23", "2xC3"):
        g = fams[name].copy()
        for u, v in g.edges:
            g[u][v]["standard_order"] = 0.0
        for u, v in rnd.sample(list(g.edges), rnd.choice([1, 2])):
            g[u][v]["standard_order"] = 1.0
        yield "std-independent", g
    for _ in range(6 if q else 60):
        g = random_mol(rnd, rnd.choice([3, 4, 5, 6, 7]), its=rnd.random() < 0.3)
        for u, v in g.edges:
            g[u][v]["standard_order"] = rnd.choice([0.0, 0.0, 1.0])
        yield "std-independent", g


def stream_ir(ctx, batch):
    """IR correspondence: ties SynKitModel/NautyIR.lean (theorems refine_equivariant ... fullStatement_ir) to
    synkit/Graph/Canon/nauty.py, stage by stage.  Not gated: equality of the final order / serialisation
    between implementation and model (Python orders label STRINGS, the model structured labels; both
    minima are canonical forms) — recorded as ir:final_order_*."""
    rnd = ctx.rnd
    k = 0
    for tag, g in ir_inputs(ctx):
        g = ir_complete(rnd, g)
        if g.number_of_nodes() >= 2 and rnd.random() < 0.5:
            g = random_copy(rnd, g)  # sparse ids, other insertion order and edge orientation
        done = check_ir(ctx, batch, g, tag)
        ctx.case(["ir", dump(g)], nontrivial=g.number_of_nodes() >= 2,
                 sample={"stream": "ir", "family": tag, "graph": dump(g)} if done and tag == "twin-regular" and k == 0 else None)
        if done and tag == "twin-regular":
            k += 1
        if ctx.counters.get("ir:graphs", 0) % 100 == 99:
            batch.run()
        if ir_reports(ctx) >= IR_MAX_REPORTS or full(ctx):
            break
    batch.run()


# ------------------------------------------------------------------ the exact search used directly, with its options
DIRECT_MAX_REPORTS = 4


def direct_reports(ctx):
    return sum(1 for v in ctx.violations if isinstance(v.get("detail"), dict) and str(v["detail"].get("stream", "")).startswith("direct:"))


def direct_form(nz, g, **kw):
    """`NautyCanonicalizer.canonical_form` mapped onto plain data: {"error": name} or {"shape_ok", "graph", "early",
    "perm"?, "aut"?, "orbits"?}.  Documented return value: the canonical graph alone when nothing else is asked
    for, else the tuple (graph, perm?, automorphisms?, orbits?, early_stop).  (The library logs an ERROR line before
    it raises for a too small max_depth: logging is silenced for the call.)"""
    import logging
    flags = [k for k in ("return_perm", "return_aut", "return_orbits") if kw.get(k)]
    prev = logging.root.manager.disable
    logging.disable(logging.ERROR)
    try:
        res = nz.canonical_form(g, **kw)
    except BaseException as e:  # StopIteration included
        if isinstance(e, (KeyboardInterrupt, SystemExit)):
            raise
        return {"error": type(e).__name__}
    finally:
        logging.disable(prev)
    if not flags:
        return {"shape_ok": isinstance(res, nx.Graph), "graph": res, "early": None}
    ok = isinstance(res, tuple) and len(res) == len(flags) + 2 and isinstance(res[0], nx.Graph) and isinstance(res[-1], bool)
    out = {"shape_ok": ok}
    if ok:
        out["graph"], out["early"] = res[0], res[-1]
        for k, v in zip(flags, res[1:-1]):
            out[k[7:]] = v
    return out


def direct_sig_of(nz, g):
    try:
        return nz.graph_signature(g)
    except BaseException as e:
        if isinstance(e, (KeyboardInterrupt, SystemExit)):
            raise
        return {"error": type(e).__name__}


def complete_std(g, rule):
    """standard_order on every edge as ONE function of order (so that graphs that are compared write equal values
    the same way): pair-valued orders by one of SynKit's rules (diff / zero / arom), scalar orders 0.0 or the order."""
    if rule in ("diff", "zero", "arom"):
        return set_std(g, rule)
    for _, _, d in g.edges(data=True):
        d["standard_order"] = float(d.get("order", 0)) if rule == "same" else 0.0
    return g


def check_direct_pair(ctx, batch, x, y, cfg, tag):
    """Kernel agreement for the search's own signature: `graph_signature(x) == graph_signature(y)` ⇔ x and y are
    isomorphic on the attributes of the configuration (decided by the proven engine on exactly those keys)."""
    nz = nauty_direct(cfg)
    kn, ke = cfg_keys(cfg)
    sx, sy = direct_sig_of(nz, x), direct_sig_of(nz, y)
    case = {"kind": "direct-pair", "cfg": cfg, "x": dump(x), "y": dump(y)}
    classes = sorted(set(input_classes(x) + input_classes(y)))
    if isinstance(sx, dict) or isinstance(sy, dict):
        if direct_reports(ctx) < DIRECT_MAX_REPORTS:
            ctx.violation("exact search used directly: graph_signature raises", case, {"stream": f"direct:{tag}", "x": sx, "y": sy}, classes=classes)
        return

    def on_iso(iso):
        eq = sx == sy
        ctx.count(f"direct:pair:{'eq' if eq else 'ne'}:{'iso' if iso else 'noniso'}")
        if eq == iso or direct_reports(ctx) >= DIRECT_MAX_REPORTS:
            return
        ctx.violation("exact search used directly: isomorphic graphs (on the configured attributes) receive different signatures" if iso else
                      "exact search used directly: equal signatures for graphs that are not isomorphic on the configured attributes",
                      case, {"stream": f"direct:{tag}", "sig_x": sx, "sig_y": sy}, classes=classes)
    batch.add(iso_req(x, y, {"node_key": kn, "edge_key": ke}), on_iso)


def check_direct(ctx, batch, g, cfg, tag, n_copies=2, misses=(), rule=None, flags=None, depths=None):
    """`NautyCanonicalizer(node_attrs, edge_attrs)` as a public entry point of its own (observation points
    canonical_form / graph_signature), on one graph:
    faithfulness of canonical_form (Lean `spec.isRelabelling` with the bijection read off node tags; `perm` is that
    bijection), the input is left alone, determinism, invariance of graph_signature and of the canonical graph on
    the configured attributes under renumbering (`spec.covEq` on the projections), kernel agreement on near misses;
    the return_* flags change the shape of the answer, not the canonical graph; `max_depth` against the depths of
    the model's leaf list: max_depth >= deepest leaf ⇒ the full search (same answer, early_stop False); an answer
    that says early_stop False is the full search's answer; every answer that is returned is a relabelling."""
    rnd = ctx.rnd
    nz = nauty_direct(cfg)
    kn, ke = cfg_keys(cfg)
    stream = f"direct:{tag}"
    case = {"kind": "direct", "cfg": cfg, "graph": dump(g)}
    classes = input_classes(g)
    n = g.number_of_nodes()
    if n == 0 and not kn:
        classes = classes + ["empty_graph_no_node_attrs"]
    ctx.count("direct:graphs")
    ctx.count(f"direct:cfg:nodes={','.join(kn) or ('None' if cfg.get('node_attrs') is None else '[]')}:edges={','.join(ke) or ('None' if cfg.get('edge_attrs') is None else '[]')}")

    def bad(what, **detail):
        if direct_reports(ctx) < DIRECT_MAX_REPORTS:
            ctx.violation(what, case, dict(detail, stream=stream), classes=classes)
    gt = tagged(g)
    before = norm_graph(gt)
    base = direct_form(nz, gt, return_perm=True)
    if "error" in base:
        ctx.count(f"direct:error:{base['error']}")
        bad(f"exact search used directly: canonical_form raises {base['error']}")
        return False
    if not base["shape_ok"]:
        bad("exact search used directly: canonical_form(return_perm=True) does not return (graph, perm, early_stop)")
        return False
    if norm_graph(gt) != before:
        bad("canonical graph is not the input relabelled by a bijection onto 1..N with all attributes preserved", reason="canonical_form changed the graph it was given")
        return False
    cg, perm = base["graph"], list(base["perm"])
    tags = [d.get("_vid") for _, d in cg.nodes(data=True)]
    if type(cg) is not type(g) or len(tags) != n or set(map(repr, tags)) != set(map(repr, g.nodes)) or not ids_ok(cg) or base["early"] is not False:
        bad("canonical graph is not the input relabelled by a bijection onto 1..N with all attributes preserved",
            reason="node tags lost / duplicated, ids not integers, another graph class, or early_stop without max_depth", canonical_nodes=repr(list(cg.nodes(data=True)))[:300])
        return False
    mapping = {d["_vid"]: v for v, d in cg.nodes(data=True)}
    if [mapping.get(v) for v in perm] != list(range(1, n + 1)):
        bad("exact search used directly: perm is not the node order the canonical graph was numbered by", perm=perm, mapping=sorted(mapping.items()))
        return False

    def on_spec(rep):
        if rep != "ok":
            bad("canonical graph is not the input relabelled by a bijection onto 1..N with all attributes preserved", **{"spec.isRelabelling": rep})
    batch.add({"cmd": "spec.isRelabelling", "graph": dump(gt), "canon": dump(cg), "mapping": [[int(v), int(mapping[v])] for v in gt.nodes]}, on_spec)
    # determinism; the plain call; the tag is not an attribute of the configuration
    plain = direct_form(nz, gt)
    s0 = direct_sig_of(nz, g)
    if "error" in plain or not plain["shape_ok"] or norm_graph(plain["graph"]) != norm_graph(cg) or isinstance(s0, dict) or \
            s0 != direct_sig_of(nz, g) or s0 != direct_sig_of(nauty_direct(cfg), gt):
        bad("exact search used directly: canonical_form / graph_signature is not a deterministic function of the graph", plain=str(plain.get("error")), sig=str(s0)[:80])
        return False
    # invariance under renumbering / re-insertion, on the attributes of the configuration
    pcg = dump(project(cg, cfg))
    for i in range(n_copies if n >= 2 else 0):
        c = random_copy(rnd, g)
        sc = direct_sig_of(nz, c)
        fc = direct_form(nz, c)
        ctx.count("direct:copies")
        if sc != s0 or "error" in fc or not fc["shape_ok"] or not ids_ok(fc["graph"]):
            if direct_reports(ctx) < DIRECT_MAX_REPORTS:
                ctx.violation("exact search used directly: isomorphic graphs (on the configured attributes) receive different signatures",
                              {"kind": "direct-pair", "cfg": cfg, "x": dump(g), "y": dump(c)}, {"stream": stream, "sig_x": str(s0)[:80], "sig_y": str(sc)[:80]}, classes=classes)
            break

        def on_cov(rep, c=c):
            ctx.count("direct:covEq_checked")
            if rep is not True and direct_reports(ctx) < DIRECT_MAX_REPORTS:
                ctx.violation("exact search used directly: isomorphic graphs have different canonical graphs on the configured attributes (spec.covEq)",
                              {"kind": "direct-pair", "cfg": cfg, "x": dump(g), "y": dump(c)}, {"stream": stream}, classes=classes)
        batch.add({"cmd": "spec.covEq", "g": pcg, "h": dump(project(fc["graph"], cfg))}, on_cov)
    for h in misses:
        if rule is not None:
            complete_std(h, rule)
        check_direct_pair(ctx, batch, g, random_copy(rnd, h), cfg, tag)
    # the return_* flags: another shape, the same canonical graph
    fl = {k: True for k in ("return_perm", "return_aut", "return_orbits") if rnd.random() < 0.6}
    if fl.get("return_aut") or fl.get("return_orbits"):
        fl["remap_aut"] = rnd.random() < 0.5
    if not any(fl.get(k) for k in ("return_aut", "return_orbits")):
        fl["return_aut"] = True
    if flags is not None:  # a replayed case names its flags
        fl = dict(flags)
    case_fl = dict(case, flags=fl)
    r = direct_form(nz, gt, **fl)
    ctx.count("direct:flags:" + "+".join(sorted(k for k, v in fl.items() if v)))
    if "error" in r or not r["shape_ok"] or norm_graph(r["graph"]) != norm_graph(cg) or r["early"] is not False or ("perm" in r and list(r["perm"]) != perm):
        if direct_reports(ctx) < DIRECT_MAX_REPORTS:
            ctx.violation("exact search used directly: with return_* flags canonical_form does not return (the same canonical graph, [perm], [automorphisms], [orbits], early_stop=False)",
                          case_fl, {"stream": stream, "flags": fl, "error": r.get("error"), "shape_ok": r.get("shape_ok")}, classes=classes)
        return False
    direct_aut_record(ctx, g, cfg, perm, mapping, fl, r)
    # max_depth, against the model's leaf list (needs the configuration within the model's lists)
    def after(rep):
        direct_depths(ctx, batch, nz, g, gt, cfg, perm, norm_graph(cg), rep, case, classes, stream, depths)
    return check_ir(ctx, batch, g, tag, cfg, after)


def direct_aut_record(ctx, g, cfg, perm, mapping, fl, r):
    """The automorphism list / orbits are outside the property (recorded, not gated): how many of the returned
    lists are automorphisms on the configured attributes (checked by hand: position-wise substitution perm -> p),
    and whether the orbits partition the node set."""
    kn, ke = cfg_keys(cfg)
    inv = {b: a for a, b in mapping.items()}
    if "aut" in r:
        for p in r["aut"]:
            q = [inv.get(x) for x in p] if fl.get("remap_aut") else list(p)
            f = dict(zip(perm, q))
            ok = len(q) == len(perm) and sorted(map(repr, q)) == sorted(map(repr, perm)) and \
                all(tuple(g.nodes[v].get(k) for k in kn) == tuple(g.nodes[f[v]].get(k) for k in kn) for v in perm) and \
                all(g.has_edge(f[u], f[v]) and tuple(d.get(k) for k in ke) == tuple(g[f[u]][f[v]].get(k) for k in ke) for u, v, d in g.edges(data=True))
            ctx.count("direct:recorded:automorphism_ok" if ok else "direct:recorded:automorphism_NOT_ok")
    if "orbits" in r:
        seen = [x for o in r["orbits"] for x in o]
        full = sorted(map(repr, seen)) == sorted(map(repr, (mapping[v] for v in perm) if fl.get("remap_aut") and fl.get("return_aut") else perm))
        ctx.count("direct:recorded:orbits_partition_nodes" if full else "direct:recorded:orbits_NOT_a_partition")


def label_strings(nz, g):
    """Python's own renderings of the label items of `g` under the search object `nz`, read off with the expressions
    of `_build_label` itself (`str` of the frozen value, fields joined by ':'): one string per node, one per edge, and
    the rendering of an absent edge.  The model is parametric in the label order; with this table the driver runs it
    under Python's order of the rendered label strings (numbers cross the protocol in half-units, so `str` cannot be
    re-done on the Lean side)."""
    fz = nz._freeze
    return {"nodes": [[int(v), ":".join(str(fz(g.nodes[v].get(a, ""))) for a in nz.node_attrs)] for v in g.nodes],
            "edges": [[int(u), int(v), ":".join(str(x) for x in tuple(fz(d.get(a, "")) for a in nz.edge_attrs))] for u, v, d in g.edges(data=True)],
            "zero": "0:" + ":".join("" for _ in nz.edge_attrs)}


def direct_depths(ctx, batch, nz, g, gt, cfg, perm, cg_norm, rep, case, classes, stream, depths=None):
    """`max_depth`.  Kept gates (from the depths of the model's leaf list): max_depth >= deepest leaf ⇒ the answer of
    the unlimited search with early_stop False; an answer with early_stop False is that answer; every returned graph
    is a relabelling.  Exact gate (`canon.irCapped`, the depth-capped model `irSearchCapped` of SynKitModel/NautyIR.lean,
    run under Python's order of the label strings): for EVERY max_depth — below the first leaf, in between, above the
    deepest — the RuntimeError, the early_stop flag and the permutation are the model's."""
    ds = [len(l["prefix"]) for l in rep["leaves"]]
    if not ds:
        return
    d1, D = ds[0], max(ds)
    ctx.count(f"direct:depth:first_leaf={d1}:deepest={D}")
    n = g.number_of_nodes()
    seen = {}
    for k in sorted({max(d1 - 1, 0), d1, max(D - 1, 0), D, D + 1} | set(depths or ())):
        r = direct_form(nz, gt, return_perm=True, max_depth=k)
        seen[k] = r
        zone = "below_first_leaf" if k < d1 else ("complete" if k >= D else "between")
        outcome = "error:" + r["error"] if "error" in r else ("bad_shape" if not r["shape_ok"] else ("early" if r["early"] else "full"))
        ctx.count(f"direct:max_depth:{zone}:{outcome}")
        dcase = dict(case, max_depth=k)
        det = {"stream": stream, "max_depth": k, "first_leaf_depth": d1, "deepest_leaf_depth": D, "outcome": outcome}
        if direct_reports(ctx) >= DIRECT_MAX_REPORTS:
            return
        if "error" in r:
            if k >= D:
                ctx.violation(f"exact search used directly: canonical_form(max_depth={k}) raises {r['error']} although no leaf of the search tree lies deeper than {D}",
                              dcase, det, classes=classes)
            continue
        if not r["shape_ok"]:
            ctx.violation("exact search used directly: canonical_form(return_perm=True, max_depth=k) does not return (graph, perm, early_stop)", dcase, det, classes=classes)
            continue
        pk = list(r["perm"])
        if (k >= D and r["early"]) or (not r["early"] and (pk != perm or norm_graph(r["graph"]) != cg_norm)):
            ctx.violation("exact search used directly: max_depth at least the depth of the deepest leaf (or an answer with early_stop False) must give the answer of the unlimited search",
                          dcase, dict(det, perm=pk, unlimited_perm=perm), classes=classes)
            continue
        # an early answer is still a canonical graph of the input: a relabelling by `perm`
        tags = {v: d.get("_vid") for v, d in r["graph"].nodes(data=True)}
        if sorted(map(repr, pk)) != sorted(map(repr, g.nodes)) or [tags.get(i + 1) for i in range(n)] != pk:
            ctx.violation("canonical graph is not the input relabelled by a bijection onto 1..N with all attributes preserved", dcase, dict(det, perm=pk), classes=classes)
            continue
        if r["early"]:
            def on_spec(rep2, dcase=dcase, det=det):
                if rep2 != "ok":
                    ctx.violation("canonical graph is not the input relabelled by a bijection onto 1..N with all attributes preserved", dcase, dict(det, **{"spec.isRelabelling": rep2}), classes=classes)
            batch.add({"cmd": "spec.isRelabelling", "graph": dump(gt), "canon": dump(r["graph"]), "mapping": [[int(v), pk.index(v) + 1] for v in gt.nodes]}, on_spec)
    # the exact gate: the depth-capped model, under Python's order of the label strings
    try:
        strings = label_strings(nz, g)
        py_labels = [nz._build_label(g, list(l["prefix"]) + list(l["order"])) for l in rep["leaves"]]
    except Exception as e:  # noqa: BLE001 - the renderings are read off the implementation's own expressions
        ctx.count(f"direct:max_depth:exact_gate_skipped:renderings_raise:{type(e).__name__}")
        return
    genc = dump(project(g, cfg))
    state = {"usable": None}
    for i, k in enumerate(sorted(seen)):
        def on_capped(m, k=k, first=(i == 0)):
            if first:  # is the model, run under the order of the rendered strings, the implementation's search on this graph?
                why = None
                if not m.get("table_ok"):
                    why = "equal_items_rendered_differently"
                elif m.get("leaf_strings") != py_labels:
                    why = "rendered_labels_differ_from_build_label"
                elif m.get("full_order") != [int(v) for v in perm]:
                    why = "unlimited_model_search_other_leaf"
                state["usable"] = why is None
                ctx.count("direct:max_depth:exact_gate:" + ("usable" if why is None else "skipped:" + why))
            if not state["usable"] or direct_reports(ctx) >= DIRECT_MAX_REPORTS:
                return
            r = seen[k]
            zone = "below_first_leaf" if k < d1 else ("complete" if k >= D else "between")
            impl = {"error": r.get("error"), "early_stop": None if "error" in r else r.get("early"), "order": None if "error" in r or not r.get("shape_ok") else [int(v) for v in r["perm"]]}
            want = {"error": m["error"], "early_stop": None if m["error"] else m["early_stop"], "order": None if m["error"] else m["order"]}
            ok = impl == want
            ctx.count(f"direct:max_depth:exact:{zone}:" + ("error" if m["error"] else "early" if m["early_stop"] else "full") + (":agree" if ok else ":DIFFER"))
            if not ok:
                ctx.violation("exact search used directly: canonical_form(max_depth=k) is not the search cut at the first call deeper than k (RuntimeError / early_stop / permutation differ from the depth-capped model)",
                              dict(case, max_depth=k), {"stream": stream, "max_depth": k, "first_leaf_depth": d1, "deepest_leaf_depth": D, "zone": zone, "impl": impl, "model": want},
                              classes=classes)
        req = {"cmd": "canon.irCapped", "graph": genc, "max_depth": int(k), "strings": strings}
        if i == 0:
            req["ranks"] = True
        batch.add(req, on_capped)


def direct_configs(rnd):
    """Attribute lists of a directly built search object: the constructor default (None, None), empty lists, and
    sub-sequences of the lists GraphCanonicaliser passes (the model's lists)."""
    sub = lambda xs: [x for x in xs if rnd.random() < 0.5]
    r = rnd.random()
    if r < 0.2:
        return {"node_attrs": None, "edge_attrs": None}
    if r < 0.35:
        return {"node_attrs": [], "edge_attrs": list(IR_EDGE_ATTRS)}
    if r < 0.5:
        return {"node_attrs": list(IR_NODE_ATTRS), "edge_attrs": list(IR_EDGE_ATTRS)}
    if r < 0.6:
        return {"node_attrs": ["element"], "edge_attrs": ["order"]}
    return {"node_attrs": sub(IR_NODE_ATTRS), "edge_attrs": rnd.choice([None, ["order"], ["order"], list(IR_EDGE_ATTRS), sub(IR_EDGE_ATTRS)])}


def stream_direct(ctx, batch):
    """NautyCanonicalizer built directly (as documented: node_attrs / edge_attrs optional, default none) and its
    options return_perm / return_aut / remap_aut / return_orbits / max_depth."""
    rnd, q = ctx.rnd, ctx.quick
    fixed = [({"node_attrs": None, "edge_attrs": None}, mk([], [])),
             ({"node_attrs": list(IR_NODE_ATTRS), "edge_attrs": list(IR_EDGE_ATTRS)}, mk([], [])),
             ({"node_attrs": None, "edge_attrs": None}, mk([(3, atom("O"))], [])),
             ({"node_attrs": [], "edge_attrs": ["order"]}, mk([(3, atom("O")), (1, atom("C"))], [(3, 1, {"order": 1.0, "standard_order": 0.0})]))]
    for cfg, g in fixed:
        check_direct(ctx, batch, g, cfg, "fixed")
        ctx.case(["direct", cfg, dump(g)], nontrivial=False)
    fams = symmetric_families(True)
    names = ["C4", "C5", "C6", "K23", "star4", "2xC3", "2xP2", "P2+P3", "C3+C4", "kekule-C6", "B.C3+C4"] + ([] if q else ["Q3", "K33", "prism", "K4", "C8", "B-C3+C5"])
    plan = [("symmetric", name) for name in (rnd.sample(names, 5) if q else names)] + [("random", None)] * (26 if q else 300) + [("twin-regular", None)] * (3 if q else 30) + \
        [("regular", None)] * (6 if q else 40)  # one cell, several orbits: leaves at different depths (max_depth between first and deepest leaf)
    for t, (kind, name) in enumerate(plan):
        cfg = direct_configs(rnd)
        its = False
        if kind == "symmetric":
            g = fams[name].copy()
            if rnd.random() < 0.5:
                g = near_misses(rnd, g)[0]
        elif kind == "twin-regular":
            g = twin_regular(rnd, True)
        elif kind == "regular":
            g = random_copy(rnd, uniform_graph(nx.random_regular_graph(3, rnd.choice([8, 8, 10]), seed=rnd)))
        else:
            its = rnd.random() < 0.35
            g = random_mol(rnd, rnd.choice([2, 3, 4, 5, 5, 6, 6, 7]), its=its)
        rule = rnd.choice(["diff", "zero", "arom"]) if its else rnd.choice(["same", "const0"])
        complete_std(g, rule)
        misses = near_misses(rnd, g)[:2 if q else 4] if kind not in ("twin-regular", "regular") else []
        check_direct(ctx, batch, g, cfg, kind, n_copies=2 if q else 4, misses=misses, rule=rule)
        ctx.case(["direct", cfg, dump(g)], nontrivial=g.number_of_nodes() >= 2,
                 sample={"stream": "direct", "cfg": cfg, "graph": dump(g)} if t == 6 else None)
        if t % 40 == 39:
            batch.run()
        if direct_reports(ctx) >= DIRECT_MAX_REPORTS or full(ctx):
            break
    batch.run()


# ------------------------------------------------------------------ the other networkx graph classes
GRAPH_CLASSES = {"DiGraph": nx.DiGraph, "MultiGraph": nx.MultiGraph, "MultiDiGraph": nx.MultiDiGraph}
CLASS_MAX_REPORTS = 6


def class_reports(ctx):
    return sum(1 for v in ctx.violations if isinstance(v.get("detail"), dict) and str(v["detail"].get("stream", "")).startswith("classes:")
               and not set(v.get("classes", ())) & {"digraph_exact_backend", "multigraph_exact_backend", "multigraph_wl_not_implemented"})


def class_undump(j, cls):
    g = GRAPH_CLASSES[cls]()
    for n, a in j["nodes"]:
        g.add_node(n, **{k: graphio.unval(v) for k, v in a.items()})
    for u, v, a in j["edges"]:
        g.add_edge(u, v, **{k: bond_float(k, graphio.unval(x)) for k, x in a.items()})
    return g


def to_class(rnd, g0, cls):
    """A graph of another networkx class over the molecule-like graph g0: arcs in one or both directions
    (the two arcs of a pair may carry different orders), parallel edges with equal or different orders."""
    g = GRAPH_CLASSES[cls]()
    for v, d in g0.nodes(data=True):
        g.add_node(v, **dict(d))
    other = lambda o: (2.0 if o != 2.0 else 1.0) if not isinstance(o, tuple) else (o[1], o[0])
    for u, v, d in g0.edges(data=True):
        ends = [(u, v)]
        if g.is_directed():
            r = rnd.random()
            ends = [(u, v)] if r < 0.4 else [(v, u)] if r < 0.8 else [(u, v), (v, u)]
        for k, (a, b) in enumerate(ends):
            dd = dict(d)
            if k == 1 and rnd.random() < 0.5:
                dd["order"] = other(dd.get("order", 1.0))
            g.add_edge(a, b, **dd)
            if g.is_multigraph() and rnd.random() < 0.3:
                dd2 = dict(dd)
                if rnd.random() < 0.6:
                    dd2["order"] = other(dd2.get("order", 1.0))
                g.add_edge(a, b, **dd2)
    return g


def class_copy(rnd, g):
    """Renumbered copy with shuffled node / edge insertion order (undirected classes: random orientation too)."""
    n = g.number_of_nodes()
    pi = dict(zip(g.nodes, rnd.sample(range(0, 3 * n + 3), n)))
    h = type(g)()
    no = list(g.nodes)
    rnd.shuffle(no)
    for v in no:
        h.add_node(pi[v], **dict(g.nodes[v]))
    es = list(g.edges(data=True))
    rnd.shuffle(es)
    for u, v, d in es:
        if not g.is_directed() and rnd.random() < 0.5:
            u, v = v, u
        h.add_edge(pi[u], pi[v], **dict(d))
    return h


def class_near_misses(rnd, g):
    """One arc reversed, one (parallel) edge's order changed, one edge removed, one node attribute changed —
    isomorphic or not, the engine decides."""
    out = []
    es = list(g.edges(keys=True)) if g.is_multigraph() else list(g.edges)
    if es:
        e = rnd.choice(es)
        d = dict(g.edges[e])
        if g.is_directed():
            h = g.copy()
            h.remove_edge(*e)
            h.add_edge(e[1], e[0], **d)
            out.append(h)
        h = g.copy()
        o = d.get("order", 1.0)
        h.edges[e]["order"] = (o[1], o[0]) if isinstance(o, tuple) else (2.0 if o != 2.0 else 1.0)
        out.append(h)
        h = g.copy()
        h.remove_edge(*rnd.choice(es))
        out.append(h)
    if g.number_of_nodes():
        h = g.copy()
        d = h.nodes[rnd.choice(list(h.nodes))]
        d["element"] = "N" if d.get("element") != "N" else "O"
        out.append(h)
    return out


def class_encode(g):
    """The (multi)(di)graph as a simple undirected node-labelled graph for the proven engine: one extra node per
    undirected edge (kind `e`), two per arc (kind `t` at the tail, `h` at the head), carrying the edge's covered
    attributes; original nodes have kind `v`.  Two graphs of one class are isomorphic on the covered attributes
    (direction and multiplicity respected) iff their encodings are isomorphic on NODE_KEYS + kind + EDGE_KEYS."""
    H = nx.Graph()
    blank_e = {k: ATTR_DEFAULT[k] for k in EDGE_KEYS}
    for v, d in g.nodes(data=True):
        H.add_node(int(v), kind="v", **{k: d.get(k, ATTR_DEFAULT[k]) for k in NODE_KEYS}, **blank_e)
    nxt = max([int(v) for v in g.nodes], default=0) + 1
    blank_n = {k: ATTR_DEFAULT[k] for k in NODE_KEYS}
    for u, v, d in g.edges(data=True):
        ea = {k: d.get(k, ATTR_DEFAULT[k]) for k in EDGE_KEYS}
        if g.is_directed():
            H.add_node(nxt, kind="t", **blank_n, **ea)
            H.add_node(nxt + 1, kind="h", **blank_n, **ea)
            H.add_edge(int(u), nxt)
            H.add_edge(nxt, nxt + 1)
            H.add_edge(nxt + 1, int(v))
            nxt += 2
        else:
            H.add_node(nxt, kind="e", **blank_n, **ea)
            H.add_edge(int(u), nxt)
            H.add_edge(nxt, int(v))
            nxt += 1
    return H


CLASS_ISO_OPTS = {"node_key": NODE_KEYS + ["kind"] + EDGE_KEYS, "edge_key": []}


def class_faithful(gt, cg):
    """The property's relabelling predicate, evaluated by hand for graph classes the Lean model does not have:
    same class, node tags give a bijection onto 1..N, node attribute dicts equal, the multiset of
    (end points [ordered for arcs], attribute dict) equal under the bijection.  Returns a reason or None."""
    from collections import Counter
    if type(cg) is not type(gt):
        return f"graph class {type(gt).__name__} became {type(cg).__name__}"
    n = gt.number_of_nodes()
    tags = [d.get("_vid") for _, d in cg.nodes(data=True)]
    if len(tags) != n or set(map(repr, tags)) != set(map(repr, gt.nodes)) or not onto_1_n(cg, n):
        return "node tags lost / duplicated or canonical ids are not 1..N"
    m = {d["_vid"]: v for v, d in cg.nodes(data=True)}
    for v, d in gt.nodes(data=True):
        if dict(cg.nodes[m[v]]) != dict(d):
            return f"attributes of node {v!r} changed"
    ends = (lambda u, v: (u, v)) if gt.is_directed() else (lambda u, v: tuple(sorted((u, v))))
    froz = lambda d: tuple(sorted((str(k), repr(x)) for k, x in d.items()))
    if Counter((ends(m[u], m[v]), froz(d)) for u, v, d in gt.edges(data=True)) != Counter((ends(u, v), froz(d)) for u, v, d in cg.edges(data=True)):
        return "edges (end points, direction, multiplicity, attribute dicts) not preserved"
    return None


def class_norm(g):
    froz = lambda d: sorted((str(k), repr(x)) for k, x in d.items())
    ends = (lambda u, v: [repr(u), repr(v)]) if g.is_directed() else (lambda u, v: sorted([repr(u), repr(v)]))
    return [type(g).__name__, sorted([repr(v), froz(d)] for v, d in g.nodes(data=True)), sorted([ends(u, v), froz(d)] for u, v, d in g.edges(data=True))]


def class_classes(cls, be, kind):
    """Names for deviations that are consequences of the class alone (reported as findings):
    the exact search reads `G[u][v]` as an attribute dict and `has_edge(u, v)` for u before v only — on a
    multigraph the edge attributes, on a digraph half of the directions, are invisible to it;
    networkx's WL hashing is not implemented for multigraphs."""
    if kind == "error" and be == "wl" and cls.startswith("Multi"):
        return ["multigraph_wl_not_implemented"]
    if kind == "exact" and be in EXACT:
        return ["multigraph_exact_backend"] if cls.startswith("Multi") else ["digraph_exact_backend"]
    return []


def class_obs(be, g):
    gc = canoniser(be)
    try:
        gt = tagged(g)
        before = class_norm(gt)
        cg = gc.make_canonical_graph(gt)
        sig = gc.canonical_signature(g)
        return {"gt": gt, "cg": cg, "sig": sig, "sig2": gc.canonical_signature(gt), "sig3": gc.canonical_signature(g),
                "text": gc._serialise(cg), "changed": class_norm(gt) != before}
    except Exception as e:
        return {"error": type(e).__name__}


def check_class_single(ctx, be, cls, g, tag):
    """Faithfulness, class preservation, determinism for one graph of class `cls`; returns the signature or None."""
    case = {"kind": "class", "cls": cls, "backend": be, "graph": dump(g)}
    o = class_obs(be, g)
    stream = f"classes:{tag}"
    ctx.count(f"classes:single:{cls}:{be}")
    if "error" in o:
        ctx.count(f"classes:error:{cls}:{be}:{o['error']}")
        known = class_classes(cls, be, "error")
        if known or class_reports(ctx) < CLASS_MAX_REPORTS:
            if not known or not any(set(v.get("classes", ())) & set(known) for v in ctx.violations):
                ctx.violation(f"canonicalisation of a {cls} raises {o['error']}", case, {"stream": stream}, classes=known)
        return None
    why = "canonicalisation changed the graph it was given" if o["changed"] else class_faithful(o["gt"], o["cg"])
    if why:
        if class_reports(ctx) < CLASS_MAX_REPORTS:
            ctx.violation("canonical graph is not the input relabelled by a bijection onto 1..N with all attributes preserved", case,
                          {"stream": stream, "reason": why, "canonical_nodes": repr(list(o["cg"].nodes))[:200], "canonical_edges": repr(list(o["cg"].edges(data=True)))[:300]})
        return None
    if not (o["sig"] == o["sig2"] == o["sig3"]) or o["sig2"] != hashlib.sha256(o["text"].encode()).hexdigest()[:32]:
        if class_reports(ctx) < CLASS_MAX_REPORTS:
            ctx.violation("signature is not a deterministic function of the graph (two calls differ, an uncovered node tag matters, or it is not the digest of the serialised canonical graph)",
                          case, {"stream": stream})
        return None
    return o["sig"]


def check_class_pair(ctx, batch, be, cls, x, y, tag, iso=None, sx=False):
    """Kernel agreement on a pair of graphs of one class; `iso` True when y is a copy of x by construction, else
    the proven engine decides on the encodings.  `sx`: what check_class_single returned for x (when already run)."""
    if sx is False:
        sx = check_class_single(ctx, be, cls, x, tag)
    if sx is None:
        return
    sy = check_class_single(ctx, be, cls, y, tag)
    if sy is None:
        return
    case = {"kind": "class", "cls": cls, "backend": be, "x": dump(x), "y": dump(y)}
    stream = f"classes:{tag}"

    def on_iso(iso):
        eq = sx == sy
        ctx.count(f"classes:pair:{cls}:{be}:{'eq' if eq else 'ne'}:{'iso' if iso else 'noniso'}")
        if eq and not iso and class_reports(ctx) < CLASS_MAX_REPORTS:
            ctx.violation("equal signatures for graphs that are not isomorphic on the covered attributes", case, {"stream": stream, "sig": sx})
        if be in EXACT and iso and not eq:
            known = class_classes(cls, be, "exact")
            if not any(set(v.get("classes", ())) & set(known) for v in ctx.violations):
                ctx.violation("exact back-end: isomorphic graphs receive different signatures / canonical graphs", case, {"stream": stream, "sig_x": sx, "sig_y": sy}, classes=known)
    if iso is True:
        on_iso(True)
    else:
        batch.add(iso_req(class_encode(x), class_encode(y), CLASS_ISO_OPTS), on_iso)


def check_class_case(ctx, batch, c, tag):
    if "graph" in c:
        check_class_single(ctx, c["backend"], c["cls"], class_undump(c["graph"], c["cls"]), tag)
    else:
        check_class_pair(ctx, batch, c["backend"], c["cls"], class_undump(c["x"], c["cls"]), class_undump(c["y"], c["cls"]), tag)


def stream_classes(ctx, batch):
    """GraphCanonicaliser on nx.DiGraph / nx.MultiGraph / nx.MultiDiGraph (class docstring: `All returned graphs are
    of the same class as the input, so multigraphs and digraphs are preserved`)."""
    rnd, q = ctx.rnd, ctx.quick
    one = {"order": 1.0}
    # the smallest inputs on which the exact back-end is not invariant (all atoms carbon)
    fixed = [("DiGraph", [(1, 0, one), (0, 3, one), (1, 2, one)], 4), ("MultiGraph", [(0, 2, {"order": 1.0}), (1, 2, {"order": 2.0})], 3)]
    for cls, es, n in fixed:
        g = GRAPH_CLASSES[cls]()
        for i in range(n):
            g.add_node(i, **atom())
        for u, v, d in es:
            g.add_edge(u, v, **d)
        for perm in itertools.permutations(range(n)):
            c = type(g)()
            for i in range(n):
                c.add_node(perm[i], **atom())
            for u, v, d in es:
                c.add_edge(perm[u], perm[v], **d)
            for be in BACKENDS:
                if be in EXACT or perm == tuple(range(n))[::-1]:
                    check_class_pair(ctx, batch, be, cls, g, c, "fixed", iso=True)
        ctx.case(["classes", cls, dump(g)], nontrivial=True)
    for cls in GRAPH_CLASSES:
        for t in range(7 if q else 80):
            its = rnd.random() < 0.3
            g0 = random_mol(rnd, rnd.choice([2, 3, 3, 4, 4, 5]), its=its, extra=rnd.random() < 0.5)
            if t % 7 == 6:
                g0 = symmetric_families(True)[rnd.choice(["C4", "C6", "K23", "2xC3", "star4"])].copy()
            g = to_class(rnd, g0, cls)
            ctx.count(f"classes:graphs:{cls}")
            ctx.count(f"classes:edges_per_graph:{cls}", g.number_of_edges())
            if its:
                set_std(g, "diff")
            copies = [class_copy(rnd, g) for _ in range(2 if q else 3)]
            misses = [class_copy(rnd, set_std(h, "diff") if its else h) for h in class_near_misses(rnd, g)[:2 if q else 4]]
            for be in BACKENDS:
                sg = check_class_single(ctx, be, cls, g, "base")
                for c in copies:
                    check_class_pair(ctx, batch, be, cls, g, c, "copy", iso=True, sx=sg)
                for h in misses:
                    check_class_pair(ctx, batch, be, cls, g, h, "near-miss", sx=sg)
            ctx.case(["classes", cls, dump(g)], nontrivial=g.number_of_nodes() >= 2,
                     sample={"stream": "classes", "class": cls, "graph": dump(g)} if t == 1 and cls == "MultiDiGraph" else None)
        batch.run()
        if full(ctx):
            return


def run(ctx):
    ctx.trusted = [
        "Lean 4.33 kernel; axioms of the property theorems as listed in obligation_list",
        "hand-written model SynKitModel/Canon.lean (canonBy for an externally supplied node order, serialise, canonBrute) tied to /repo by this "
        "correspondence run; the shared matching engine SynKitModel/Match.lean (isoDecide) decides isomorphism",
        "SHA-256 is treated as injective (hypothesis of the digest-level theorems); signatures are compared only through the equalities they induce",
        "how the generic / wl / morgan back-ends compute their node order (attribute sort, WL hashes, Morgan products) is NOT modelled: faithfulness "
        "and soundness are proved for every order",
        "hand-written model SynKitModel/NautyIR.lean of the exact back-end's individualisation-refinement search (irInitialPartition, irSig, irRefine, "
        "irSearch with the pruning test, irBuildLabel, irCanon; invariance theorems ir_invariant / fullStatement_ir under IRCovered), tied to "
        "synkit/Graph/Canon/nauty.py by the IR correspondence stream on every run: partitions, node signatures, the full unpruned leaf list and the "
        "choice of the result are compared stage by stage on graphs that carry every covered attribute.  The model keeps labels structured and the "
        "theorems hold for every strict total order on labels; that Python's order on the label STRINGS is such an order which identifies exactly the "
        "leaves with equal structured labels is what the stream tests (equality pattern), the string order itself is trusted to be a total order.  "
        "Outside IRCovered (an attribute absent on some node / edge) invariance rests on the kernel test against the proven engine / brute-force form",
        "the leaf list of the implementation is observed through a subclass of the real NautyCanonicalizer that records its _build_label calls and "
        "answers '' for the partial label (pruning off); no step of the search is re-implemented in the harness",
        "Driver/Canon.lean JSON codec, harness/graphio.py encoder, harness/props/c08.py adapter (node tags to read off the bijection; parser of the "
        "serialised text)",
        "stream direct: project() (left-out attributes overwritten by constants) and the argument that sub-sequences of the model's attribute lists order keys, "
        "signatures and labels as the full lists do on the projected graph; stream classes: class_faithful / class_encode of harness/props/c08.py",
        "history stream: os.fork gives a process image in which the library has been imported but never called; pickle round-trips a networkx graph "
        "exactly (dict orders included)",
    ]
    ctx.assumptions = [
        "node ids are non-negative integers; covered attributes hold one Python type per key (str / int / bool / float or pair of floats), bond orders multiples of 1/2",
        "the Lean model has simple undirected graphs; for nx.DiGraph / nx.MultiGraph / nx.MultiDiGraph inputs (stream classes) the relabelling predicate "
        "(same class, bijection onto 1..N, node attribute dicts, multiset of (end points [ordered for arcs], attribute dict)) is evaluated in the harness and "
        "isomorphism is decided by the proven engine on an encoding (one extra node per undirected edge, two per arc, carrying the edge's covered attributes); no self-loops",
        "NautyCanonicalizer used directly (stream direct): attribute lists are sub-sequences of the model's lists (or the constructor default None); the model runs on the "
        "graph with the left-out attributes overwritten by constants; what max_depth must return is derived from the leaf depths of the model's unpruned search tree only "
        "(max_depth >= deepest leaf: the full answer; an answer flagged early_stop=False: the full answer; any returned graph: a relabelling); moreover EVERY max_depth "
        "(below the first leaf, in between, above the deepest) is gated exactly — RuntimeError, early_stop, permutation — against the depth-capped model irSearchCapped "
        "(driver command canon.irCapped; theorems irCapped_full / irCapped_flag_sound / irCapped_partial_is_leaf hold for every label order), which the driver runs under Python's own "
        "order of the rendered label strings: the harness hands it str() of every node / edge label item (read off _build_label's expressions) and uses the gate only when the "
        "model's rendered leaf labels are literally the strings _build_label returns for those leaves and the unlimited model search picks the implementation's permutation; the content of the automorphism / orbit lists is outside the property (recorded, not gated)",
        "GraphCanonicaliser(backend='nauty', node_attrs=[]) is compared as an exact back-end only together with a node sort key that covers no node attribute",
        "standard_order is absent or a function of order, as in every graph SynKit builds (the other case is the classified stream std-independent)",
        "graphs that are compared with each other write a value the same way (int 0 vs float 0.0 print differently in the serialised text: pools and near "
        "misses keep one standard_order rule per comparison); every edge carries `order` (the wl back-end reads it unconditionally)",
        "non-default options are in scope where the configuration is coherent: node_attrs a permutation / superset of the keys the signature covers "
        "(superset: only attribute-preserving copies are compared), sort keys whose edge part stays within order / standard_order",
    ]
    ctx.gen_rule = (
        "regression corpus first; tiny-exhaustive: ALL labelled graphs on n<=3 nodes (elements C/O, each edge absent/single/double, one node with hcount 0/1) and "
        "on 4 nodes (elements C/O, edges absent/single; quick: seeded sample of 32, thorough: all 1024 + 300 with double bonds + 150 on 5 nodes), each with ALL "
        "node permutations x 3 insertion orders (identity, reversed+flipped, shuffled; 2 resp. 1 for the thorough-only 4- and 5-node sets; quick: the shuffled one only on "
        "3 and 4 nodes), 4 back-ends; random molecule-like graphs (1..9 nodes, trees + ring "
        "closures, sparse ids, 4 elements, charges, aromatic flags, hcounts, bond orders 1/1.5/2/3 or ITS-style order pairs with standard_order, extra uncovered "
        "attributes incl. tuples/lists) x random relabellings+insertion orders, plus one-attribute / one-edge near misses decided by the proven engine; "
        "symmetric families (cycles, K_{a,b}, K4, star, cube, prism, disjoint triangles, Petersen...) x random copies, each also with one label changed; "
        "hard non-isomorphic pairs (two triangles vs hexagon, prism vs K33, ...); the twin module Graph/Canon/canon_graph.py on a sample; malformed stream "
        "(empty, isolated nodes, attributes absent everywhere / on some nodes); SynRule pairs (renumbered / different reactions). "
        "SHAPES: tiny-exhaustive graphs with pair-valued orders ((1,2),(2,1),(1,1); sampled (1.5,1),(1,1.5),(0,1)) on 2-4 carbon atoms x all node permutations, "
        "standard_order absent / a-b / zeroed below 1 / zero drawn per graph (kernel pools per mode); symmetric skeletons (cycles, paths, star, K23, K4, twin "
        "paths / triangles) with alternating / single-swap / random pair orders x random copies + a one-bond swap decided by the engine; uniform symmetric "
        "families with exactly one of 11 symmetry breakers (each covered node key, order, standard_order alone, one swapped pair, an optional key dropped on "
        "all nodes, an uncovered key); random molecules with spectator fragments (atoms, H-H, water, duplicated bonds, some twice). OPTIONS: per back-end 4-5 "
        "non-default configurations (node_attrs permuted / + atom_map, wl_iterations 1/2/5, morgan_radius 0/1/2/5, sort keys over permuted key lists and with "
        "atom_map; attribute names on both nodes and edges) x random / symmetric graphs x copies and near misses. HISTORY: per back-end 5 (30) histories of "
        "20-40 steps over 4 canonicalisers (main, a variant configuration, another back-end, the twin module) and 2 base objects on one id set + derived "
        "objects, every query compared with a history-free process; 24 (150) fresh graphs through the run's long-lived canonicalisers at the end. "
        "IR (exact back-end against SynKitModel/NautyIR.lean, stage by stage; ~300 (2000) graphs): the populations above re-used — empty / isolated nodes, "
        "tiny-exhaustive scalar and pair-valued graphs on <=4 nodes (sampled), random molecule-like and ITS-style graphs up to 9 nodes (atom maps order the "
        "children of a cell), symmetric families + one label changed, symmetric skeletons with pair orders, 3-regular carbon skeletons on 6-10 nodes with two "
        "nitrogen twins (the partial-label pruning fires), symmetry breakers, spectators, a few graphs whose standard_order is independent of order; half of them renumbered onto sparse ids with shuffled insertion "
        "order; standard_order, where no edge has it, completed as a function of order; per graph 2 probe partitions (unit / one cell individualised / random "
        "cells) x 2 nodes for _node_signature and _refine; graphs lacking a covered attribute, or writing one value as 0 and 0.0, counted and skipped; searches "
        "with more than 400 (1500) leaves skipped. "
        "DIRECT (NautyCanonicalizer built directly; ~44 (380) graphs): empty graph / one node / one bond under the default and the full configuration, then 5 (17) symmetric "
        "families (half with one label changed), 26 (300) random molecule-like / ITS-style graphs on 2-7 nodes, 3 (30) twin-regular and 6 (40) renumbered 3-regular carbon "
        "skeletons on 8-10 nodes (leaves at different depths), each under a drawn configuration: (None, None) 20 %, ([], both edge keys) 15 %, the full lists 15 %, "
        "([element], [order]) 10 %, else random sub-sequences (edge list also None); standard_order completed as one function of order; per graph 2 (4) renumbered copies, "
        "2 (4) near misses, one drawn return_* flag set (always return_aut or return_orbits, remap_aut half of the time), max_depth in {first-1, first, deepest-1, deepest, "
        "deepest+1} of the model's leaf depths. CLASSES: per class (DiGraph, MultiGraph, MultiDiGraph) 7 (80) graphs derived from random molecule-like graphs on 2-5 nodes "
        "(every 7th a symmetric family): arcs one way 80 % / both ways 20 % (second arc with another order half of the time), parallel edges 30 % (another order 60 %), "
        "x 4 back-ends x 2 (3) renumbered copies + 2 (4) near misses (arc reversed, one edge's order changed, edge removed, element changed); first the two smallest inputs on "
        "which the exact back-end is not invariant (DiGraph 1->0->3, 1->2; MultiGraph path with orders 1, 2) under all numberings. OPTIONS additionally: node_attrs=[] "
        "(wl, morgan; nauty with node sort key ()), node_attrs + [neighbors]. RULES additionally through SynRule.from_gml / CanonicalRule on the GML text of the whole reaction. "
        "Value-object surface (original_graph, canonicalise_graphs, SynGraph.canonical, canon=False, non-wrapper comparison) on every 17th wrapper pair.")
    ctx.nontrivial_rule = "distinct as a JSON value of (stream, graph[, variant]); non-trivial when the graph has >= 2 nodes"
    pristine()  # forked before the first canonicalisation call of this process
    try:
        _run(ctx)
    finally:
        pristine().close()


def _run(ctx):
    build_and_audit(ctx, ["SynKitProofs.Props.C08"], "SynKitProofs/Audit/C08.lean", THEOREMS)
    batch = Batch(ctx)
    reg = load_regress()
    for c in reg:
        run_case(ctx, batch, c["case"] if "case" in c else c, "regress")
    ctx.count("regress_cases", len(reg))
    for stream in (stream_ir, stream_shapes, stream_symmetric, stream_tiny, stream_random, stream_twin, stream_malformed, stream_std, stream_rules,
                   stream_options, stream_history, stream_direct, stream_classes):
        if full(ctx):
            break
        _t = time.time()
        stream(ctx, batch)
        ctx.extra.setdefault("stream_wall_s", {})[stream.__name__] = round(time.time() - _t, 1)
    ctx.extra["exhaustive"] = False
    ctx.extra["exhaustive_part"] = ("all labelled graphs on <=3 nodes (2 elements, 2 bond orders) and, in the thorough tier, on 4 nodes (2 elements, single bonds) x all node permutations x "
                                    + ("1 shuffled insertion order (3 on <=2 nodes)" if ctx.quick else "2-3 insertion orders"))
    ctx.extra["remark"] = ("SynRule equality is equality of the (left, right) fragment signatures (DESIGN 5a): rules with isomorphic sides and "
                           "non-isomorphic centres compare equal under an exact back-end; not a violation.")
    real = unknown_violations(ctx)
    ctx.obligation("correspondence: faithfulness (spec.isRelabelling), serialisation = model, determinism, kernel agreement with the proven "
                   "isomorphism engine, wrapper equality", not real)
    n_ir = ctx.counters.get("ir:graphs", 0)
    ir_bad = [v for v in real if isinstance(v.get("detail"), dict) and str(v["detail"].get("stream", "")).startswith("ir:")]
    ctx.obligation("correspondence (exact back-end, model SynKitModel/NautyIR.lean): NautyCanonicalizer._initial_partition, _refine, _node_signature, "
                   "the unpruned leaf list of _search (prefixes and orders in visiting order; equality pattern of the _build_label strings = equality "
                   "pattern of the model's structured labels), canonical_form's perm = first leaf with the minimal label, model pruned = unpruned",
                   not ir_bad and (n_ir > 0 or bool(real)),
                   f"{n_ir} graphs compared stage by stage, {ctx.counters.get('ir:leaves', 0)} leaves, pruning fired on {ctx.counters.get('ir:pruning_fired', 0)}; "
                   f"outside the model's precondition (counted, skipped): {sum(v for k, v in ctx.counters.items() if k.startswith('ir:skipped:'))}")


def replay(ctx, case):
    pristine()
    try:
        batch = Batch(ctx)
        run_case(ctx, batch, case["case"], "replay")
    finally:
        pristine().close()

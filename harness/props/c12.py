"""C12 — maximum common subgraph: mappings valid, of equal maximum size, directions mutually inverse.

Correspondence.  A case is a pair of attribute graphs plus the constructor arguments of the
matcher.  The real `MCSMatcher` (main variant `synkit/Graph/Matcher/mcs_matcher.py` and the MTG
variant `synkit/Graph/MTG/mcs_matcher.py`) is run in-process in every mode (`mcs` on/off,
`prune_automorphisms` on/off) and compared with the Lean model `SynKit.Mcs.find`
(driver command `mcs.find`):

* without automorphism pruning the SET of mappings (each direction), `last_size`, the
  orientation flag and the outcome of an unsupported direction string must be equal;
  (agreement of the result ORDER is only counted);
* with pruning (where the survivor per host-node set depends on VF2's enumeration order, which
  is not determined) the implementation's output must satisfy the Lean specification
  (`spec.mcs`: every mapping `IsCommonInduced`, equal sizes, nothing larger), be a subset of the
  model's unpruned result, hit every host-node set of it exactly once, and report the same size;
* `get_mappings("G2_to_G1")` must be the pairwise inverse of `get_mappings("G1_to_G2")`.

When implementation and model differ, `spec.mcs` decides whether the property itself is violated
on the implementation's output (then the input is shrunk and reported), otherwise the broken
correspondence is reported without input.
"""
import copy
import itertools
import json

from ..core import build_and_audit, ROOT
from ..shrink import shrink_seq
from .. import graphio

THEOREMS = [
    "SynKit.Mcs.isCommonInduced_spelled",
    "SynKit.Mcs.closures_normalised",
    "SynKit.Mcs.mcs_valid",
    "SynKit.Mcs.mcs_same_size",
    "SynKit.Mcs.mcs_maximal",
    "SynKit.Mcs.mcs_all_of_max_size",
    "SynKit.Mcs.mcs_pruned_one_per_hostset",
    "SynKit.Mcs.directions_inverse",
    "SynKit.Mcs.orientation_swap_sound",
    "SynKit.Mcs.existsOfSize_iff",
    "SynKit.Mcs.C12.full",
]

MODES_MAIN = [(True, False), (False, False), (True, True), (False, True)]  # (mcs, prune)
MODES_MTG = [(True, False), (False, False)]


# ---------------------------------------------------------------- implementation adapter
def _unval_opt(xs):
    return None if xs is None else [graphio.unval(x) for x in xs]


def impl_run(case, mcs, prune):
    """Run the real matcher; returns the same record as the driver's `mcs.find`."""
    G1 = graphio.to_nx(case["g1"])
    G2 = graphio.to_nx(case["g2"])
    G1c, G2c = copy.deepcopy(G1), copy.deepcopy(G2)
    nk, nd, ek = case.get("node_keys"), _unval_opt(case.get("node_defaults")), case.get("edge_keys")
    try:
        if case.get("variant", "main") == "mtg":
            from synkit.Graph.MTG.mcs_matcher import MCSMatcher as M

            kw = {}
            if ek is not None:
                kw["edge_attribute"] = ek[0]
            m = M(node_label_names=nk, node_label_defaults=nd, **kw)
            fresh = graphio_list(m.get_mappings())
            m.find_common_subgraph(G1, G2, mcs=mcs)
            p2h = graphio_list(m.get_mappings())
            out = {"pattern_is_g1": True, "last_size": int(m.last_size), "pattern_to_host": p2h,
                   "g1_to_g2": p2h, "g2_to_g1": [sorted([h, p] for p, h in x) for x in p2h],
                   "other_direction": None, "fresh": fresh}  # the MTG class has no direction argument
        else:
            from synkit.Graph.Matcher.mcs_matcher import MCSMatcher as M

            kw = {}
            wc = case.get("prune_wc")
            if wc is not None:
                kw.update(prune_wc=True, element_key=wc[0], wildcard_element=graphio.unval(wc[1]))
            try:
                m = M(node_attrs=nk, node_defaults=nd, edge_attrs=ek, prune_automorphisms=prune, **kw)
            except ValueError:
                return "ValueError"
            fresh = graphio_list(m.get_mappings("host_to_pattern"))
            ret = m.find_common_subgraph(G1, G2, mcs=mcs)
            if ret is not m:
                return {"exception": "find_common_subgraph did not return self"}
            try:
                other = graphio_list(m.get_mappings("host_to_pattern"))
            except ValueError:
                other = "ValueError"
            out = {"pattern_is_g1": m._last_pattern_is_G1, "last_size": int(m.last_size),
                   "pattern_to_host": graphio_list(m.get_mappings("pattern_to_host")),
                   "g1_to_g2": graphio_list(m.get_mappings("G1_to_G2")),
                   "g2_to_g1": graphio_list(m.get_mappings("G2_to_G1")),
                   "other_direction": other, "fresh": fresh}
            if graphio_list(m.mappings) != out["pattern_to_host"]:
                return {"exception": "mappings property differs from get_mappings('pattern_to_host')"}
    except Exception as e:  # a crash of the implementation is an observable, not an infrastructure failure
        return {"exception": type(e).__name__ + ": " + str(e)[:200]}
    if graphio.graph(G1) != graphio.graph(G1c) or graphio.graph(G2) != graphio.graph(G2c):
        return {"exception": "input graph mutated"}
    return out


def graphio_list(ms):
    """list of dict mappings -> list (order kept) of key-sorted pair lists"""
    return [graphio.mapping(m) for m in ms]


def cfg_fields(case):
    d = {k: case.get(k) for k in ("node_keys", "node_defaults", "edge_keys")}
    d["variant"] = case.get("variant", "main")
    if case.get("prune_wc") is not None:
        d["prune_wc"] = case["prune_wc"]
    return d


def find_req(case, mcs, prune):
    return {"cmd": "mcs.find", "g1": case["g1"], "g2": case["g2"], "mcs": mcs, "prune": prune, **cfg_fields(case)}


def spec_req(case, mappings, size):
    return {"cmd": "spec.mcs", "g1": case["g1"], "g2": case["g2"], "mappings": mappings, "size": size, **cfg_fields(case)}


def sset(ms):
    return sorted(ms)


def hostset(m, col):
    return tuple(sorted(p[col] for p in m))


# ---------------------------------------------------------------- comparison
def structural_diffs(impl, model, model_unpruned, mcs, prune):
    """Differences between implementation record and model record(s) -> list of strings."""
    if isinstance(impl, str) or isinstance(model, str):
        return [] if impl == model else [f"constructor outcome impl={impl!r} model={model!r}"]
    if "exception" in impl:
        return ["implementation raised / misbehaved: " + impl["exception"]]
    d = []
    for k in ("pattern_is_g1", "last_size", "fresh"):
        if impl[k] != model[k]:
            d.append(f"{k}: impl={impl[k]!r} model={model[k]!r}")
    if impl["other_direction"] is not None and (isinstance(impl["other_direction"], str) or isinstance(model["other_direction"], str)):
        if impl["other_direction"] != model["other_direction"]:
            d.append(f"unsupported direction string: impl={str(impl['other_direction'])[:80]} model={str(model['other_direction'])[:80]}")
    # directions of the implementation are mutually inverse, and pattern_to_host is one of them
    inv = [sorted([h, p] for p, h in m) for m in impl["g1_to_g2"]]
    if inv != impl["g2_to_g1"]:
        d.append("get_mappings('G2_to_G1') is not the pairwise inverse of get_mappings('G1_to_G2')")
    exp = impl["g1_to_g2"] if impl["pattern_is_g1"] else impl["g2_to_g1"]
    if impl["pattern_to_host"] != exp:
        d.append("pattern_to_host is not the direction named by the orientation flag")
    if not prune:
        for k in ("pattern_to_host", "g1_to_g2", "g2_to_g1"):
            if sset(impl[k]) != sset(model[k]):
                d.append(f"{k}: mapping sets differ: impl={json.dumps(sset(impl[k]))[:300]} model={json.dumps(sset(model[k]))[:300]}")
            if len(impl[k]) != len(set(map(json.dumps, impl[k]))):
                d.append(f"{k}: duplicate mappings returned")
    else:
        un = model_unpruned
        for k, col in (("pattern_to_host", 1), ("g1_to_g2", 1 if impl["pattern_is_g1"] else 0),
                       ("g2_to_g1", 0 if impl["pattern_is_g1"] else 1)):
            uset = set(map(json.dumps, un[k]))
            if any(json.dumps(m) not in uset for m in impl[k]):
                d.append(f"{k}: pruned result contains a mapping that the unpruned model result does not")
            hs_impl = [hostset(m, col) for m in impl[k]]
            hs_un = set(hostset(m, col) for m in un[k])
            if len(hs_impl) != len(set(hs_impl)):
                d.append(f"{k}: two surviving mappings cover the same host node set")
            if set(hs_impl) != hs_un:
                d.append(f"{k}: host node sets covered: impl {len(set(hs_impl))} vs unpruned model {len(hs_un)}")
            if len(impl[k]) != len(hs_un):
                d.append(f"{k}: number of mappings impl={len(impl[k])}, distinct host sets of the unpruned result={len(hs_un)}")
        if impl["last_size"] != un["last_size"]:
            d.append(f"last_size impl={impl['last_size']} unpruned model={un['last_size']}")
    return d


def spec_verdict(impl, spec, mcs):
    """Is the PROPERTY violated on what the implementation returned? -> list of strings."""
    if not isinstance(impl, dict) or "exception" in impl or spec is None:
        return []
    v = []
    if not spec["all_valid"]:
        v.append("a returned mapping is not a common induced subgraph (injective / labels / bonds both ways)")
    if mcs:
        if not spec["same_size"]:
            v.append("maximum mode: returned mappings do not all have size last_size")
        if spec["larger_exists"]:
            v.append("maximum mode: a larger common induced subgraph exists")
    inv = [sorted([h, p] for p, h in m) for m in impl["g1_to_g2"]]
    if inv != impl["g2_to_g1"]:
        v.append("the two directions are not mutually inverse")
    return v


def evaluate(ctx, case, modes=None):
    """Full evaluation of one case (used by shrink and replay): -> (diffs, spec_violations)."""
    variant = case.get("variant", "main")
    modes = modes or (MODES_MTG if variant == "mtg" else MODES_MAIN)
    impls = [impl_run(case, mcs, prune) for mcs, prune in modes]
    reqs = []
    for (mcs, prune), im in zip(modes, impls):
        reqs.append(find_req(case, mcs, False))
        if isinstance(im, dict) and "exception" not in im:
            reqs.append(spec_req(case, im["g1_to_g2"], im["last_size"]))
        else:
            reqs.append(None)
    idx = [i for i, r in enumerate(reqs) if r is not None]
    ans = ctx.lean().ok([reqs[i] for i in idx])
    full = [None] * len(reqs)
    for i, a in zip(idx, ans):
        full[i] = a
    diffs, viols = [], []
    for j, ((mcs, prune), im) in enumerate(zip(modes, impls)):
        model, spec = full[2 * j], full[2 * j + 1]
        tag = f"[mcs={mcs} prune={prune}] "
        diffs += [tag + s for s in structural_diffs(im, model, model, mcs, prune)]
        viols += [tag + s for s in spec_verdict(im, spec, mcs)]
    return diffs, viols


# ---------------------------------------------------------------- shrinking
def case_elements(case):
    el = []
    for g in ("g1", "g2"):
        el += [(g, "n", i) for i in range(len(case[g]["nodes"]))]
        el += [(g, "e", i) for i in range(len(case[g]["edges"]))]
    return el


def case_from_elements(case, els):
    els = set(els)
    new = dict(case)
    for g in ("g1", "g2"):
        nodes = [n for i, n in enumerate(case[g]["nodes"]) if (g, "n", i) in els]
        ids = {n[0] for n in nodes}
        edges = [e for i, e in enumerate(case[g]["edges"]) if (g, "e", i) in els and e[0] in ids and e[1] in ids]
        new[g] = {"nodes": nodes, "edges": edges}
    return new


def shrink_case(ctx, case, want_spec):
    def fails(els):
        c = case_from_elements(case, els)
        if not c["g1"]["nodes"] or not c["g2"]["nodes"]:
            return False
        diffs, viols = evaluate(ctx, c)
        return bool(viols) if want_spec else bool(diffs)

    els = shrink_seq(case_elements(case), fails, budget=250)
    return case_from_elements(case, els)


# ---------------------------------------------------------------- generators
ELEMS2 = ["C", "O"]
ORD2 = [1, 2]


def V(x):
    return graphio.val(x)


def mk_graph(nodes, edges):
    """nodes: [(id, attrdict)], edges: [(u, v, attrdict)] -> graph JSON"""
    return {"nodes": [[i, graphio.attrs(a)] for i, a in nodes], "edges": [[u, v, graphio.attrs(a)] for u, v, a in edges]}


def tiny_classes(nmax):
    """All labelled graphs with <= nmax nodes over 2 elements x bond orders {1,2}, one per isomorphism class."""
    out = []
    for n in range(1, nmax + 1):
        pairs = list(itertools.combinations(range(n), 2))
        seen = set()
        for labels in itertools.product(range(2), repeat=n):
            for es in itertools.product(range(3), repeat=len(pairs)):
                adj = {p: o for p, o in zip(pairs, es)}
                best = None
                for perm in itertools.permutations(range(n)):
                    lab = tuple(labels[perm[i]] for i in range(n))
                    ed = tuple(adj[tuple(sorted((perm[i], perm[j])))] for i, j in pairs)
                    key = (lab, ed)
                    if best is None or key < best:
                        best = key
                if best in seen:
                    continue
                seen.add(best)
                out.append((labels, [(p, o) for p, o in zip(pairs, es) if o]))
    return out


def tiny_graph(cls, offset, rnd=None):
    labels, edges = cls
    n = len(labels)
    order = list(range(n))
    if rnd is not None:
        rnd.shuffle(order)
    nodes = [(offset + i, {"element": ELEMS2[labels[i]]}) for i in order]
    es = [(offset + a, offset + b, {"order": float(ORD2[o - 1])}) for (a, b), o in edges]
    if rnd is not None:
        rnd.shuffle(es)
        es = [(v, u, a) if rnd.random() < 0.5 else (u, v, a) for u, v, a in es]
    return mk_graph(nodes, es)


ELEMS = ["C", "C", "C", "N", "O", "S"]
ORDERS = [1.0, 1.0, 1.0, 2.0, 1.5, 3.0]


def rand_mol(rnd, n, elems=ELEMS, ring_p=0.35, charge_p=0.15):
    """Tree + ring closures, degree <= 4. -> (nodes dict id->attrs, edges dict (u,v)->attrs) with ids 0..n-1"""
    nodes = {}
    edges = {}
    deg = {}
    for i in range(n):
        a = {"element": rnd.choice(elems), "charge": rnd.choice([-1, 1]) if rnd.random() < charge_p else 0}
        nodes[i] = a
        deg[i] = 0
        if i:
            cands = [j for j in range(i) if deg[j] < 4]
            j = rnd.choice(cands) if cands else 0
            o = rnd.choice(ORDERS)
            edges[(j, i)] = {"order": o, "standard_order": o if rnd.random() < 0.8 else rnd.choice(ORDERS)}
            deg[i] += 1
            deg[j] += 1
    for _ in range(2):
        if n >= 3 and rnd.random() < ring_p:
            u, v = sorted(rnd.sample(range(n), 2))
            if (u, v) not in edges and deg[u] < 4 and deg[v] < 4:
                o = rnd.choice(ORDERS)
                edges[(u, v)] = {"order": o, "standard_order": o}
                deg[u] += 1
                deg[v] += 1
    return nodes, edges


def relabel_shuffle(rnd, nodes, edges, base, contiguous=False):
    """Relabel ids to non-contiguous values from `base`, shuffle insertion order and edge direction."""
    ids = list(nodes)
    if contiguous:
        new = list(range(base, base + len(ids)))
    else:
        new = rnd.sample(range(base, base + 3 * len(ids) + 2), len(ids))
    f = dict(zip(ids, new))
    order = ids[:]
    rnd.shuffle(order)
    ns = [(f[i], dict(nodes[i])) for i in order]
    es = [(f[u], f[v], dict(a)) for (u, v), a in edges.items()]
    rnd.shuffle(es)
    es = [(v, u, a) if rnd.random() < 0.5 else (u, v, a) for u, v, a in es]
    return ns, es, f


def grow(rnd, nodes, edges, extra):
    """Attach `extra` new nodes to the graph (ids continue)."""
    nodes = {k: dict(v) for k, v in nodes.items()}
    edges = {k: dict(v) for k, v in edges.items()}
    for _ in range(extra):
        i = max(nodes) + 1
        j = rnd.choice(list(nodes))
        nodes[i] = {"element": rnd.choice(ELEMS), "charge": 0}
        o = rnd.choice(ORDERS)
        edges[(j, i)] = {"order": o, "standard_order": o}
        if rnd.random() < 0.25 and len(nodes) > 2:
            k = rnd.choice([x for x in nodes if x not in (i, j)])
            edges[(k, i)] = {"order": rnd.choice(ORDERS), "standard_order": 1.0}
    return nodes, edges


def carve(rnd, nodes, edges, size):
    """A connected induced part of `size` nodes (as far as the component allows)."""
    adj = {i: set() for i in nodes}
    for u, v in edges:
        adj[u].add(v)
        adj[v].add(u)
    part = [rnd.choice(list(nodes))]
    while len(part) < size:
        fr = sorted({w for x in part for w in adj[x]} - set(part))
        if not fr:
            break
        part.append(rnd.choice(fr))
    sub_n = {i: dict(nodes[i]) for i in part}
    sub_e = {(u, v): dict(a) for (u, v), a in edges.items() if u in sub_n and v in sub_n}
    # renumber 0..
    f = {i: k for k, i in enumerate(part)}
    return {f[i]: a for i, a in sub_n.items()}, {tuple(sorted((f[u], f[v]))): a for (u, v), a in sub_e.items()}


def degrade(rnd, ns, es, p_node=0.0, p_edge=0.0, wildcard_p=0.0, tuple_p=0.0, none_p=0.0):
    """Remove selected attributes from some nodes/edges; explicit '*' elements; tuple / None orders."""
    for _, a in ns:
        if rnd.random() < p_node:
            a.pop("element", None)
        elif rnd.random() < wildcard_p:
            a["element"] = "*"
        if rnd.random() < p_node:
            a.pop("charge", None)
        if rnd.random() < none_p:
            a["element"] = None
    for _, _, a in es:
        r = rnd.random()
        if r < p_edge:
            a.pop("order", None)
            if rnd.random() < 0.5:
                a.pop("standard_order", None)
        elif r < p_edge + tuple_p:
            a["order"] = (a.get("order", 1.0), rnd.choice(ORDERS))
        elif r < p_edge + tuple_p + none_p:
            a["order"] = None


CFGS = [
    dict(node_keys=["element"], node_defaults=[V("*")], edge_keys=["order"]),
    dict(node_keys=["element"], node_defaults=[V("*")], edge_keys=["order"]),
    dict(node_keys=["element", "charge"], node_defaults=[V("*"), V(0)], edge_keys=["order"]),
    dict(node_keys=["element", "charge"], node_defaults=[V("*"), V(0)], edge_keys=["order", "standard_order"]),
    dict(node_keys=["element"], node_defaults=[V("*")], edge_keys=["order", "standard_order"]),
    dict(node_keys=None, node_defaults=None, edge_keys=None),
    dict(node_keys=["element"], node_defaults=None, edge_keys=[]),
]


def rand_case(rnd, kind, variant):
    """One random pair. kind in planted / copy / disconnected / degraded / random / wild."""
    cfg = dict(rnd.choice(CFGS))
    if variant == "mtg":
        cfg["edge_keys"] = [cfg["edge_keys"][0]] if cfg["edge_keys"] else (None if cfg["edge_keys"] is None else ["order"])
    n1 = rnd.randint(2, 6)
    n2 = rnd.randint(2, 7)
    swap_sizes = rnd.random()
    if kind == "planted":
        core_n, core_e = carve(rnd, *rand_mol(rnd, rnd.randint(4, 6)), size=rnd.randint(2, 4))
        a = grow(rnd, core_n, core_e, max(0, n1 - len(core_n)))
        b = grow(rnd, core_n, core_e, max(0, n2 - len(core_n)))
    elif kind == "copy":
        a = rand_mol(rnd, n1)
        b = ({k: dict(v) for k, v in a[0].items()}, {k: dict(v) for k, v in a[1].items()})
        if rnd.random() < 0.4:  # one-edit neighbour
            if b[1] and rnd.random() < 0.5:
                k = rnd.choice(list(b[1]))
                b[1][k]["order"] = rnd.choice([o for o in ORDERS if o != b[1][k]["order"]])
            else:
                k = rnd.choice(list(b[0]))
                b[0][k]["element"] = rnd.choice([e for e in ELEMS if e != b[0][k]["element"]])
    elif kind == "disconnected":
        def union(k):
            x = rand_mol(rnd, max(1, k // 2))
            y = rand_mol(rnd, max(1, k - k // 2))
            off = len(x[0])
            ns = dict(x[0]); ns.update({i + off: a_ for i, a_ in y[0].items()})
            es = dict(x[1]); es.update({(u + off, v + off): a_ for (u, v), a_ in y[1].items()})
            return ns, es
        a, b = union(n1), union(n2)
    elif kind == "symmetric":
        def ring(k, el, o):
            ns = {i: {"element": el, "charge": 0} for i in range(k)}
            es = {tuple(sorted((i, (i + 1) % k))): {"order": o, "standard_order": o} for i in range(k)} if k > 2 else {(0, 1): {"order": o, "standard_order": o}}
            return ns, es
        el = rnd.choice(["C", "N"]); o = rnd.choice([1.0, 1.5])
        a = ring(rnd.randint(3, 6), el, o)
        b = ring(rnd.randint(3, 7), el, o) if rnd.random() < 0.6 else rand_mol(rnd, n2, elems=[el, el, "O"])
    else:
        a, b = rand_mol(rnd, n1), rand_mol(rnd, n2)
    # size relation: force "first larger" in a third of the cases, equal in some
    if swap_sizes < 0.35 and len(a[0]) < len(b[0]):
        a, b = b, a
    elif swap_sizes > 0.85 and len(a[0]) != len(b[0]):
        small = min(len(a[0]), len(b[0]))
        def trim(g):
            keep = sorted(g[0])[:small]
            return {i: g[0][i] for i in keep}, {k: v for k, v in g[1].items() if k[0] in keep and k[1] in keep}
        a, b = trim(a), trim(b)
    overlap = rnd.random() < 0.15
    na, ea, _ = relabel_shuffle(rnd, *a, base=rnd.choice([0, 1, 5]), contiguous=rnd.random() < 0.3)
    nb, eb, _ = relabel_shuffle(rnd, *b, base=(0 if overlap else 40), contiguous=rnd.random() < 0.3)
    if kind in ("degraded", "wild"):
        degrade(rnd, na, ea, p_node=0.25, p_edge=0.3, wildcard_p=0.2, tuple_p=0.1, none_p=0.05)
        degrade(rnd, nb, eb, p_node=0.25, p_edge=0.3, wildcard_p=0.2, tuple_p=0.1, none_p=0.05)
    case = {"g1": mk_graph(na, ea), "g2": mk_graph(nb, eb), "variant": variant, **cfg}
    if kind == "wild" and variant == "main":
        case["prune_wc"] = ["element", V("*")]
    return case


KINDS = ["planted", "planted", "planted", "copy", "copy", "disconnected", "symmetric", "degraded", "degraded", "random", "wild"]


def malformed_cases():
    g = mk_graph([(1, {"element": "C"}), (2, {"element": "O"})], [(1, 2, {"order": 1.0})])
    h = mk_graph([(7, {"element": "C"})], [])
    e = mk_graph([], [])
    out = []
    for a, b in [(g, e), (e, g), (e, e), (g, h), (h, g)]:
        for variant in ("main", "mtg"):
            out.append({"g1": a, "g2": b, "variant": variant, "node_keys": ["element"], "node_defaults": [V("*")], "edge_keys": ["order"]})
    # constructor length check (main) / zip truncation (mtg)
    for variant in ("main", "mtg"):
        out.append({"g1": g, "g2": g, "variant": variant, "node_keys": ["element", "charge"], "node_defaults": [V("*")], "edge_keys": ["order"]})
        out.append({"g1": g, "g2": g, "variant": variant, "node_keys": ["element"], "node_defaults": [V("*"), V(0)], "edge_keys": ["order"]})
    return out


# ---------------------------------------------------------------- running a population
def stats(ctx, case, mcs, prune, im, tag):
    ctx.count(f"stream:{tag}")
    ctx.count(f"variant:{case.get('variant', 'main')}")
    ctx.count(f"mode:mcs={mcs},prune={prune}")
    if isinstance(im, dict) and "exception" not in im:
        ctx.count("swap:" + ("no" if im["pattern_is_g1"] else "yes"))
        if mcs:
            ctx.count(f"mcs_size:{im['last_size']}")
            ctx.count("n_mappings:" + ("0" if not im["pattern_to_host"] else "1" if len(im["pattern_to_host"]) == 1 else "2-5" if len(im["pattern_to_host"]) <= 5 else ">5"))
    elif isinstance(im, str):
        ctx.count("constructor:" + im)


def run_cases(ctx, cases, tag, modes_main=MODES_MAIN, modes_mtg=MODES_MTG):
    """Evaluate cases in every mode; one batched driver call."""
    jobs = []  # (case, mcs, prune, impl)
    for case in cases:
        modes = modes_mtg if case.get("variant", "main") == "mtg" else modes_main
        for mcs, prune in modes:
            jobs.append((case, mcs, prune, impl_run(case, mcs, prune)))
    reqs = []
    slots = []
    for case, mcs, prune, im in jobs:
        s = {"model": len(reqs)}
        reqs.append(find_req(case, mcs, False))
        if isinstance(im, dict) and "exception" not in im:
            s["spec"] = len(reqs)
            reqs.append(spec_req(case, im["g1_to_g2"], im["last_size"]))
        if prune:
            s["pruned_model"] = len(reqs)
            reqs.append(find_req(case, mcs, True))
        slots.append(s)
    ans = ctx.lean().ok(reqs, shards=8)
    bad_cases = {}
    for (case, mcs, prune, im), s in zip(jobs, slots):
        model = ans[s["model"]]
        spec = ans[s["spec"]] if "spec" in s else None
        stats(ctx, case, mcs, prune, im, tag)
        n1, n2 = len(case["g1"]["nodes"]), len(case["g2"]["nodes"])
        ctx.count(f"sizes:{n1}x{n2}")
        nontriv = False
        if isinstance(im, dict) and "exception" not in im and mcs:
            k = im["last_size"]
            nontriv = (k >= 2 and k < n1 and k < n2) or (k >= 1 and len(im["pattern_to_host"]) >= 2)
        ctx.case([case, mcs, prune], nontriv,
                 sample={"stream": tag, "mcs": mcs, "prune": prune, "case": case,
                         "impl": im if not isinstance(im, dict) else {k: im.get(k) for k in ("pattern_is_g1", "last_size", "g1_to_g2")}}
                 if (nontriv and n1 <= 4 and n2 <= 4) else None)
        diffs = structural_diffs(im, model, model, mcs, prune)
        viols = spec_verdict(im, spec, mcs)
        if isinstance(im, dict) and "exception" not in im and isinstance(model, dict):
            if not prune:
                ctx.count("result_order_agrees:" + ("yes" if im["pattern_to_host"] == model["pattern_to_host"] else "no"))
            elif not diffs:
                pm = ans[s["pruned_model"]]
                md = structural_diffs(pm, model, model, mcs, True)
                if md:  # the model's own pruned run must pass the same gate (it is what the theorem is about)
                    diffs = ["model self-check (pruned model run vs unpruned model run): " + x for x in md]
                ctx.count("pruned_survivors_equal_model_choice:" + ("yes" if sset(im["pattern_to_host"]) == sset(pm["pattern_to_host"]) else "no"))
        if diffs or viols:
            key = json.dumps(case, sort_keys=True)
            bad_cases.setdefault(key, (case, [], []))
            bad_cases[key][1].extend(f"[mcs={mcs} prune={prune}] {x}" for x in diffs)
            bad_cases[key][2].extend(f"[mcs={mcs} prune={prune}] {x}" for x in viols)
    for case, diffs, viols in list(bad_cases.values())[:3]:
        report(ctx, case, diffs, viols, tag)
    return not bad_cases


def report(ctx, case, diffs, viols, tag):
    if viols:
        small = shrink_case(ctx, case, want_spec=True)
        d2, v2 = evaluate(ctx, small)
        ctx.violation("common-subgraph matcher output violates C12 (validity / equal size / maximality / inverse directions)",
                      small, {"spec_violations": v2 or viols, "differences_from_model": (d2 or diffs)[:8], "stream": tag,
                              "impl": {f"mcs={m},prune={p}": impl_run(small, m, p) for m, p in (MODES_MTG if small.get("variant") == "mtg" else MODES_MAIN)}})
    else:
        small = shrink_case(ctx, case, want_spec=False)
        d2, _ = evaluate(ctx, small)
        ctx.violation("correspondence broken: MCSMatcher differs from the Lean model SynKit.Mcs.find (theorems of Props/C12.lean "
                      "speak about the model); the specification holds on the implementation's output",
                      small, {"differences_from_model": (d2 or diffs)[:8], "stream": tag}, no_input=True)


def load_regress():
    d = ROOT / "regress" / "C12"
    out = []
    if d.exists():
        for f in sorted(d.glob("*.json")):
            c = json.loads(f.read_text())
            out.append(c.get("case", c))
    return out


def run(ctx):
    ctx.trusted = [
        "Lean 4.33 kernel; axioms of the property theorems as listed in obligation_list",
        "hand-written model SynKitModel/Mcs.lean (search loop, seen/host-set pruning, early exit, size filter, sort, orientation, "
        "direction conversion, both closures) tied to /repo by this correspondence run (not by translation)",
        "NetworkX VF2 `GraphMatcher.subgraph_isomorphisms_iter` enumerates exactly the induced embeddings satisfying the closures "
        "(modelled by the proven enumerator Match.allInduced; checked here only through the comparison of result sets)",
        "Driver/Mcs.lean JSON codec, harness/props/c12.py adapter and canonicalisation (each mapping sorted by key, mapping sets sorted)",
        "out of scope (not modelled): mcs_mol=True (_find_mcs_mol), find_rc_mapping, _componentwise_mcs",
    ]
    ctx.assumptions = [
        "selected edge attribute values are numbers (multiples of 1/2), None or tuples of such; selected node attribute values are "
        "strings, numbers or None (no bool/numeric-string values, for which Python's == / float() identify values the model keeps apart)",
        "node ids are non-negative integers; graphs are simple undirected nx.Graph without self-loops",
        "node_attrs / node_label_names is a list (not a bare string)",
    ]
    ctx.gen_rule = (
        "regression corpus; malformed stream (empty graphs, single nodes, constructor length mismatch); tiny-exhaustive: ALL ordered pairs "
        "of isomorphism-class representatives of graphs with <=3 nodes over {C,O} x bond orders {1,2} (second graph with shifted ids, "
        "shuffled insertion order), main variant in all four modes and MTG in both; thorough adds pairs with a 4-node graph: all "
        "(4-node class, <=2-node class) pairs both ways and a seeded SAMPLE of (4,3),(3,4),(4,4) pairs (the full set is too large); "
        "random molecule-like pairs up to 6x7 nodes: planted common parts (a carved connected induced part grown two ways), relabelled "
        "copies and one-edit neighbours, disconnected unions, rings (many automorphisms), graphs lacking selected node/edge attributes "
        "(defaults, explicit '*', None, tuple orders), prune_wc, non-contiguous shuffled ids, overlapping and disjoint id ranges, "
        "first graph larger in about a third of the pairs, node_attrs [element] / [element,charge], edge_attrs [order] / "
        "[order,standard_order] / omitted / empty; every pair is run with mcs on/off x automorphism pruning on/off (main) and mcs on/off (mtg)."
    )
    ctx.nontrivial_rule = ("(pair, mode) distinct as JSON, run in maximum mode, with mcs size >= 2 and smaller than both graphs, "
                           "or with >= 2 maximum mappings")
    build_and_audit(ctx, ["SynKitProofs.Props.C12"], "SynKitProofs/Audit/C12.lean", THEOREMS)

    ok = True
    reg = load_regress()
    ctx.count("regress_cases", len(reg))
    ok &= run_cases(ctx, reg, "regress")
    ok &= run_cases(ctx, malformed_cases(), "malformed")

    # tiny exhaustive
    cls3 = tiny_classes(3)
    tiny = []
    for a in cls3:
        for b in cls3:
            for variant in ("main", "mtg"):
                tiny.append({"g1": tiny_graph(a, 0), "g2": tiny_graph(b, 10, ctx.rnd), "variant": variant,
                             "node_keys": ["element"], "node_defaults": [V("*")], "edge_keys": ["order"]})
    if ctx.quick:
        # all pairs in the main variant; MTG on a seeded third
        tiny = [c for c in tiny if c["variant"] == "main" or ctx.rnd.random() < 0.34]
        modes_main = [(True, False), (False, False), (True, True)]
    else:
        modes_main = MODES_MAIN
    if ok:
        ok &= run_cases(ctx, tiny, "tiny-exhaustive<=3", modes_main=modes_main)
    ctx.extra["exhaustive"] = bool(ok)
    ctx.extra["exhaustive_part"] = (f"all {len(cls3)}^2 ordered pairs of isomorphism classes with <=3 nodes (main variant; "
                                    + ("MTG on a seeded third)" if ctx.quick else "and MTG)"))
    if not ctx.quick and ok:
        cls4 = [c for c in tiny_classes(4) if len(c[0]) == 4]
        small = [c for c in cls3 if len(c[0]) <= 2]
        c3 = [c for c in cls3 if len(c[0]) == 3]
        t4 = []
        for a in cls4:
            for b in small:
                t4.append((a, b)); t4.append((b, a))
        for _ in range(6000):
            a, b = ctx.rnd.choice(cls4), ctx.rnd.choice(c3)
            t4.append((a, b) if ctx.rnd.random() < 0.5 else (b, a))
        for _ in range(6000):
            t4.append((ctx.rnd.choice(cls4), ctx.rnd.choice(cls4)))
        cases4 = [{"g1": tiny_graph(a, 0, ctx.rnd), "g2": tiny_graph(b, 10, ctx.rnd),
                   "variant": "mtg" if ctx.rnd.random() < 0.25 else "main",
                   "node_keys": ["element"], "node_defaults": [V("*")], "edge_keys": ["order"]} for a, b in t4]
        ctx.count("tiny4_pairs", len(cases4))
        ok &= run_cases(ctx, cases4, "tiny-4")

    nrand = 600 if ctx.quick else 10000
    rcases = []
    for i in range(nrand):
        kind = KINDS[i % len(KINDS)]
        variant = "mtg" if ctx.rnd.random() < 0.25 else "main"
        c = rand_case(ctx.rnd, kind, variant)
        ctx.count("kind:" + kind)
        rcases.append(c)
    if ok:
        ok &= run_cases(ctx, rcases, "random")
    ctx.obligation("correspondence: MCSMatcher (both variants, every mode and direction) == model SynKit.Mcs.find; "
                   "spec.mcs holds on every implementation output", not ctx.violations)


def replay(ctx, case):
    c = case.get("case", case)
    diffs, viols = evaluate(ctx, c)
    ctx.case(c, True)
    if viols:
        ctx.violation("common-subgraph matcher output violates C12 (validity / equal size / maximality / inverse directions)",
                      c, {"spec_violations": viols, "differences_from_model": diffs[:8]})
    elif diffs:
        ctx.violation("correspondence broken: MCSMatcher differs from the Lean model SynKit.Mcs.find", c,
                      {"differences_from_model": diffs[:8]}, no_input=True)

"""C12 — maximum common subgraph: mappings valid, of equal maximum size, directions mutually inverse.

Correspondence.  A case is a pair of attribute graphs plus the constructor arguments of the
matcher.  The real `MCSMatcher` (main variant `synkit/Graph/Matcher/mcs_matcher.py` and the MTG
variant `synkit/Graph/MTG/mcs_matcher.py`) is run in-process in every mode (`mcs` on/off,
`prune_automorphisms` on/off) and compared with the Lean model `SynKit.Mcs.find`
(driver command `mcs.find`):

* without automorphism pruning the SET of mappings (each direction), `last_size`, the
  orientation flag and the outcome of an unsupported direction string must be equal;
  (agreement of the result ORDER is only counted);
* with pruning (where the survivor per host-node set depends on VF2's enumeration order, which
  is not determined) the implementation's output must satisfy the Lean specification
  (`spec.mcs`: every mapping `IsCommonInduced`, equal sizes, nothing larger), be a subset of the
  model's unpruned result, hit every host-node set of it exactly once, and report the same size;
* `get_mappings("G2_to_G1")` must be the pairwise inverse of `get_mappings("G1_to_G2")`.

Streams (all judged by the same gates, see `judge_jobs`): regression corpus, malformed, tiny-exhaustive, random
(a fresh matcher per query), `options` (non-default / permuted / longer key lists, non-standard defaults, a key that
lives on nodes and on edges, non-default wildcard pruning), `rare` (tuple orders (a,b) next to (b,a), spectator
components, symmetric skeletons with one symmetry-breaking attribute, optional attributes absent from a whole graph,
a graph against itself / its own induced part) and two SESSION streams in which ONE matcher object answers a sequence
of queries on graph objects that are built once (same query repeated, other mode, other direction, derived objects,
the same object with new content, an equal copy as a new object, option attribute switched, other public entry
points in between, reads in any order with the caller scribbling on the copies it was given).  In a session the
expected answer of every query is still computed by the pure Lean model from (current graph content, options, mode)
alone, so no history can leak into the expectation.

Two further populations: `components` = pairs of MOLECULE SETS (multisets of small fragments over 1..3 fragment types:
repeated mutually isomorphic components on either side, more components on one side, near-miss components; node ids of
the two graphs in the same universe / disjoint ranges either way round / ranges shifted by 1..3 / even against odd /
sparse; ids of one graph spread over its components in blocks, round robin or scattered), run in every ordinary mode
against the model; and `component-entry` = the component-level entry points of the same class
(`find_common_subgraph(..., mcs_mol=True)` of both variants, `find_rc_mapping(side="its", mcs_mol=True)` and
`find_rc_mapping(side="its", component=True)`), one query per case, on molecule sets and on the other populations.
For these entry points there is no Lean search model (they match whole components greedily and promise no maximum);
their output is judged by the specification alone (`spec.mcs`: the returned mapping `IsCommonInduced` - injective,
selected labels, bonds and orders both ways) plus "the two directions are mutually inverse".  `session-components`
mixes gated component-level and ordinary queries on ONE matcher over a pool of molecule sets.

ROUTE streams (`routes`, `routes-entry`, `session-routes`; field "call" of a case, see `call_route`): the same queries put
through the other documented spellings of the public API - `find_rc_mapping` with side 'r' / 'l' / 'op' on ITS graphs (the
harness builds each ITS graph from two KNOWN side graphs, so the expected answer is the Lean model on the known sides and
`its_decompose` is part of the implementation side), side 'its' (graphs as they are), any letter case of the side string,
keyword arguments left at their documented defaults (`mcs`, `mcs_mol`, `component`, `side`), `allow_shift`, positional
constructor arguments, graphs handed over as read-only sub-graph views of larger graphs.  With component=False and
mcs_mol=False these are ordinary queries: judged against the model in every mode; otherwise component-level: judged by the
specification.  Every record of the main variant also carries the public read accessors: `mapping_direction` (compared with
the model's orientation flag; 'unknown' before a search), and `mappings` / `get_mappings()` / iteration / `num_mappings`
must agree with `get_mappings('pattern_to_host')`.

REPRESENTATION / SCALE streams (run after all others; generators in the section "representation and scale"): bond orders written
as NON-NUMERIC labels ('-' '=' '#' ':' / SINGLE DOUBLE ... - values float() rejects, for which the main matcher documents a generic
`==` fall-back and the MTG matcher never matches), alone, next to numbers in one graph, in two vocabularies, and as members of ITS
pairs (also None members): `tiny-symbolic<=3` (the tiny-exhaustive population relabelled, all options defaulted),
`symbolic-orders`; `value-types` - the numbers of a case presented to the implementation as a per-value seeded mix of int / float /
numpy.int64 / numpy.float64 / numeric strings (field "dress" of a case, see `dressed`; the model side sees the one `Val.num`);
`unselected-attributes` (weight / label / id / name / capacity ... that no option selects); `falsy-labels` (0, 0.0, '', () as
element / order / default / wildcard, node id 0); `big-numbers` (multi-digit values 10 / 100 / 101 / 12 / 21 / 2500 / 12.5, node ids
up to 10^12); `dense-beyond-exhaustive` and `scale-7..9` (one step beyond the sizes of the exhaustive and random streams, maximum
mode); the same populations through the component-level entry points / other routes and in sessions on one reused matcher.

When implementation and model differ, `spec.mcs` decides whether the property itself is violated
on the implementation's output (then the input is shrunk and reported), otherwise the broken
correspondence is reported without input.
"""
import contextlib
import copy
import io
import itertools
import json
import zlib

from ..core import build_and_audit, ROOT
from ..shrink import shrink_seq
from .. import graphio

THEOREMS = [
    "SynKit.Mcs.isCommonInduced_spelled",
    "SynKit.Mcs.closures_normalised",
    "SynKit.Mcs.mcs_valid",
    "SynKit.Mcs.mcs_same_size",
    "SynKit.Mcs.mcs_maximal",
    "SynKit.Mcs.mcs_all_of_max_size",
    "SynKit.Mcs.mcs_pruned_one_per_hostset",
    "SynKit.Mcs.directions_inverse",
    "SynKit.Mcs.orientation_swap_sound",
    "SynKit.Mcs.existsOfSize_iff",
    "SynKit.Mcs.C12.full",
]

MODES_MAIN = [(True, False), (False, False), (True, True), (False, True)]  # (mcs, prune)
MODES_MTG = [(True, False), (False, False)]


# ---------------------------------------------------------------- implementation adapter
def _unval_opt(xs):
    return None if xs is None else [graphio.unval(x) for x in xs]


# ---------------------------------------------------------------- representation of values ("dress")
# A case / session may carry the field "dress": {"seed": int, "num": [styles...], "ids": [styles...]}.  It says how the NUMBERS of
# the graph JSON are presented to the implementation; the model side never sees it (every style below is `==` to the plain
# number and encodes to the same `Val.num`).  The style of one value is a pure function (crc32) of (seed, graph tag, node id /
# edge end points, attribute key, position inside a tuple), so it is reproducible from the case alone, it mixes styles WITHIN
# one graph, and it does not move when the shrinker drops other nodes / edges.
#   "int"     1 -> 1 (1.5 stays a float)          "float"   1 -> 1.0
#   "npint"   1 -> numpy.int64(1)                 "npfloat" 1 -> numpy.float64(1.0)
#   "numstr"  1 -> "1" / "1.0" / "+1" / "1.00"    only for a SCALAR value of an EDGE attribute: both matchers document / implement
#             the comparison of edge attributes as float(a) == float(b), for which "1" and 1 are the same order; (node attributes
#             are compared with ==, and a tuple with ==, where "1" != 1: never dressed as strings)
# "ids": the same for node ids ("int" | "npint"): graphs assembled from numpy arrays carry numpy.int64 node ids.
NUM_STYLES = ["int", "float", "npint", "npfloat", "numstr"]


def _pick(dress, where, n, salt=""):
    return zlib.crc32("|".join(map(str, (dress.get("seed", 0), salt) + tuple(where))).encode()) % n


def dressed(j, dress, where, strok=False):
    """graph-JSON value -> the Python object handed to the implementation."""
    if not dress or j is None:
        return graphio.unval(j)
    if "t" in j:
        return tuple(dressed(y, dress, tuple(where) + (i,), False) for i, y in enumerate(j["t"]))
    if "n" not in j:
        return graphio.unval(j)
    h = j["n"]
    styles = dress.get("num") or ["int"]
    st = styles[_pick(dress, where, len(styles))]
    if st == "numstr" and not strok:
        st = "float"
    if strok and st in ("npint", "npfloat") and dress.get("edge_np") is False:
        st = "float"   # see `settle_dress`
    if st == "int":
        return h // 2 if h % 2 == 0 else h / 2
    if st == "float":
        return h / 2
    if st in ("npint", "npfloat"):
        import numpy as np

        return np.int64(h // 2) if (st == "npint" and h % 2 == 0) else np.float64(h / 2)
    forms = ([str(h // 2), repr(h / 2), repr(h / 2) + "0"] + (["+" + str(h // 2)] if h >= 0 else [])) if h % 2 == 0 else [repr(h / 2), repr(h / 2) + "0"]
    return forms[_pick(dress, where, len(forms), "form")]


def settle_dress(dress, graphs):
    """numpy scalars are not used for SCALAR edge values when some edge value of the input is a tuple: `numpy.float64(1) != (1, 2)`
    is an array, not a bool, so the matcher's documented generic `!=` fall-back has no truth value there (it raises ValueError);
    C12 says nothing about that combination and the stream does not gate it (tuple members and node values may still be numpy)."""
    if dress and any("t" in (v or {}) for g in graphs for e in g["edges"] for v in e[2].values()):
        dress["edge_np"] = False
    return dress


def dressed_id(n, dress, where):
    styles = (dress or {}).get("ids")
    if not styles or styles[_pick(dress, where, len(styles), "id")] == "int":
        return n
    import numpy as np

    return np.int64(n)


def _fill_dressed(G, j, dress, tag):
    for n, a in j["nodes"]:
        G.add_node(dressed_id(n, dress, (tag, "n", n)), **{k: dressed(v, dress, (tag, "n", n, k)) for k, v in a.items()})
    for u, v, a in j["edges"]:
        lo, hi = min(u, v), max(u, v)
        G.add_edge(dressed_id(u, dress, (tag, "e", lo, hi, u)), dressed_id(v, dress, (tag, "e", lo, hi, v)),
                   **{k: dressed(x, dress, (tag, "e", lo, hi, k), True) for k, x in a.items()})
    return G


def to_nx_dressed(j, dress, tag):
    """graphio.to_nx with the numbers presented as `dress` says (no dress: exactly graphio.to_nx)."""
    if not dress:
        return graphio.to_nx(j)
    import networkx as nx

    return _fill_dressed(nx.Graph(), j, dress, tag)


def nx_of(case, key):
    return to_nx_dressed(case[key], case.get("dress"), key)


def _defaults(case):
    nd = case.get("node_defaults")
    return None if nd is None else [dressed(x, case.get("dress"), ("nd", i)) for i, x in enumerate(nd)]


def _wildcard(case, wc):
    return dressed(wc[1], case.get("dress"), ("wc",))


# Component-level entry points of the same matcher (no Lean search model; gated by the specification only):
#   "mcs_mol"       find_common_subgraph(G1, G2, mcs=?, mcs_mol=True)                     main + MTG (`_find_mcs_mol`)
#   "rc_mol"        find_rc_mapping(G1, G2, side="its", mcs=?, mcs_mol=True, component=False)   main (same code path)
#   "rc_component"  find_rc_mapping(G1, G2, side="its", mcs=?, component=True)             main (`_componentwise_mcs`)
# A case with the field "entry" is ONE query through that entry point ("entry_mcs", "entry_prune" = its flags).
ENTRIES_MAIN = ["mcs_mol", "mcs_mol", "rc_mol", "rc_component", "rc_component"]
ENTRIES_MTG = ["mcs_mol"]


def is_ok(im):
    return isinstance(im, dict) and "exception" not in im


def modes_of(case, modes_main=None, modes_mtg=None):
    if case.get("entry"):
        return [(bool(case.get("entry_mcs", False)), bool(case.get("entry_prune", False)) and case.get("variant", "main") != "mtg")]
    if case.get("modes"):  # a case that fixes its own modes (large pairs: maximum mode only)
        return list(dict.fromkeys((bool(a), bool(b) and case.get("variant", "main") != "mtg") for a, b in case["modes"]))
    return (modes_mtg or MODES_MTG) if case.get("variant", "main") == "mtg" else (modes_main or MODES_MAIN)


def call_entry(m, G1, G2, entry, mcs, mtg, call=None):
    """The public call of one component-level entry point; returns what the call returned."""
    if call:
        return call_route(m, G1, G2, call, mcs, mtg, entry)
    if entry == "mcs_mol":
        return m.find_common_subgraph(G1, G2, mcs=mcs, mcs_mol=True)
    if entry == "rc_mol" and not mtg:
        return m.find_rc_mapping(G1, G2, side="its", mcs=mcs, mcs_mol=True, component=False)
    if entry == "rc_component" and not mtg:
        return m.find_rc_mapping(G1, G2, side="its", mcs=mcs, component=True)
    raise RuntimeError(f"harness: entry point {entry!r} does not exist for this variant")


def read_record(m, mtg, fresh=None):
    """Everything observable through get_mappings after a search -> record (same keys as the driver's `mcs.find`)."""
    if mtg:
        p2h = graphio_list(m.get_mappings())
        return {"pattern_is_g1": True, "last_size": int(m.last_size), "pattern_to_host": p2h, "g1_to_g2": p2h,
                "g2_to_g1": [sorted([h, p] for p, h in x) for x in p2h], "other_direction": None, "fresh": fresh}
    try:
        other = graphio_list(m.get_mappings("host_to_pattern"))
    except ValueError:
        other = "ValueError"
    out = {"pattern_is_g1": m._last_pattern_is_G1, "last_size": int(m.last_size),
           "pattern_to_host": graphio_list(m.get_mappings("pattern_to_host")),
           "g1_to_g2": graphio_list(m.get_mappings("G1_to_G2")),
           "g2_to_g1": graphio_list(m.get_mappings("G2_to_G1")),
           "other_direction": other, "fresh": fresh}
    return finish_record(m, out)


def finish_record(m, out):
    """Main variant: the other documented read accessors of the cache.  `mappings`, `get_mappings()` without a direction and
    iteration are documented as the pattern->host list, `num_mappings` as its length; `mapping_direction` (the PUBLIC name
    of the orientation: which input graph acted as pattern) goes into the record and is compared with the model's flag."""
    p2h = out["pattern_to_host"]
    if graphio_list(m.mappings) != p2h:
        return {"exception": "mappings property differs from get_mappings('pattern_to_host')"}
    if graphio_list(m.get_mappings()) != p2h:
        return {"exception": "get_mappings() without a direction differs from get_mappings('pattern_to_host')"}
    if graphio_list(list(iter(m))) != p2h:
        return {"exception": "iterating the matcher does not give the pattern_to_host mappings"}
    if m.num_mappings != len(p2h):
        return {"exception": f"num_mappings={m.num_mappings!r} but {len(p2h)} mappings are stored"}
    out["mapping_direction"] = m.mapping_direction
    return out


DIRECTION_NAME = {True: "G1_to_G2", False: "G2_to_G1", None: "unknown"}


def impl_run_entry(case, mcs, prune):
    """One query through a component-level entry point on a fresh matcher."""
    G1 = nx_of(case, "g1")
    G2 = nx_of(case, "g2")
    before = (graphio.graph(G1), graphio.graph(G2))
    mtg = case.get("variant", "main") == "mtg"
    try:
        try:
            m = _make_matcher(case, prune)
        except ValueError:
            return "ValueError"
        ret = call_entry(m, G1, G2, case["entry"], mcs, mtg)
        if not mtg and ret is not m:
            return {"exception": case["entry"] + " did not return self"}
        out = read_record(m, mtg)
    except Exception as e:
        return {"exception": type(e).__name__ + ": " + str(e)[:200]}
    if (graphio.graph(G1), graphio.graph(G2)) != before:
        return {"exception": "input graph mutated"}
    return out


# ---------------------------------------------------------------- other public routes to the same search
# A case with the field "call" puts its query through another documented route / spelling of the public API.  The pair the
# MODEL sees is still (g1, g2); "call" only says how the real matcher is asked:
#   "route": "find" -> find_common_subgraph(A1, A2, ...);  "rc" -> find_rc_mapping(A1, A2, ...)
#   "side":  (route rc) "its" = the two graphs are passed as they are; "r" / "l" / "op" = each graph is passed as an ITS graph
#            (node attribute typesGH = (left tuple, right tuple), edge attribute order = (left order, right order)) whose
#            selected side IS g1 resp. g2 and whose other side is "other1" resp. "other2": r -> right/right, l -> left/left,
#            op -> right of the first / left of the second (the MTG class has only this one).  The side string is passed as
#            written (documented as case-insensitive); a string outside the four is entry "rc_bad_side" (documented ValueError).
#   "omit_defaults": every keyword argument whose value is the documented default of the route is left out
#            (find_common_subgraph: mcs=False, mcs_mol=False; main find_rc_mapping: side="op", mcs=True, mcs_mol=False,
#            component=True; MTG find_rc_mapping: mcs=False, mcs_mol=False)
#   "allow_shift": constructor argument documented as unused;  "positional": the leading constructor arguments by position
#   "view": [[which, new id, attrs, anchor id, edge attrs] ...] -> graph `which` is handed over as a read-only sub-graph view
#            of a larger graph (the extra atoms hang on the anchors and are outside the view)
# Without "entry" the query is an ordinary one (component=False, mcs_mol=False) and is judged against the Lean model in every
# mode; with "entry" (rc_component / rc_mol / mcs_mol) it is a component-level query judged by the specification.
SIDES = ("its", "r", "l", "op")


def its_nx(sel, other, sel_left):
    """The ITS graph whose `sel_left ? left : right` side is the graph JSON `sel` (restricted to what its_decompose keeps:
    element, aromatic, hcount, charge per atom, atom_map = node id, one numeric order per bond) and whose opposite side is
    `other` restricted to the atoms of `sel`."""
    import networkx as nx

    def tup(a):
        d = {k: graphio.unval(v) for k, v in a.items()}
        return (d.get("element"), d.get("aromatic"), d.get("hcount"), d.get("charge"), [])

    G = nx.Graph()
    onodes = {n[0]: n[1] for n in other["nodes"]}
    for i, a in sel["nodes"]:
        t_s, t_o = tup(a), tup(onodes.get(i, a))
        G.add_node(i, element=t_s[0], aromatic=t_s[1], hcount=t_s[2], charge=t_s[3], atom_map=i,
                   typesGH=(t_s, t_o) if sel_left else (t_o, t_s))
    ids = set(G.nodes)
    pairs, o_s, o_o = [], {}, {}
    for tab, g in ((o_s, sel), (o_o, other)):
        for u, v, a in g["edges"]:
            if u in ids and v in ids and "order" in a:
                k = (min(u, v), max(u, v))
                tab[k] = graphio.unval(a["order"])
                if k not in pairs:
                    pairs.append(k)
    for k in pairs:
        x, y = o_s.get(k, 0), o_o.get(k, 0)
        lo, ro = (x, y) if sel_left else (y, x)
        G.add_edge(k[0], k[1], order=(lo, ro), standard_order=lo - ro)
    return G


def snapshot(G):
    return ([(n, repr(sorted(d.items()))) for n, d in G.nodes(data=True)],
            [(u, v, repr(sorted(d.items()))) for u, v, d in G.edges(data=True)])


def deliver(case):
    """-> the two objects handed to the matcher for a case with a "call" field."""
    call = case["call"]
    side = str(call.get("side", "its")).lower()
    if call.get("route") == "rc" and side != "its":
        return (its_nx(case["g1"], call["other1"], side == "l"),
                its_nx(case["g2"], call["other2"], side in ("l", "op")))
    out = []
    for which, key in ((1, "g1"), (2, "g2")):
        G = nx_of(case, key)
        halo = [h for h in call.get("view") or [] if h[0] == which]
        if halo:
            inner = list(G.nodes)
            for _, new, at, anchor, eat in halo:
                if new in G:
                    continue
                G.add_node(new, **{k: graphio.unval(v) for k, v in at.items()})
                if anchor in inner:
                    G.add_edge(anchor, new, **{k: graphio.unval(v) for k, v in eat.items()})
            G = G.subgraph(inner)
        out.append(G)
    return out[0], out[1]


def call_route(m, A1, A2, call, mcs, mtg, entry=None):
    omit = bool(call.get("omit_defaults"))
    kw = {}
    if call.get("route") == "rc":
        if mtg:
            if not (omit and not mcs):
                kw["mcs"] = mcs
            if entry == "mcs_mol" or not omit:
                kw["mcs_mol"] = entry == "mcs_mol"
            return m.find_rc_mapping(A1, A2, **kw)
        side = call.get("side", "op")
        if not (omit and side == "op"):
            kw["side"] = side
        if not (omit and mcs):
            kw["mcs"] = mcs
        if entry == "rc_mol" or not omit:
            kw["mcs_mol"] = entry == "rc_mol"
        if not (omit and entry == "rc_component"):
            kw["component"] = entry == "rc_component"
        return m.find_rc_mapping(A1, A2, **kw)
    if not (omit and not mcs):
        kw["mcs"] = mcs
    if entry == "mcs_mol" or not omit:
        kw["mcs_mol"] = entry == "mcs_mol"
    return m.find_common_subgraph(A1, A2, **kw)


def impl_run_call(case, mcs, prune):
    """One query through the route described by case["call"] on a fresh matcher -> record as `impl_run`."""
    call = case["call"]
    mtg = case.get("variant", "main") == "mtg"
    entry = case.get("entry")
    try:
        A1, A2 = deliver(case)
        before = (snapshot(A1), snapshot(A2))
        try:
            m = _make_matcher(case, prune)
        except ValueError:
            return "ValueError"
        fresh = graphio_list(m.get_mappings() if mtg else m.get_mappings("host_to_pattern"))
        fresh_dir = None if mtg else m.mapping_direction
        if entry == "rc_bad_side":
            try:
                call_route(m, A1, A2, call, mcs, mtg, None)
            except ValueError:
                return "ValueError:side"
            return {"exception": f"side={call.get('side')!r} accepted (documented: ValueError)"}
        ret = call_route(m, A1, A2, call, mcs, mtg, entry)
        if not mtg and ret is not m:
            return {"exception": "the search call did not return self"}
        out = read_record(m, mtg, fresh)
        if fresh_dir is not None and "exception" not in out:
            out["fresh_direction"] = fresh_dir
    except Exception as e:
        return {"exception": type(e).__name__ + ": " + str(e)[:200]}
    if "exception" not in out and (snapshot(A1), snapshot(A2)) != before:
        return {"exception": "input graph mutated"}
    return out


def inv_pairs(m):
    return sorted([h, p] for p, h in m)


def entry_diffs(im):
    """Observables of a component-level query that are not the property itself (there is no Lean search model for these
    entry points): it must run, leave the inputs alone, and 'pattern_to_host' must be the direction its flag names."""
    if isinstance(im, str):
        return [f"constructor outcome {im!r}"]
    if "exception" in im:
        return ["implementation raised / misbehaved: " + im["exception"]]
    d = []
    if im["pattern_is_g1"] is None:
        d.append("no orientation recorded after a search")
    elif im["pattern_to_host"] != (im["g1_to_g2"] if im["pattern_is_g1"] else im["g2_to_g1"]):
        d.append("pattern_to_host is not the direction named by the orientation flag")
    md = im.get("mapping_direction")
    if md is not None and im["pattern_to_host"] != {"G1_to_G2": im["g1_to_g2"], "G2_to_G1": im["g2_to_g1"]}.get(md):
        d.append(f"pattern_to_host is not the direction named by mapping_direction={md!r}")
    if im.get("fresh_direction") not in (None, "unknown"):
        d.append(f"mapping_direction of a matcher that has not searched: {im['fresh_direction']!r} (documented: 'unknown')")
    return d


def entry_verdict(im, spec):
    """C12 on the output of a component-level query: every returned mapping is a common induced sub-graph (injective,
    selected labels, bonds and their orders both ways) and the two directions are mutually inverse.  Nothing about
    size: these modes match whole components greedily and do not promise a maximum common sub-graph."""
    if not is_ok(im) or spec is None:
        return []
    v = []
    if not spec["all_valid"]:
        v.append("a returned mapping is not a common induced subgraph (injective / labels / bonds both ways)")
    if [inv_pairs(m) for m in im["g1_to_g2"]] != im["g2_to_g1"] or [inv_pairs(m) for m in im["g2_to_g1"]] != im["g1_to_g2"]:
        v.append("the two directions are not mutually inverse")
    return v


def judge_one(case, mcs, prune, im, model, spec):
    if case.get("entry") == "rc_bad_side":
        return ([] if im == "ValueError:side" else [f"find_rc_mapping with an unknown side: {str(im)[:200]} (documented: ValueError)"]), []
    if case.get("entry"):
        return entry_diffs(im), entry_verdict(im, spec)
    return structural_diffs(im, model, model, mcs, prune), spec_verdict(im, spec, mcs)


def impl_run(case, mcs, prune):
    """Run the real matcher; returns the same record as the driver's `mcs.find`."""
    if case.get("call"):
        return impl_run_call(case, mcs, prune)
    if case.get("entry"):
        return impl_run_entry(case, mcs, prune)
    G1 = nx_of(case, "g1")
    G2 = nx_of(case, "g2")
    G1c, G2c = copy.deepcopy(G1), copy.deepcopy(G2)
    nk, nd, ek = case.get("node_keys"), _defaults(case), case.get("edge_keys")
    try:
        if case.get("variant", "main") == "mtg":
            from synkit.Graph.MTG.mcs_matcher import MCSMatcher as M

            kw = {}
            if ek is not None:
                kw["edge_attribute"] = ek[0]
            m = M(node_label_names=nk, node_label_defaults=nd, **kw)
            fresh = graphio_list(m.get_mappings())
            m.find_common_subgraph(G1, G2, mcs=mcs)
            p2h = graphio_list(m.get_mappings())
            out = {"pattern_is_g1": True, "last_size": int(m.last_size), "pattern_to_host": p2h,
                   "g1_to_g2": p2h, "g2_to_g1": [sorted([h, p] for p, h in x) for x in p2h],
                   "other_direction": None, "fresh": fresh}  # the MTG class has no direction argument
        else:
            from synkit.Graph.Matcher.mcs_matcher import MCSMatcher as M

            kw = {}
            wc = case.get("prune_wc")
            if wc is not None:
                kw.update(prune_wc=True, element_key=wc[0], wildcard_element=_wildcard(case, wc))
            try:
                m = M(node_attrs=nk, node_defaults=nd, edge_attrs=ek, prune_automorphisms=prune, **kw)
            except ValueError:
                return "ValueError"
            fresh = graphio_list(m.get_mappings("host_to_pattern"))
            ret = m.find_common_subgraph(G1, G2, mcs=mcs)
            if ret is not m:
                return {"exception": "find_common_subgraph did not return self"}
            try:
                other = graphio_list(m.get_mappings("host_to_pattern"))
            except ValueError:
                other = "ValueError"
            out = {"pattern_is_g1": m._last_pattern_is_G1, "last_size": int(m.last_size),
                   "pattern_to_host": graphio_list(m.get_mappings("pattern_to_host")),
                   "g1_to_g2": graphio_list(m.get_mappings("G1_to_G2")),
                   "g2_to_g1": graphio_list(m.get_mappings("G2_to_G1")),
                   "other_direction": other, "fresh": fresh}
            out = finish_record(m, out)
    except Exception as e:  # a crash of the implementation is an observable, not an infrastructure failure
        return {"exception": type(e).__name__ + ": " + str(e)[:200]}
    if "exception" not in out and (graphio.graph(G1) != graphio.graph(G1c) or graphio.graph(G2) != graphio.graph(G2c)):
        return {"exception": "input graph mutated"}
    return out


def graphio_list(ms):
    """list of dict mappings -> list (order kept) of key-sorted pair lists"""
    return [graphio.mapping(m) for m in ms]


def cfg_fields(case):
    d = {k: case.get(k) for k in ("node_keys", "node_defaults", "edge_keys")}
    d["variant"] = case.get("variant", "main")
    if case.get("prune_wc") is not None:
        d["prune_wc"] = case["prune_wc"]
    return d


def find_req(case, mcs, prune):
    return {"cmd": "mcs.find", "g1": case["g1"], "g2": case["g2"], "mcs": mcs, "prune": prune, **cfg_fields(case)}


def spec_req(case, mappings, size):
    return {"cmd": "spec.mcs", "g1": case["g1"], "g2": case["g2"], "mappings": mappings, "size": size, **cfg_fields(case)}


def sset(ms):
    return sorted(ms)


def hostset(m, col):
    return tuple(sorted(p[col] for p in m))


# ---------------------------------------------------------------- comparison
def structural_diffs(impl, model, model_unpruned, mcs, prune):
    """Differences between implementation record and model record(s) -> list of strings."""
    if isinstance(impl, str) or isinstance(model, str):
        return [] if impl == model else [f"constructor outcome impl={impl!r} model={model!r}"]
    if "exception" in impl:
        return ["implementation raised / misbehaved: " + impl["exception"]]
    d = []
    for k in ("pattern_is_g1", "last_size", "fresh"):
        if impl[k] != model[k]:
            d.append(f"{k}: impl={impl[k]!r} model={model[k]!r}")
    if "mapping_direction" in impl and impl["mapping_direction"] != DIRECTION_NAME.get(model["pattern_is_g1"]):
        d.append(f"mapping_direction: impl={impl['mapping_direction']!r} model={DIRECTION_NAME.get(model['pattern_is_g1'])!r}")
    if impl.get("fresh_direction") not in (None, "unknown"):
        d.append(f"mapping_direction of a matcher that has not searched: {impl['fresh_direction']!r} (documented: 'unknown')")
    if impl["other_direction"] is not None and (isinstance(impl["other_direction"], str) or isinstance(model["other_direction"], str)):
        if impl["other_direction"] != model["other_direction"]:
            d.append(f"unsupported direction string: impl={str(impl['other_direction'])[:80]} model={str(model['other_direction'])[:80]}")
    # directions of the implementation are mutually inverse, and pattern_to_host is one of them
    inv = [sorted([h, p] for p, h in m) for m in impl["g1_to_g2"]]
    if inv != impl["g2_to_g1"]:
        d.append("get_mappings('G2_to_G1') is not the pairwise inverse of get_mappings('G1_to_G2')")
    exp = impl["g1_to_g2"] if impl["pattern_is_g1"] else impl["g2_to_g1"]
    if impl["pattern_to_host"] != exp:
        d.append("pattern_to_host is not the direction named by the orientation flag")
    if not prune:
        for k in ("pattern_to_host", "g1_to_g2", "g2_to_g1"):
            if sset(impl[k]) != sset(model[k]):
                d.append(f"{k}: mapping sets differ: impl={json.dumps(sset(impl[k]))[:300]} model={json.dumps(sset(model[k]))[:300]}")
            if len(impl[k]) != len(set(map(json.dumps, impl[k]))):
                d.append(f"{k}: duplicate mappings returned")
    else:
        un = model_unpruned
        for k, col in (("pattern_to_host", 1), ("g1_to_g2", 1 if impl["pattern_is_g1"] else 0),
                       ("g2_to_g1", 0 if impl["pattern_is_g1"] else 1)):
            uset = set(map(json.dumps, un[k]))
            if any(json.dumps(m) not in uset for m in impl[k]):
                d.append(f"{k}: pruned result contains a mapping that the unpruned model result does not")
            hs_impl = [hostset(m, col) for m in impl[k]]
            hs_un = set(hostset(m, col) for m in un[k])
            if len(hs_impl) != len(set(hs_impl)):
                d.append(f"{k}: two surviving mappings cover the same host node set")
            if set(hs_impl) != hs_un:
                d.append(f"{k}: host node sets covered: impl {len(set(hs_impl))} vs unpruned model {len(hs_un)}")
            if len(impl[k]) != len(hs_un):
                d.append(f"{k}: number of mappings impl={len(impl[k])}, distinct host sets of the unpruned result={len(hs_un)}")
        if impl["last_size"] != un["last_size"]:
            d.append(f"last_size impl={impl['last_size']} unpruned model={un['last_size']}")
    return d


def spec_verdict(impl, spec, mcs):
    """Is the PROPERTY violated on what the implementation returned? -> list of strings."""
    if not isinstance(impl, dict) or "exception" in impl or spec is None:
        return []
    v = []
    if not spec["all_valid"]:
        v.append("a returned mapping is not a common induced subgraph (injective / labels / bonds both ways)")
    if mcs:
        if not spec["same_size"]:
            v.append("maximum mode: returned mappings do not all have size last_size")
        if spec["larger_exists"]:
            v.append("maximum mode: a larger common induced subgraph exists")
    inv = [sorted([h, p] for p, h in m) for m in impl["g1_to_g2"]]
    if inv != impl["g2_to_g1"]:
        v.append("the two directions are not mutually inverse")
    return v


def evaluate(ctx, case, modes=None):
    """Full evaluation of one case (used by shrink and replay): -> (diffs, spec_violations)."""
    modes = modes or modes_of(case)
    impls = [impl_run(case, mcs, prune) for mcs, prune in modes]
    reqs = []
    for (mcs, prune), im in zip(modes, impls):
        reqs.append(None if case.get("entry") else find_req(case, mcs, False))
        if isinstance(im, dict) and "exception" not in im:
            reqs.append(spec_req(case, im["g1_to_g2"], im["last_size"]))
        else:
            reqs.append(None)
    idx = [i for i, r in enumerate(reqs) if r is not None]
    ans = ctx.lean().ok([reqs[i] for i in idx]) if idx else []
    full = [None] * len(reqs)
    for i, a in zip(idx, ans):
        full[i] = a
    diffs, viols = [], []
    for j, ((mcs, prune), im) in enumerate(zip(modes, impls)):
        model, spec = full[2 * j], full[2 * j + 1]
        tag = (f"[{case['entry']} mcs={mcs} prune={prune}] " if case.get("entry") else f"[mcs={mcs} prune={prune}] ")
        d, v = judge_one(case, mcs, prune, im, model, spec)
        diffs += [tag + s for s in d]
        viols += [tag + s for s in v]
    return diffs, viols


# ---------------------------------------------------------------- shrinking
def case_elements(case):
    el = []
    for g in ("g1", "g2"):
        el += [(g, "n", i) for i in range(len(case[g]["nodes"]))]
        el += [(g, "e", i) for i in range(len(case[g]["edges"]))]
    return el


def case_from_elements(case, els):
    els = set(els)
    new = dict(case)
    for g in ("g1", "g2"):
        nodes = [n for i, n in enumerate(case[g]["nodes"]) if (g, "n", i) in els]
        ids = {n[0] for n in nodes}
        edges = [e for i, e in enumerate(case[g]["edges"]) if (g, "e", i) in els and e[0] in ids and e[1] in ids]
        new[g] = {"nodes": nodes, "edges": edges}
    return new


def shrink_case(ctx, case, want_spec):
    def fails(els):
        c = case_from_elements(case, els)
        if not c["g1"]["nodes"] or not c["g2"]["nodes"]:
            return False
        diffs, viols = evaluate(ctx, c)
        return bool(viols) if want_spec else bool(diffs)

    els = shrink_seq(case_elements(case), fails, budget=250)
    return case_from_elements(case, els)


# ---------------------------------------------------------------- generators
ELEMS2 = ["C", "O"]
ORD2 = [1, 2]


def V(x):
    return graphio.val(x)


def mk_graph(nodes, edges):
    """nodes: [(id, attrdict)], edges: [(u, v, attrdict)] -> graph JSON"""
    return {"nodes": [[i, graphio.attrs(a)] for i, a in nodes], "edges": [[u, v, graphio.attrs(a)] for u, v, a in edges]}


def tiny_classes(nmax):
    """All labelled graphs with <= nmax nodes over 2 elements x bond orders {1,2}, one per isomorphism class."""
    out = []
    for n in range(1, nmax + 1):
        pairs = list(itertools.combinations(range(n), 2))
        seen = set()
        for labels in itertools.product(range(2), repeat=n):
            for es in itertools.product(range(3), repeat=len(pairs)):
                adj = {p: o for p, o in zip(pairs, es)}
                best = None
                for perm in itertools.permutations(range(n)):
                    lab = tuple(labels[perm[i]] for i in range(n))
                    ed = tuple(adj[tuple(sorted((perm[i], perm[j])))] for i, j in pairs)
                    key = (lab, ed)
                    if best is None or key < best:
                        best = key
                if best in seen:
                    continue
                seen.add(best)
                out.append((labels, [(p, o) for p, o in zip(pairs, es) if o]))
    return out


def tiny_graph(cls, offset, rnd=None):
    labels, edges = cls
    n = len(labels)
    order = list(range(n))
    if rnd is not None:
        rnd.shuffle(order)
    nodes = [(offset + i, {"element": ELEMS2[labels[i]]}) for i in order]
    es = [(offset + a, offset + b, {"order": float(ORD2[o - 1])}) for (a, b), o in edges]
    if rnd is not None:
        rnd.shuffle(es)
        es = [(v, u, a) if rnd.random() < 0.5 else (u, v, a) for u, v, a in es]
    return mk_graph(nodes, es)


ELEMS = ["C", "C", "C", "N", "O", "S"]
ORDERS = [1.0, 1.0, 1.0, 2.0, 1.5, 3.0]


def rand_mol(rnd, n, elems=ELEMS, ring_p=0.35, charge_p=0.15):
    """Tree + ring closures, degree <= 4. -> (nodes dict id->attrs, edges dict (u,v)->attrs) with ids 0..n-1"""
    nodes = {}
    edges = {}
    deg = {}
    for i in range(n):
        a = {"element": rnd.choice(elems), "charge": rnd.choice([-1, 1]) if rnd.random() < charge_p else 0}
        nodes[i] = a
        deg[i] = 0
        if i:
            cands = [j for j in range(i) if deg[j] < 4]
            j = rnd.choice(cands) if cands else 0
            o = rnd.choice(ORDERS)
            edges[(j, i)] = {"order": o, "standard_order": o if rnd.random() < 0.8 else rnd.choice(ORDERS)}
            deg[i] += 1
            deg[j] += 1
    for _ in range(2):
        if n >= 3 and rnd.random() < ring_p:
            u, v = sorted(rnd.sample(range(n), 2))
            if (u, v) not in edges and deg[u] < 4 and deg[v] < 4:
                o = rnd.choice(ORDERS)
                edges[(u, v)] = {"order": o, "standard_order": o}
                deg[u] += 1
                deg[v] += 1
    return nodes, edges


def relabel_shuffle(rnd, nodes, edges, base, contiguous=False):
    """Relabel ids to non-contiguous values from `base`, shuffle insertion order and edge direction."""
    ids = list(nodes)
    if contiguous:
        new = list(range(base, base + len(ids)))
    else:
        new = rnd.sample(range(base, base + 3 * len(ids) + 2), len(ids))
    f = dict(zip(ids, new))
    order = ids[:]
    rnd.shuffle(order)
    ns = [(f[i], dict(nodes[i])) for i in order]
    es = [(f[u], f[v], dict(a)) for (u, v), a in edges.items()]
    rnd.shuffle(es)
    es = [(v, u, a) if rnd.random() < 0.5 else (u, v, a) for u, v, a in es]
    return ns, es, f


def grow(rnd, nodes, edges, extra):
    """Attach `extra` new nodes to the graph (ids continue)."""
    nodes = {k: dict(v) for k, v in nodes.items()}
    edges = {k: dict(v) for k, v in edges.items()}
    for _ in range(extra):
        i = max(nodes) + 1
        j = rnd.choice(list(nodes))
        nodes[i] = {"element": rnd.choice(ELEMS), "charge": 0}
        o = rnd.choice(ORDERS)
        edges[(j, i)] = {"order": o, "standard_order": o}
        if rnd.random() < 0.25 and len(nodes) > 2:
            k = rnd.choice([x for x in nodes if x not in (i, j)])
            edges[(k, i)] = {"order": rnd.choice(ORDERS), "standard_order": 1.0}
    return nodes, edges


def carve(rnd, nodes, edges, size):
    """A connected induced part of `size` nodes (as far as the component allows)."""
    adj = {i: set() for i in nodes}
    for u, v in edges:
        adj[u].add(v)
        adj[v].add(u)
    part = [rnd.choice(list(nodes))]
    while len(part) < size:
        fr = sorted({w for x in part for w in adj[x]} - set(part))
        if not fr:
            break
        part.append(rnd.choice(fr))
    sub_n = {i: dict(nodes[i]) for i in part}
    sub_e = {(u, v): dict(a) for (u, v), a in edges.items() if u in sub_n and v in sub_n}
    # renumber 0..
    f = {i: k for k, i in enumerate(part)}
    return {f[i]: a for i, a in sub_n.items()}, {tuple(sorted((f[u], f[v]))): a for (u, v), a in sub_e.items()}


def degrade(rnd, ns, es, p_node=0.0, p_edge=0.0, wildcard_p=0.0, tuple_p=0.0, none_p=0.0):
    """Remove selected attributes from some nodes/edges; explicit '*' elements; tuple / None orders."""
    for _, a in ns:
        if rnd.random() < p_node:
            a.pop("element", None)
        elif rnd.random() < wildcard_p:
            a["element"] = "*"
        if rnd.random() < p_node:
            a.pop("charge", None)
        if rnd.random() < none_p:
            a["element"] = None
    for _, _, a in es:
        r = rnd.random()
        if r < p_edge:
            a.pop("order", None)
            if rnd.random() < 0.5:
                a.pop("standard_order", None)
        elif r < p_edge + tuple_p:
            a["order"] = (a.get("order", 1.0), rnd.choice(ORDERS))
        elif r < p_edge + tuple_p + none_p:
            a["order"] = None


CFGS = [
    dict(node_keys=["element"], node_defaults=[V("*")], edge_keys=["order"]),
    dict(node_keys=["element"], node_defaults=[V("*")], edge_keys=["order"]),
    dict(node_keys=["element", "charge"], node_defaults=[V("*"), V(0)], edge_keys=["order"]),
    dict(node_keys=["element", "charge"], node_defaults=[V("*"), V(0)], edge_keys=["order", "standard_order"]),
    dict(node_keys=["element"], node_defaults=[V("*")], edge_keys=["order", "standard_order"]),
    dict(node_keys=None, node_defaults=None, edge_keys=None),
    dict(node_keys=["element"], node_defaults=None, edge_keys=[]),
]


def base_pair(rnd, kind, n1, n2):
    """The raw pair ((nodes, edges), (nodes, edges)) of one population kind (ids 0.., shared ids = planted common part)."""
    if kind == "planted":
        core_n, core_e = carve(rnd, *rand_mol(rnd, rnd.randint(4, 6)), size=rnd.randint(2, 4))
        a = grow(rnd, core_n, core_e, max(0, n1 - len(core_n)))
        b = grow(rnd, core_n, core_e, max(0, n2 - len(core_n)))
    elif kind == "copy":
        a = rand_mol(rnd, n1)
        b = ({k: dict(v) for k, v in a[0].items()}, {k: dict(v) for k, v in a[1].items()})
        if rnd.random() < 0.4:  # one-edit neighbour
            if b[1] and rnd.random() < 0.5:
                k = rnd.choice(list(b[1]))
                b[1][k]["order"] = rnd.choice([o for o in ORDERS if o != b[1][k]["order"]])
            else:
                k = rnd.choice(list(b[0]))
                b[0][k]["element"] = rnd.choice([e for e in ELEMS if e != b[0][k]["element"]])
    elif kind == "disconnected":
        def union(k):
            x = rand_mol(rnd, max(1, k // 2))
            y = rand_mol(rnd, max(1, k - k // 2))
            off = len(x[0])
            ns = dict(x[0]); ns.update({i + off: a_ for i, a_ in y[0].items()})
            es = dict(x[1]); es.update({(u + off, v + off): a_ for (u, v), a_ in y[1].items()})
            return ns, es
        a, b = union(n1), union(n2)
    elif kind == "symmetric":
        def ring(k, el, o):
            ns = {i: {"element": el, "charge": 0} for i in range(k)}
            es = {tuple(sorted((i, (i + 1) % k))): {"order": o, "standard_order": o} for i in range(k)} if k > 2 else {(0, 1): {"order": o, "standard_order": o}}
            return ns, es
        el = rnd.choice(["C", "N"]); o = rnd.choice([1.0, 1.5])
        a = ring(rnd.randint(3, 6), el, o)
        b = ring(rnd.randint(3, 7), el, o) if rnd.random() < 0.6 else rand_mol(rnd, n2, elems=[el, el, "O"])
    else:
        a, b = rand_mol(rnd, n1), rand_mol(rnd, n2)
    return a, b


def rand_case(rnd, kind, variant):
    """One random pair. kind in planted / copy / disconnected / degraded / random / wild."""
    cfg = dict(rnd.choice(CFGS))
    if variant == "mtg":
        cfg["edge_keys"] = [cfg["edge_keys"][0]] if cfg["edge_keys"] else (None if cfg["edge_keys"] is None else ["order"])
    n1 = rnd.randint(2, 6)
    n2 = rnd.randint(2, 7)
    swap_sizes = rnd.random()
    a, b = base_pair(rnd, kind, n1, n2)
    # size relation: force "first larger" in a third of the cases, equal in some
    if swap_sizes < 0.35 and len(a[0]) < len(b[0]):
        a, b = b, a
    elif swap_sizes > 0.85 and len(a[0]) != len(b[0]):
        small = min(len(a[0]), len(b[0]))
        def trim(g):
            keep = sorted(g[0])[:small]
            return {i: g[0][i] for i in keep}, {k: v for k, v in g[1].items() if k[0] in keep and k[1] in keep}
        a, b = trim(a), trim(b)
    overlap = rnd.random() < 0.15
    na, ea, _ = relabel_shuffle(rnd, *a, base=rnd.choice([0, 1, 5]), contiguous=rnd.random() < 0.3)
    nb, eb, _ = relabel_shuffle(rnd, *b, base=(0 if overlap else 40), contiguous=rnd.random() < 0.3)
    if kind in ("degraded", "wild"):
        degrade(rnd, na, ea, p_node=0.25, p_edge=0.3, wildcard_p=0.2, tuple_p=0.1, none_p=0.05)
        degrade(rnd, nb, eb, p_node=0.25, p_edge=0.3, wildcard_p=0.2, tuple_p=0.1, none_p=0.05)
    case = {"g1": mk_graph(na, ea), "g2": mk_graph(nb, eb), "variant": variant, **cfg}
    if kind == "wild" and variant == "main":
        case["prune_wc"] = ["element", V("*")]
    return case


KINDS = ["planted", "planted", "planted", "copy", "copy", "disconnected", "symmetric", "degraded", "degraded", "random", "wild"]


def malformed_cases():
    g = mk_graph([(1, {"element": "C"}), (2, {"element": "O"})], [(1, 2, {"order": 1.0})])
    h = mk_graph([(7, {"element": "C"})], [])
    e = mk_graph([], [])
    out = []
    for a, b in [(g, e), (e, g), (e, e), (g, h), (h, g)]:
        for variant in ("main", "mtg"):
            out.append({"g1": a, "g2": b, "variant": variant, "node_keys": ["element"], "node_defaults": [V("*")], "edge_keys": ["order"]})
    # constructor length check (main) / zip truncation (mtg)
    for variant in ("main", "mtg"):
        out.append({"g1": g, "g2": g, "variant": variant, "node_keys": ["element", "charge"], "node_defaults": [V("*")], "edge_keys": ["order"]})
        out.append({"g1": g, "g2": g, "variant": variant, "node_keys": ["element"], "node_defaults": [V("*"), V(0)], "edge_keys": ["order"]})
    return out


# ---------------------------------------------------------------- running a population
def stats(ctx, case, mcs, prune, im, tag):
    ctx.count(f"stream:{tag}")
    ctx.count(f"variant:{case.get('variant', 'main')}")
    ctx.count(f"mode:mcs={mcs},prune={prune}")
    if isinstance(im, dict) and "exception" not in im:
        ctx.count("swap:" + ("no" if im["pattern_is_g1"] else "yes"))
        if mcs:
            ctx.count(f"mcs_size:{im['last_size']}")
            ctx.count("n_mappings:" + ("0" if not im["pattern_to_host"] else "1" if len(im["pattern_to_host"]) == 1 else "2-5" if len(im["pattern_to_host"]) <= 5 else ">5"))
    elif isinstance(im, str):
        ctx.count("constructor:" + im)


def judge_jobs(ctx, jobs, tag):
    """jobs: [(case, mcs, prune, impl record, canonical, has_history)] -> [(diffs, viols)] per job.

    The model / specification side is asked per job, from the job's own (pair, options, mode) only -
    the Lean model is a pure function, so whatever happened to the matcher object before the query
    cannot enter the expected answer.  One batched driver call."""
    reqs = []
    slots = []
    for case, mcs, prune, im, _canon, _hist in jobs:
        s = {}
        entry = case.get("entry")
        if not entry:
            s["model"] = len(reqs)
            reqs.append(find_req(case, mcs, False))
        if isinstance(im, dict) and "exception" not in im:
            s["spec"] = len(reqs)
            reqs.append(spec_req(case, im["g1_to_g2"], im["last_size"]))
        if prune and not entry:
            s["pruned_model"] = len(reqs)
            reqs.append(find_req(case, mcs, True))
        slots.append(s)
    ans = ctx.lean().ok(reqs, shards=8) if reqs else []
    verdicts = []
    for (case, mcs, prune, im, canon, hist), s in zip(jobs, slots):
        entry = case.get("entry")
        model = ans[s["model"]] if "model" in s else None
        spec = ans[s["spec"]] if "spec" in s else None
        stats(ctx, case, mcs, prune, im, tag)
        n1, n2 = len(case["g1"]["nodes"]), len(case["g2"]["nodes"])
        ctx.count(f"sizes:{n1}x{n2}")
        nontriv = False
        if entry:
            ctx.count("entry:" + entry)
            if is_ok(im):
                k = im["last_size"]
                ctx.count("entry_coverage:" + ("none" if k == 0 else "all-of-G1" if k == n1 else "part"))
                # a component-level answer counts when it maps at least two atoms
                nontriv = k >= 2
        elif isinstance(im, dict) and "exception" not in im and mcs:
            k = im["last_size"]
            nontriv = (k >= 2 and k < n1 and k < n2) or (k >= 1 and len(im["pattern_to_host"]) >= 2)
        if hist is not None:  # a query on a matcher that has already answered others
            nontriv = bool(hist) and isinstance(im, dict) and "exception" not in im and im["last_size"] >= 2
        ctx.case(canon if canon is not None else [case, mcs, prune], nontriv,
                 sample={"stream": tag, "mcs": mcs, "prune": prune, "case": case,
                         "impl": im if not isinstance(im, dict) else {k: im.get(k) for k in ("pattern_is_g1", "last_size", "g1_to_g2")}}
                 if (nontriv and n1 <= 4 and n2 <= 4 and hist is None) else None)
        diffs, viols = judge_one(case, mcs, prune, im, model, spec)
        if isinstance(im, dict) and "exception" not in im and isinstance(model, dict):
            if not prune:
                ctx.count("result_order_agrees:" + ("yes" if im["pattern_to_host"] == model["pattern_to_host"] else "no"))
            elif not diffs:
                pm = ans[s["pruned_model"]]
                md = structural_diffs(pm, model, model, mcs, True)
                if md:  # the model's own pruned run must pass the same gate (it is what the theorem is about)
                    diffs = ["model self-check (pruned model run vs unpruned model run): " + x for x in md]
                ctx.count("pruned_survivors_equal_model_choice:" + ("yes" if sset(im["pattern_to_host"]) == sset(pm["pattern_to_host"]) else "no"))
        verdicts.append((diffs, viols))
    return verdicts


def run_cases(ctx, cases, tag, modes_main=MODES_MAIN, modes_mtg=MODES_MTG):
    """Evaluate cases in every mode (a fresh matcher per query); one batched driver call."""
    jobs = []
    for case in cases:
        for mcs, prune in modes_of(case, modes_main, modes_mtg):
            jobs.append((case, mcs, prune, impl_run(case, mcs, prune), None, None))
    bad_cases = {}
    for (case, mcs, prune, im, _c, _h), (diffs, viols) in zip(jobs, judge_jobs(ctx, jobs, tag)):
        if diffs or viols:
            key = json.dumps(case, sort_keys=True)
            bad_cases.setdefault(key, (case, [], []))
            bad_cases[key][1].extend(f"[mcs={mcs} prune={prune}] {x}" for x in diffs)
            bad_cases[key][2].extend(f"[mcs={mcs} prune={prune}] {x}" for x in viols)
    for case, diffs, viols in list(bad_cases.values())[:3]:
        report(ctx, case, diffs, viols, tag)
    return not bad_cases


def report(ctx, case, diffs, viols, tag):
    if viols:
        small = shrink_case(ctx, case, want_spec=True)
        d2, v2 = evaluate(ctx, small)
        what = "common-subgraph matcher output violates C12 (validity / equal size / maximality / inverse directions)"
        if case.get("entry"):
            what = (f"common-subgraph matcher output violates C12 (validity / inverse directions) in component-level mode "
                    f"'{case['entry']}' (see ENTRIES in harness/props/c12.py for the call)")
        ctx.violation(what,
                      small, {"spec_violations": v2 or viols, "differences_from_model": (d2 or diffs)[:8], "stream": tag,
                              "impl": {f"mcs={m},prune={p}": impl_run(small, m, p) for m, p in modes_of(small)}})
    elif case.get("entry"):
        small = shrink_case(ctx, case, want_spec=False)
        d2, _ = evaluate(ctx, small)
        ctx.violation(f"component-level entry point '{case['entry']}' of MCSMatcher raised / mutated its input / reports an orientation "
                      "that is not one of its two directions; the specification is not violated on what it returned",
                      small, {"differences": (d2 or diffs)[:8], "stream": tag}, no_input=True)
    else:
        small = shrink_case(ctx, case, want_spec=False)
        d2, _ = evaluate(ctx, small)
        ctx.violation("correspondence broken: MCSMatcher differs from the Lean model SynKit.Mcs.find (theorems of Props/C12.lean "
                      "speak about the model); the specification holds on the implementation's output",
                      small, {"differences_from_model": (d2 or diffs)[:8], "stream": tag}, no_input=True)


# ---------------------------------------------------------------- option / attribute-selection variation
NODE_KEY_POOL = ["element", "charge", "hcount", "w"]
NODE_KEY_STD_DEFAULT = {"element": "*", "charge": 0, "hcount": 0, "w": 1}
NODE_KEY_DOMAIN = {"element": ["C", "N", "O"], "charge": [0, 1, -1], "hcount": [0, 1, 2, 3], "w": [1, 2]}
EDGE_KEY_POOL = ["order", "standard_order", "w"]  # "w" lives on nodes AND on edges


def enrich(rnd, a, b, keep=0.85):
    """Add the attributes hcount / w (nodes) and w (edges) to a raw pair.  Items with the same id in both graphs
    (the planted common part, a copy) get the same value with probability `keep`, so that the common part mostly
    survives the richer key sets."""
    tab_n, tab_e = {}, {}
    for g in (a, b):
        for i, at in g[0].items():
            for k, dom in (("hcount", [0, 0, 1, 2, 3]), ("w", [1, 1, 2])):
                if (i, k) not in tab_n:
                    tab_n[(i, k)] = rnd.choice(dom)
                at[k] = tab_n[(i, k)] if rnd.random() < keep else rnd.choice(dom)
        for e, at in g[1].items():
            if e not in tab_e:
                tab_e[e] = rnd.choice([1, 1, 2, 1.5])
            at["w"] = tab_e[e] if rnd.random() < keep else rnd.choice([1, 2, 1.5])


def rand_cfg(rnd, variant):
    """A non-default option set: permuted / longer / shorter key lists, non-standard defaults, keys living on both
    nodes and edges, non-default wildcard pruning."""
    r = rnd.random()
    if r < 0.1:
        nk, nd = None, None
    else:
        nk = rnd.sample(NODE_KEY_POOL, rnd.choice([1, 2, 2, 3, 3, 4]))
        if rnd.random() < 0.2:
            nd = None  # "*" for every key
        else:
            nd = []
            for k in nk:
                q = rnd.random()
                nd.append(V(NODE_KEY_STD_DEFAULT[k]) if q < 0.5 else V(rnd.choice(NODE_KEY_DOMAIN[k])) if q < 0.85 else None)
    if variant == "mtg":
        ek = None if rnd.random() < 0.15 else [rnd.choice(EDGE_KEY_POOL)]
    else:
        q = rnd.random()
        ek = None if q < 0.1 else [] if q < 0.15 else rnd.sample(EDGE_KEY_POOL, rnd.choice([1, 2, 2, 3]))
    cfg = dict(node_keys=nk, node_defaults=nd, edge_keys=ek)
    if variant == "main" and rnd.random() < 0.3:
        cfg["prune_wc"] = rnd.choice([["element", V("*")], ["element", V("O")], ["charge", V(1)], ["w", V(2)], ["hcount", V(3)]])
    return cfg


def finish_pair(rnd, a, b, variant, cfg, swap_p=0.35, overlap_p=0.15):
    """Orientation, relabelling and shuffling shared by the new generators."""
    if rnd.random() < swap_p and len(a[0]) < len(b[0]):
        a, b = b, a
    overlap = rnd.random() < overlap_p
    na, ea, _ = relabel_shuffle(rnd, *a, base=rnd.choice([0, 1, 5]), contiguous=rnd.random() < 0.3)
    nb, eb, _ = relabel_shuffle(rnd, *b, base=(0 if overlap else 40), contiguous=rnd.random() < 0.3)
    return na, ea, nb, eb


def options_case(rnd, variant):
    kind = rnd.choice(["planted", "planted", "copy", "copy", "symmetric", "disconnected", "random"])
    a, b = base_pair(rnd, kind, rnd.randint(2, 5), rnd.randint(2, 6))
    enrich(rnd, a, b)
    cfg = rand_cfg(rnd, variant)
    na, ea, nb, eb = finish_pair(rnd, a, b, variant, cfg)
    if rnd.random() < 0.3:
        degrade(rnd, na, ea, p_node=0.12, p_edge=0.12, wildcard_p=0.1)
        degrade(rnd, nb, eb, p_node=0.12, p_edge=0.12, wildcard_p=0.1)
    if rnd.random() < 0.2:  # an optional attribute absent from one whole graph
        k = rnd.choice(["charge", "hcount", "w"])
        for _, at in rnd.choice([na, nb]):
            at.pop(k, None)
    return {"g1": mk_graph(na, ea), "g2": mk_graph(nb, eb), "variant": variant, **cfg}


# ---------------------------------------------------------------- rare but legal inputs
def skeleton(rnd, shape, k):
    """A symmetric skeleton with uniform labels: ring / path / star / clique."""
    if shape == "ring" and k >= 3:
        es = [(i, (i + 1) % k) for i in range(k)]
    elif shape == "star":
        es = [(0, i) for i in range(1, k)]
    elif shape == "clique":
        es = [(i, j) for i in range(k) for j in range(i + 1, k)]
    else:
        es = [(i, i + 1) for i in range(k - 1)]
    return es


def sym_break_pair(rnd):
    """Both graphs carry the same (or a one-size-off) symmetric skeleton with uniform labels; exactly ONE attribute of
    one item breaks the symmetry (in one graph, or in both - at the same or at a different place)."""
    shape = rnd.choice(["ring", "ring", "path", "star", "clique"])
    k1 = rnd.randint(3, 5) if shape != "clique" else rnd.randint(3, 4)
    k2 = k1 if rnd.random() < 0.6 else min(6, k1 + 1)
    el, o = rnd.choice(["C", "N"]), rnd.choice([1.0, 1.5, 2.0])

    def build(k):
        ns = {i: {"element": el, "charge": 0, "hcount": 1} for i in range(k)}
        es = {tuple(sorted(e)): {"order": o, "standard_order": o, "w": 1} for e in skeleton(rnd, shape, k)}
        return ns, es
    a, b = build(k1), build(k2)
    what = rnd.choice(["charge", "element", "hcount", "order", "standard_order", "w", "tuple", "missing"])

    def brk(g):
        if what in ("charge", "element", "hcount"):
            i = rnd.choice(list(g[0]))
            g[0][i][what] = {"charge": 1, "element": "O", "hcount": 2}[what]
        else:
            e = rnd.choice(list(g[1]))
            if what == "tuple":
                g[1][e]["order"] = (o, 2.0 if o != 2.0 else 1.0)
            elif what == "missing":
                g[1][e].pop("order")
            else:
                g[1][e][what] = 3.0 if what != "w" else 2
    r = rnd.random()
    brk(a)
    if r < 0.6:
        brk(b)
    node_keys = ["element", "charge", "hcount"]
    edge_keys = ["order", "standard_order", "w"]
    breaker = what if what not in ("tuple", "missing") else "order"
    sees = rnd.random() < 0.7  # does the option set select the symmetry-breaking attribute?
    nk = [x for x in node_keys if x != breaker and rnd.random() < 0.5]
    ek = [x for x in edge_keys if x != breaker and rnd.random() < 0.4]
    if sees:
        (nk if breaker in node_keys else ek).append(breaker)
    if not nk:
        nk = ["element"] if breaker != "element" or sees else ["charge"]
    if not ek:
        ek = ["order"] if breaker != "order" or sees else ["standard_order"]
    rnd.shuffle(nk); rnd.shuffle(ek)
    cfg = dict(node_keys=nk, node_defaults=[V(NODE_KEY_STD_DEFAULT[x]) for x in nk], edge_keys=ek)
    return a, b, cfg


def tuple_swap(rnd, a, b):
    """Tuple-valued orders: (x, y) in one graph next to (x, y) / (y, x) / x / (x, x) on the same edge of the other."""
    shared = [e for e in a[1] if e in b[1]] or list(a[1])
    for e in rnd.sample(shared, min(len(shared), rnd.randint(1, 3))) if shared else []:
        x, y = rnd.sample([1.0, 2.0, 1.5, 3.0], 2)
        a[1][e]["order"] = (x, y)
        if e in b[1]:
            b[1][e]["order"] = rnd.choice([(x, y), (x, y), (y, x), (y, x), x, (x, x), (x, y, y), None])
    for g in (a, b):  # and a few unrelated ones
        for e in g[1]:
            if rnd.random() < 0.1:
                g[1][e]["order"] = tuple(rnd.sample([1.0, 2.0, 1.5], 2))


def add_spectators(rnd, g, base_id):
    """Extra components that take no part in the common structure: isolated atoms, a two-atom molecule."""
    ns, es = g
    i = max(list(ns) + [base_id - 1]) + 1
    for _ in range(rnd.randint(1, 2)):
        if rnd.random() < 0.5:
            ns[i] = {"element": rnd.choice(["O", "Cl", "C", "*"]), "charge": rnd.choice([0, 0, -1])}
            i += 1
        else:
            ns[i] = {"element": rnd.choice(["C", "O", "N"]), "charge": 0}
            ns[i + 1] = {"element": rnd.choice(["C", "O"]), "charge": 0}
            o = rnd.choice([1.0, 2.0])
            es[(i, i + 1)] = {"order": o, "standard_order": o}
            i += 2


def rare_case(rnd, variant, kind):
    cfg = dict(rnd.choice(CFGS))
    if kind == "sym_break":
        a, b, cfg = sym_break_pair(rnd)
    elif kind == "tuple_swap":
        a, b = base_pair(rnd, rnd.choice(["planted", "copy", "copy"]), rnd.randint(2, 5), rnd.randint(2, 6))
        tuple_swap(rnd, a, b)
    elif kind == "spectator":
        a, b = base_pair(rnd, rnd.choice(["planted", "copy"]), rnd.randint(2, 4), rnd.randint(2, 4))
        which = rnd.random()
        if which < 0.7:
            add_spectators(rnd, a, 50)
        if which > 0.3:
            add_spectators(rnd, b, 60)
    elif kind == "missing_opt":
        a, b = base_pair(rnd, rnd.choice(["planted", "copy"]), rnd.randint(2, 5), rnd.randint(2, 6))
        cfg = dict(rnd.choice(CFGS[2:5]))
        for g in rnd.choice([(a,), (b,), (a, b)]):
            what = rnd.choice(["charge", "order", "standard_order", "element"])
            if what in ("charge", "element"):
                for at in g[0].values():
                    at.pop(what, None)
            else:
                for at in g[1].values():
                    at.pop(what, None)
    else:  # "identical": the very same labelled graph twice, same ids, or a graph against an induced part of itself
        a = rand_mol(rnd, rnd.randint(2, 6))
        if rnd.random() < 0.5:
            b = ({k: dict(v) for k, v in a[0].items()}, {k: dict(v) for k, v in a[1].items()})
        else:
            b = carve(rnd, *a, size=rnd.randint(1, len(a[0])))
        if variant == "mtg" and cfg["edge_keys"] is not None:
            cfg["edge_keys"] = [cfg["edge_keys"][0]] if cfg["edge_keys"] else ["order"]
        ida = lambda g: ([(i, dict(at)) for i, at in g[0].items()], [(u, v, dict(at)) for (u, v), at in g[1].items()])
        (na, ea), (nb, eb) = ida(a), ida(b)
        if rnd.random() < 0.5:
            na, ea, nb, eb = nb, eb, na, ea
        return {"g1": mk_graph(na, ea), "g2": mk_graph(nb, eb), "variant": variant, **cfg}
    if variant == "mtg" and cfg["edge_keys"] is not None:
        cfg["edge_keys"] = [cfg["edge_keys"][0]] if cfg["edge_keys"] else ["order"]
    na, ea, nb, eb = finish_pair(rnd, a, b, variant, cfg)
    return {"g1": mk_graph(na, ea), "g2": mk_graph(nb, eb), "variant": variant, **cfg}


RARE_KINDS = ["sym_break", "sym_break", "tuple_swap", "tuple_swap", "spectator", "missing_opt", "identical"]


# ---------------------------------------------------------------- molecule sets: several components, repeated ones
# Both graphs are multisets of small connected fragments drawn from 1..3 fragment TYPES, so that mutually isomorphic
# components occur inside one graph and across the two graphs (two equivalents of a reagent, the same molecule on
# both sides, ...).  What varies: which side has repeats / more components, near-miss components (one edit away from a
# type), and - independently - how the node ids of the two graphs relate (same universe, disjoint ranges with either
# graph lower, ranges shifted by 1..3, one graph on even and the other on odd ids) and how the ids of one graph are
# spread over its components (consecutive blocks, round robin, scattered).  Every component instance gets its own
# internal node numbering, insertion order is shuffled over the whole graph.
FRAGS = [
    (["C", "O"], [(0, 1, 1.0)]),
    (["C", "O"], [(0, 1, 2.0)]),
    (["C", "C"], [(0, 1, 1.0)]),
    (["N", "C"], [(0, 1, 3.0)]),
    (["C", "C", "O"], [(0, 1, 1.0), (1, 2, 2.0)]),
    (["C", "C", "O"], [(0, 1, 1.0), (1, 2, 1.0)]),
    (["C", "C", "C"], [(0, 1, 1.5), (1, 2, 1.5), (0, 2, 1.5)]),
    (["C", "N", "C"], [(0, 1, 1.0), (1, 2, 1.0)]),
    (["O"], []),
    (["C"], []),
    (["Cl"], []),
    (["C", "C", "C", "O"], [(0, 1, 1.0), (1, 2, 1.0), (2, 3, 1.0)]),
    (["C", "O", "O", "C"], [(0, 1, 2.0), (0, 2, 1.0), (2, 3, 1.0)]),
    (["C", "C", "C", "C"], [(0, 1, 1.0), (1, 2, 1.0), (2, 3, 1.0), (0, 3, 1.0)]),
]


def frag(rnd, nmax, rich):
    """One connected fragment (nodes dict, edges dict), local ids 0..; `rich` adds hcount / w (nodes) and w (edges)."""
    if rnd.random() < 0.55:
        labels, es = rnd.choice([f for f in FRAGS if len(f[0]) <= nmax])
        ns = {i: {"element": el, "charge": 0} for i, el in enumerate(labels)}
        ed = {(u, v): {"order": o, "standard_order": o} for u, v, o in es}
    else:
        ns, ed = rand_mol(rnd, rnd.randint(1, nmax), ring_p=0.25, charge_p=0.1)
    if rich:
        for at in ns.values():
            at["hcount"] = rnd.choice([0, 0, 1, 2, 3])
            at["w"] = rnd.choice([1, 1, 2])
        for at in ed.values():
            at["w"] = rnd.choice([1, 1, 2, 1.5])
    return ns, ed


def frag_copy(f):
    return {i: dict(a) for i, a in f[0].items()}, {e: dict(a) for e, a in f[1].items()}


def frag_variant(rnd, f):
    """A near miss: the fragment with ONE attribute of one atom / bond changed (value, tuple order reversed or
    introduced, attribute dropped)."""
    ns, ed = frag_copy(f)
    kinds = ["element", "charge"] + (["order", "order", "standard_order", "tuple", "missing"] if ed else [])
    what = rnd.choice(kinds)
    if what in ("element", "charge"):
        i = rnd.choice(list(ns))
        if what == "element":
            ns[i]["element"] = rnd.choice([e for e in ["C", "N", "O", "S"] if e != ns[i].get("element")])
        else:
            ns[i]["charge"] = rnd.choice([c for c in [0, 1, -1] if c != ns[i].get("charge")])
    else:
        e = rnd.choice(list(ed))
        o = ed[e].get("order", 1.0)
        if isinstance(o, tuple):
            ed[e]["order"] = tuple(reversed(o)) if what != "missing" else o[0]
        elif what == "tuple":
            ed[e]["order"] = (o, rnd.choice([x for x in [1.0, 2.0, 1.5] if x != o]))
        elif what == "missing":
            ed[e].pop("order", None)
        else:
            ed[e][what] = rnd.choice([x for x in [1.0, 2.0, 1.5, 3.0] if x != ed[e].get(what)])
    return ns, ed


COMP_RELATIONS = ["same", "same", "fewer", "more", "more", "nearmiss", "nearmiss", "independent"]
ID_RELATIONS = ["same", "disjoint", "disjoint", "shifted", "shifted", "parity", "sparse"]
ID_STYLES = ["block", "block", "roundrobin", "scattered"]


def comp_multisets(rnd, cap1, cap2, rich):
    """-> (components of G1, components of G2, relation) as fragment lists."""
    fmax = rnd.choice([1, 2, 2, 3, 3, 4])
    types = [frag(rnd, fmax, rich) for _ in range(rnd.choice([1, 2, 2, 3]))]
    if rnd.random() < 0.12:  # a type that carries a tuple-valued order
        t = rnd.choice(types)
        if t[1]:
            e = rnd.choice(list(t[1]))
            t[1][e]["order"] = tuple(rnd.sample([1.0, 2.0, 1.5], 2))
    c1 = [rnd.randrange(len(types)) for _ in range(rnd.randint(2, 4))]
    if len(set(c1)) == len(c1) and rnd.random() < 0.8:
        c1[-1] = c1[0]  # at least one repeated type
    rel = rnd.choice(COMP_RELATIONS)
    a = [frag_copy(types[t]) for t in c1]
    if rel == "same":
        b = [frag_copy(types[t]) for t in c1]
    elif rel == "fewer":
        keep = sorted(rnd.sample(range(len(c1)), rnd.randint(1, len(c1) - 1)))
        b = [frag_copy(types[c1[i]]) for i in keep]
    elif rel == "more":
        b = [frag_copy(types[t]) for t in c1 + [rnd.choice(c1) for _ in range(rnd.randint(1, 2))]]
    elif rel == "nearmiss":
        b = [frag_copy(types[t]) for t in c1]
        for i in rnd.sample(range(len(b)), rnd.choice([1, 1, 2]) if len(b) > 1 else 1):
            b[i] = frag_variant(rnd, b[i])
        if rnd.random() < 0.4:
            b.append(frag_copy(types[rnd.choice(c1)]))
    else:
        b = [frag_copy(types[rnd.randrange(len(types))]) for _ in range(rnd.randint(1, 4))]
    for g in (a, b):  # a component that has no partner at all
        if rnd.random() < 0.15:
            g.append(frag_copy(frag(rnd, 2, rich)))
    if rnd.random() < 0.5:  # repeats / the larger multiset on either side
        a, b = b, a
    rnd.shuffle(a)
    rnd.shuffle(b)
    for g, cap in ((a, cap1), (b, cap2)):
        while len(g) > 1 and sum(len(f[0]) for f in g) > cap:
            g.pop()
    return a, b, rel


def layout(rnd, comps, base, step, style, sparse):
    """Give the components of one graph their node ids -> (node list, edge list) in shuffled insertion order."""
    n = sum(len(f[0]) for f in comps)
    slots = sorted(rnd.sample(range(base, base + 3 * n + 2), n)) if sparse else [base + step * i for i in range(n)]
    owner = []
    if style == "block":
        for k, f in enumerate(comps):
            owner += [k] * len(f[0])
    elif style == "roundrobin":
        left = [len(f[0]) for f in comps]
        while any(left):
            for k in range(len(comps)):
                if left[k]:
                    owner.append(k)
                    left[k] -= 1
    else:
        for k, f in enumerate(comps):
            owner += [k] * len(f[0])
        rnd.shuffle(owner)
    ns, es = [], []
    for k, f in enumerate(comps):
        mine = [s for s, o in zip(slots, owner) if o == k]
        rnd.shuffle(mine)  # own internal numbering of every instance
        g = dict(zip(list(f[0]), mine))
        ns += [(g[i], dict(a)) for i, a in f[0].items()]
        es += [(g[u], g[v], dict(a)) for (u, v), a in f[1].items()]
    rnd.shuffle(ns)
    rnd.shuffle(es)
    es = [(v, u, a) if rnd.random() < 0.5 else (u, v, a) for u, v, a in es]
    return ns, es


def comp_case(rnd, variant, cap1, cap2, counts=None):
    """One pair of molecule sets with its option set."""
    rich = rnd.random() < 0.35
    a, b, rel = comp_multisets(rnd, cap1, cap2, rich)
    idrel = rnd.choice(ID_RELATIONS)
    base1 = rnd.choice([0, 1, 10, 20])
    step = 1
    sparse = False
    if idrel == "same":
        base2 = base1
    elif idrel == "disjoint":
        base2 = base1 + 40
        if rnd.random() < 0.5:
            base1, base2 = base2, base1  # first graph on the higher ids
    elif idrel == "shifted":
        base2 = base1 + rnd.randint(1, 3)
    elif idrel == "parity":
        step = 2
        base2 = base1 + 1
        if rnd.random() < 0.5:
            base1, base2 = base2, base1
    else:
        sparse = True
        base2 = base1 if rnd.random() < 0.5 else base1 + rnd.randint(1, 3)
    s1, s2 = rnd.choice(ID_STYLES), rnd.choice(ID_STYLES)
    na, ea = layout(rnd, a, base1, step, s1, sparse)
    nb, eb = layout(rnd, b, base2, step, s2, sparse)
    if rich:
        cfg = rand_cfg(rnd, variant)
    else:
        cfg = dict(rnd.choice(CFGS))
        if variant == "mtg":
            cfg["edge_keys"] = [cfg["edge_keys"][0]] if cfg["edge_keys"] else (None if cfg["edge_keys"] is None else ["order"])
    if variant == "main" and "prune_wc" not in cfg and rnd.random() < 0.1:
        # wildcard atoms hanging on / standing next to the molecules, removed before the search
        cfg["prune_wc"] = ["element", V("*")]
        for ns, es in ((na, ea), (nb, eb)):
            for _ in range(rnd.randint(0, 2)):
                new = max(i for i, _ in ns) + 1
                ns.append((new, {"element": "*", "charge": 0}))
                if rnd.random() < 0.6:
                    es.append((rnd.choice(ns[:-1])[0], new, {"order": 1.0, "standard_order": 1.0}))
    if counts is not None:
        counts(f"comp_relation:{rel}")
        counts(f"comp_ids:{idrel}")
        counts(f"comp_layout:{s1}/{s2}")
        counts(f"comp_counts:{len(a)}v{len(b)}")
    return {"g1": mk_graph(na, ea), "g2": mk_graph(nb, eb), "variant": variant, **cfg}


def with_entry(rnd, case):
    """Turn a pair into ONE query through a component-level entry point."""
    mtg = case.get("variant", "main") == "mtg"
    entry = rnd.choice(ENTRIES_MTG if mtg else ENTRIES_MAIN)
    return {**case, "entry": entry, "entry_mcs": rnd.random() < 0.5, "entry_prune": (not mtg) and rnd.random() < 0.3}


def comp_session(rnd, variant):
    """One matcher object answers component-level and ordinary queries on a pool of molecule sets that is built once:
    the base pair, a relabelled copy of one of them on other ids, one of them with a component removed / doubled."""
    base = comp_case(rnd, variant, 5, 5)
    pool = [base["g1"], base["g2"]]
    src = rnd.choice(pool)
    ids = [n[0] for n in src["nodes"]]
    f = dict(zip(ids, rnd.sample(range(60, 60 + 2 * len(ids) + 2), len(ids))))
    ns = [[f[n[0]], copy.deepcopy(n[1])] for n in src["nodes"]]
    es = [[f[e[0]], f[e[1]], copy.deepcopy(e[2])] for e in src["edges"]]
    rnd.shuffle(ns)
    rnd.shuffle(es)
    pool.append({"nodes": ns, "edges": es})
    if rnd.random() < 0.6:
        pool.append(derive_graph_json(rnd, rnd.choice(pool[:2])))
    sess = {"session": True, **cfg_fields(base), "prune": variant == "main" and rnd.random() < 0.3, "graphs": pool, "steps": []}
    entries = ENTRIES_MTG if variant == "mtg" else ENTRIES_MAIN
    pair = (0, 1)
    for k in range(rnd.randint(3, 6)):
        r = rnd.random()
        if k and r < 0.3:
            pass  # the same two objects again (entry point / mode drawn anew)
        elif k and r < 0.5:
            pair = (pair[1], pair[0])
        elif k:
            pair = (rnd.randrange(len(pool)), rnd.randrange(len(pool)))
        if k and rnd.random() < 0.12 and variant == "main":
            sess["steps"].append({"op": "set_prune", "value": rnd.random() < 0.5})
        st = {"op": "find", "a": pair[0], "b": pair[1], "mcs": rnd.random() < 0.5, "peek": rand_peek(rnd)}
        if rnd.random() < 0.7:
            st["entry"] = rnd.choice(entries)
        sess["steps"].append(st)
    return sess


# ---------------------------------------------------------------- sessions: one matcher object, many queries
# A session is {"session": true, variant, option fields, "prune": bool, "graphs": [graph JSON ...], "steps": [...]}.
# The graphs of the pool are built ONCE as networkx objects and handed to the matcher again and again, so anything the
# implementation remembers between calls (on the instance, the class, the module, or keyed by graph identity / content)
# is exercised.  Steps:
#   {"op": "find", "a": i, "b": j, "mcs": bool, "peek": [[direction, mutate] ...]}   gated query (pool objects i, j)
#       with the optional field "entry": "mcs_mol" | "rc_mol" | "rc_component" the query goes through that component-level
#       entry point (see ENTRIES_MAIN) and is judged by the specification alone
#   {"op": "set_graph", "g": i, "graph": J}     the pool object i is changed IN PLACE to content J (same identity)
#   {"op": "new_object", "g": i}                pool object i is replaced by an equal deep copy (new identity)
#   {"op": "set_prune", "value": bool}          main variant: the public attribute prune_automorphisms is changed
#   {"op": "new_matcher"}                       a new matcher object with the same options (graph objects stay)
#   {"op": "noise", "kind": ..., "a": i, "b": j}  another public entry point is used (mcs_mol / find_rc_mapping); its
#                                               result is not gated (out of scope), only that it leaves nothing behind
# Every "find" step is judged exactly like a stand-alone case: model and specification are computed from the CURRENT
# content of the two graphs, the options and the mode alone.
def _fill(G, j, dress=None, tag=None):
    G.clear()
    _fill_dressed(G, j, dress, tag)


def session_tags(sess):
    """Dress tags of the pool objects (kept by `compact_session`, so that a shrunk session presents the same values)."""
    return sess.get("dress_tags") or [f"p{i}" for i in range(len(sess["graphs"]))]


def _make_matcher(sess, prune):
    nk, nd, ek = sess.get("node_keys"), _defaults(sess), sess.get("edge_keys")
    call = sess.get("call") or {}
    kw = {}
    if call.get("allow_shift") is not None:
        kw["allow_shift"] = bool(call["allow_shift"])
    if sess.get("variant", "main") == "mtg":
        from synkit.Graph.MTG.mcs_matcher import MCSMatcher as M

        if call.get("positional"):
            return M(nk, nd, *([ek[0]] if ek is not None else ["order"]), *([kw["allow_shift"]] if kw else []))
        if ek is not None:
            kw["edge_attribute"] = ek[0]
        return M(node_label_names=nk, node_label_defaults=nd, **kw)
    from synkit.Graph.Matcher.mcs_matcher import MCSMatcher as M

    wc = sess.get("prune_wc")
    if wc is not None:
        kw.update(prune_wc=True, element_key=wc[0], wildcard_element=_wildcard(sess, wc))
    if call.get("positional"):
        shift = [kw.pop("allow_shift")] if "allow_shift" in kw else []
        return M(nk, nd, *shift, edge_attrs=ek, prune_automorphisms=prune, **kw)
    return M(node_attrs=nk, node_defaults=nd, edge_attrs=ek, prune_automorphisms=prune, **kw)


def session_cfg(sess):
    d = {k: sess.get(k) for k in ("node_keys", "node_defaults", "edge_keys")}
    d["variant"] = sess.get("variant", "main")
    if sess.get("prune_wc") is not None:
        d["prune_wc"] = sess["prune_wc"]
    return d


def session_run(sess):
    """Run a session on the real code -> [(step index, virtual case, mcs, prune, impl record, n earlier finds)]."""
    mtg = sess.get("variant", "main") == "mtg"
    prune = bool(sess.get("prune", False)) and not mtg
    cfg = session_cfg(sess)
    cur = [g for g in sess["graphs"]]
    out = []
    try:
        m = _make_matcher(sess, prune)
        dress, tags = sess.get("dress"), session_tags(sess)
        objs = [to_nx_dressed(g, dress, tags[i]) for i, g in enumerate(cur)]
    except Exception as e:
        return [(0, {"g1": cur[0], "g2": cur[0], **cfg}, True, prune, {"exception": "session setup: " + type(e).__name__ + ": " + str(e)[:200]}, 0)]
    held = None  # (python result object of the previous find, its recorded value)
    nfind = 0
    virgin = True  # nothing has been asked of the current matcher object yet
    for si, st in enumerate(sess["steps"]):
        op = st["op"]
        if op == "set_graph":
            _fill(objs[st["g"]], st["graph"], dress, tags[st["g"]])
            cur[st["g"]] = st["graph"]
        elif op == "new_object":
            objs[st["g"]] = copy.deepcopy(objs[st["g"]])
        elif op == "set_prune":
            if not mtg:
                m.prune_automorphisms = bool(st["value"])
                prune = bool(st["value"])
        elif op == "new_matcher":
            m = _make_matcher(sess, prune)
            held = None
            virgin = True
        elif op == "noise":
            virgin = False
            try:
                if st["kind"] == "mcs_mol":
                    m.find_common_subgraph(objs[st["a"]], objs[st["b"]], mcs_mol=True)
                elif st["kind"] == "rc_component" and not mtg:
                    m.find_rc_mapping(objs[st["a"]], objs[st["b"]], side="its", mcs=True, component=True)
                elif st["kind"] == "rc_plain" and not mtg:
                    m.find_rc_mapping(objs[st["a"]], objs[st["b"]], side="its", mcs=bool(st.get("mcs", True)), component=False)
                elif st["kind"] == "read":
                    m.get_mappings()
                    repr(m), str(m)  # the remaining public reads: text forms, help (the MTG one prints)
                    with contextlib.redirect_stdout(io.StringIO()):
                        m.help() if mtg else m.help
            except Exception:
                pass  # out of scope; only its after-effects on later gated queries matter
        elif op == "find":
            G1, G2 = objs[st["a"]], objs[st["b"]]
            case = {"g1": cur[st["a"]], "g2": cur[st["b"]], **cfg}
            mcs = bool(st["mcs"])
            entry = st.get("entry")  # a gated query through a component-level entry point (judged by the specification)
            if entry:
                case.update(entry=entry, entry_mcs=mcs, entry_prune=prune)
            before = (graphio.graph(G1), graphio.graph(G2))
            try:
                fresh = graphio_list(m.get_mappings() if mtg else m.get_mappings("host_to_pattern")) if virgin else []
                virgin = False
                route = st.get("route")  # an ordinary query put through another spelling of the public API
                if entry:
                    ret = call_entry(m, G1, G2, entry, mcs, mtg)
                elif route == "rc_its" and not mtg:
                    ret = m.find_rc_mapping(G1, G2, side=st.get("side", "its"), mcs=mcs, component=False)
                elif route == "find_default" and not mcs:
                    ret = m.find_common_subgraph(G1, G2)
                else:
                    ret = m.find_common_subgraph(G1, G2, mcs=mcs)
                # reads in between, in any order; the caller may do what it likes with the COPIES it was given
                for d, mutate in st.get("peek", []):
                    if mtg:
                        r = m.get_mappings()
                        if mutate:
                            r.clear()  # (the MTG class documents a copy of the LIST only)
                    else:
                        r = m.mappings if d == "mappings" else m.get_mappings(d)
                        if mutate:
                            for x in r:
                                x.clear()
                            r.clear()
                if mtg:
                    raw = m.get_mappings()
                    p2h = graphio_list(raw)
                    im = {"pattern_is_g1": True, "last_size": int(m.last_size), "pattern_to_host": p2h, "g1_to_g2": p2h,
                          "g2_to_g1": [sorted([h, p] for p, h in x) for x in p2h], "other_direction": None, "fresh": fresh}
                else:
                    if ret is not m:
                        raise RuntimeError("find_common_subgraph did not return self")
                    try:
                        other = graphio_list(m.get_mappings("host_to_pattern"))
                    except ValueError:
                        other = "ValueError"
                    raw = m.get_mappings("pattern_to_host")
                    im = {"pattern_is_g1": m._last_pattern_is_G1, "last_size": int(m.last_size),
                          "pattern_to_host": graphio_list(raw),
                          "g1_to_g2": graphio_list(m.get_mappings("G1_to_G2")),
                          "g2_to_g1": graphio_list(m.get_mappings("G2_to_G1")),
                          "other_direction": other, "fresh": fresh}
                    im = finish_record(m, im)
                if "exception" not in im and held is not None and graphio_list(held[0]) != held[1]:
                    im = {"exception": "the mappings handed out for the previous query changed when this query ran"}
                if "exception" not in im:
                    held = (raw, im["pattern_to_host"])
            except Exception as e:
                im = {"exception": type(e).__name__ + ": " + str(e)[:200]}
                held = None
            if "exception" not in im and (graphio.graph(G1), graphio.graph(G2)) != before:
                im = {"exception": "input graph mutated"}
            out.append((si, case, mcs, prune, im, nfind))
            nfind += 1
    return out


def session_jobs(sess, runs):
    key = json.dumps(sess, sort_keys=True)
    return [(case, mcs, prune, im, ["session", key, si], nf) for si, case, mcs, prune, im, nf in runs]


def evaluate_session(ctx, sess):
    """-> (diffs, viols), each entry tagged with the step it belongs to (used by shrink and replay)."""
    runs = session_run(sess)
    reqs, where = [], []
    for si, case, mcs, prune, im, _ in runs:
        where.append(len(reqs))
        reqs.append(None if case.get("entry") else find_req(case, mcs, False))
        reqs.append(spec_req(case, im["g1_to_g2"], im["last_size"]) if "exception" not in im else None)
    idx = [i for i, r in enumerate(reqs) if r is not None]
    full = [None] * len(reqs)
    for i, a in zip(idx, ctx.lean().ok([reqs[i] for i in idx]) if idx else []):
        full[i] = a
    diffs, viols = [], []
    for (si, case, mcs, prune, im, _), w in zip(runs, where):
        st = sess["steps"][si] if si < len(sess["steps"]) else {}
        tag = f"[step {si}: {case.get('entry') or 'find'}(graph {st.get('a')}, graph {st.get('b')}, mcs={mcs}) prune={prune}] "
        d, v = judge_one(case, mcs, prune, im, full[w], full[w + 1])
        diffs += [tag + x for x in d]
        viols += [tag + x for x in v]
    return diffs, viols


def shrink_session(ctx, sess, want_spec):
    def bad(s):
        if not any(st["op"] == "find" for st in s["steps"]):
            return False
        d, v = evaluate_session(ctx, s)
        return bool(v) if want_spec else bool(d)

    steps = shrink_seq(list(range(len(sess["steps"]))), lambda ix: bad({**sess, "steps": [sess["steps"][i] for i in ix]}), budget=80)
    sess = {**sess, "steps": [sess["steps"][i] for i in steps]}
    # drop the reads in between
    slim = {**sess, "steps": [({**st, "peek": []} if st["op"] == "find" else st) for st in sess["steps"]]}
    if bad(slim):
        sess = slim
    # nodes / edges of the pool graphs
    els = [(g, "n", i) for g in range(len(sess["graphs"])) for i in range(len(sess["graphs"][g]["nodes"]))]
    els += [(g, "e", i) for g in range(len(sess["graphs"])) for i in range(len(sess["graphs"][g]["edges"]))]

    def rebuild(keep):
        keep = set(keep)
        gs = []
        for g, G in enumerate(sess["graphs"]):
            nodes = [n for i, n in enumerate(G["nodes"]) if (g, "n", i) in keep]
            ids = {n[0] for n in nodes}
            gs.append({"nodes": nodes, "edges": [e for i, e in enumerate(G["edges"]) if (g, "e", i) in keep and e[0] in ids and e[1] in ids]})
        return {**sess, "graphs": gs}

    def bad_els(keep):
        s = rebuild(keep)
        used = {st[k] for st in s["steps"] if st["op"] == "find" for k in ("a", "b")}
        if any(not s["graphs"][g]["nodes"] for g in used):
            return False
        return bad(s)

    return compact_session(rebuild(shrink_seq(els, bad_els, budget=150)))


def compact_session(sess):
    """Drop pool graphs no step refers to and renumber the rest."""
    used = sorted({st[k] for st in sess["steps"] for k in ("a", "b", "g") if k in st})
    f = {g: i for i, g in enumerate(used)}
    steps = [{k: (f[v] if k in ("a", "b", "g") else v) for k, v in st.items()} for st in sess["steps"]]
    out = {**sess, "graphs": [sess["graphs"][g] for g in used], "steps": steps}
    if sess.get("dress"):
        tags = session_tags(sess)
        out["dress_tags"] = [tags[g] for g in used]
    return out


def report_session(ctx, sess, diffs, viols, tag):
    if viols:
        small = shrink_session(ctx, sess, want_spec=True)
        d2, v2 = evaluate_session(ctx, small)
        ctx.violation("common-subgraph matcher output violates C12 (validity / equal size / maximality / inverse directions) "
                      "for a query put to a matcher object that had answered other queries before",
                      small, {"spec_violations": v2 or viols, "differences_from_model": (d2 or diffs)[:8], "stream": tag,
                              "how_to_read": "case is a session: graphs = pool of graph objects built once; steps are applied in order to ONE matcher",
                              "impl": [{"step": si, "mcs": mcs, "prune": prune, "result": im} for si, _, mcs, prune, im, _ in session_run(small)]})
    else:
        small = shrink_session(ctx, sess, want_spec=False)
        d2, _ = evaluate_session(ctx, small)
        ctx.violation("correspondence broken: a reused MCSMatcher object differs from the Lean model SynKit.Mcs.find (a pure function of "
                      "pair, options and mode); the specification holds on the implementation's output",
                      small, {"differences_from_model": (d2 or diffs)[:8], "stream": tag}, no_input=True)


def run_sessions(ctx, sessions, tag):
    jobs, owner = [], []
    for k, sess in enumerate(sessions):
        js = session_jobs(sess, session_run(sess))
        jobs += js
        owner += [k] * len(js)
        ctx.count("session_steps:" + tag, len(sess["steps"]))
        for st in sess["steps"]:
            ctx.count("session_op:" + st["op"])
    bad = {}
    for k, job, (diffs, viols) in zip(owner, jobs, judge_jobs(ctx, jobs, tag)):
        if diffs or viols:
            si = job[4][2]
            bad.setdefault(k, ([], []))
            bad[k][0].extend(f"[step {si}] {x}" for x in diffs)
            bad[k][1].extend(f"[step {si}] {x}" for x in viols)
    for k in list(bad)[:2]:
        report_session(ctx, sessions[k], bad[k][0], bad[k][1], tag)
    return not bad


# -- session generators
def edit_graph_json(rnd, g):
    """A one-edit neighbour of graph JSON g (the same object will carry it afterwards)."""
    g = copy.deepcopy(g)
    r = rnd.random()
    if r < 0.3 and g["edges"]:
        e = rnd.choice(g["edges"])
        e[2]["order"] = V(rnd.choice([1.0, 2.0, 1.5, 3.0]))
    elif r < 0.5 and g["nodes"]:
        n = rnd.choice(g["nodes"])
        n[1]["element"] = V(rnd.choice(["C", "N", "O", "S"]))
    elif r < 0.65 and g["edges"]:
        g["edges"].remove(rnd.choice(g["edges"]))
    elif r < 0.85 and g["nodes"]:
        new = max(n[0] for n in g["nodes"]) + 1
        at = rnd.choice(g["nodes"])
        g["nodes"].append([new, graphio.attrs({"element": rnd.choice(["C", "O", "N"]), "charge": 0})])
        g["edges"].append([at[0], new, graphio.attrs({"order": 1.0, "standard_order": 1.0})])
    elif len(g["nodes"]) > 1:
        n = rnd.choice(g["nodes"])
        g["nodes"].remove(n)
        g["edges"] = [e for e in g["edges"] if n[0] not in (e[0], e[1])]
    return g


def derive_graph_json(rnd, g):
    """A derived object: equal copy / relabelled shuffled copy / induced part / one-edit neighbour."""
    r = rnd.random()
    if r < 0.3:
        return copy.deepcopy(g)
    if r < 0.55:
        ids = [n[0] for n in g["nodes"]]
        f = dict(zip(ids, rnd.sample(range(100, 100 + 3 * len(ids) + 2), len(ids))))
        ns = [[f[n[0]], copy.deepcopy(n[1])] for n in g["nodes"]]
        es = [[f[e[0]], f[e[1]], copy.deepcopy(e[2])] for e in g["edges"]]
        rnd.shuffle(ns); rnd.shuffle(es)
        return {"nodes": ns, "edges": es}
    if r < 0.8 and len(g["nodes"]) > 1:
        keep = set(rnd.sample([n[0] for n in g["nodes"]], rnd.randint(1, len(g["nodes"]) - 1)))
        return {"nodes": [copy.deepcopy(n) for n in g["nodes"] if n[0] in keep],
                "edges": [copy.deepcopy(e) for e in g["edges"] if e[0] in keep and e[1] in keep]}
    return edit_graph_json(rnd, g)


PEEK_MAIN = ["pattern_to_host", "G1_to_G2", "G2_to_G1", "mappings"]


def rand_peek(rnd):
    return [[rnd.choice(PEEK_MAIN), rnd.random() < 0.5] for _ in range(rnd.choice([0, 0, 1, 2, 3]))]


def rand_session(rnd, base_case, nsteps):
    """A session around the pair of `base_case` (its options are the matcher's options)."""
    variant = base_case.get("variant", "main")
    pool = [base_case["g1"], base_case["g2"]]
    for _ in range(rnd.choice([0, 1, 1, 2])):
        pool.append(derive_graph_json(rnd, rnd.choice(pool[:2])))
    sess = {"session": True, **cfg_fields(base_case), "prune": variant == "main" and rnd.random() < 0.3, "graphs": pool, "steps": []}
    steps = sess["steps"]
    pair = (0, 1)
    mcs = rnd.random() < 0.5
    cur = list(pool)
    n = 0
    while n < nsteps:
        r = rnd.random()
        if not steps:
            pass  # first query: the base pair
        elif r < 0.34:      # the same two objects again, the other / the same mode
            mcs = (not mcs) if rnd.random() < 0.7 else mcs
        elif r < 0.46:      # the same two objects, the other way round
            pair = (pair[1], pair[0])
            mcs = rnd.random() < 0.6
        elif r < 0.66:      # other objects of the pool (possibly the same object twice)
            pair = (rnd.randrange(len(pool)), rnd.randrange(len(pool)))
            mcs = rnd.random() < 0.6
        elif r < 0.76:      # the same object with new content, asked again
            g = rnd.choice(pair)
            cur[g] = edit_graph_json(rnd, cur[g])
            steps.append({"op": "set_graph", "g": g, "graph": cur[g]})
        elif r < 0.82:
            steps.append({"op": "new_object", "g": rnd.choice(pair)})
        elif r < 0.88:
            if variant == "main":
                steps.append({"op": "set_prune", "value": rnd.random() < 0.5})
        elif r < 0.92:
            steps.append({"op": "new_matcher"})
        else:
            kinds = ["mcs_mol", "read"] if variant == "mtg" else ["mcs_mol", "rc_component", "rc_plain", "read"]
            steps.append({"op": "noise", "kind": rnd.choice(kinds), "a": pair[0], "b": pair[1], "mcs": rnd.random() < 0.5})
        steps.append({"op": "find", "a": pair[0], "b": pair[1], "mcs": mcs, "peek": rand_peek(rnd)})
        n += 1
    return sess


def tiny_sessions(rnd, classes, pairs, group, variant_p_mtg=0.2):
    """Long-lived matchers over the tiny population: `group` pairs per matcher object; every pair is asked in all four
    (direction, mode) combinations in a seeded order, plus one repetition."""
    out = []
    for k in range(0, len(pairs), group):
        variant = "mtg" if rnd.random() < variant_p_mtg else "main"
        sess = {"session": True, "variant": variant, "node_keys": ["element"], "node_defaults": [V("*")], "edge_keys": ["order"],
                "prune": variant == "main" and rnd.random() < 0.25, "graphs": [], "steps": []}
        for a, b in pairs[k:k + group]:
            i = len(sess["graphs"])
            sess["graphs"] += [tiny_graph(classes[a], 0, rnd), tiny_graph(classes[b], 10, rnd)]
            combos = [(i, i + 1, False), (i, i + 1, True), (i + 1, i, False), (i + 1, i, True)]
            rnd.shuffle(combos)
            combos.append(rnd.choice(combos[:3]))
            for x, y, mcs in combos:
                sess["steps"].append({"op": "find", "a": x, "b": y, "mcs": mcs, "peek": []})
        out.append(sess)
    return out


# ---------------------------------------------------------------- generators of the route streams
RC_NODE_KEYS = ["element", "charge", "hcount", "aromatic"]
RC_STD_DEFAULT = {"element": "*", "charge": 0, "hcount": 0, "aromatic": "*", "atom_map": 0}
BAD_SIDES = ["x", "", "both", "its ", "rl", "left"]


def rc_pair(rnd, variant):
    """A pair of graphs of exactly the shape an ITS side has after decomposition (every atom: element, aromatic (bool), hcount,
    charge, atom_map = its node id; every bond: one numeric order), with an option set over those attributes.
    -> (node list, edge list) x 2, cfg"""
    kind = rnd.choice(["planted", "planted", "copy", "copy", "symmetric", "disconnected", "random"])
    a, b = base_pair(rnd, kind, rnd.randint(2, 5), rnd.randint(2, 6))
    tab = {}
    for g in (a, b):
        for i, at in g[0].items():
            if i not in tab:
                tab[i] = (rnd.choice([0, 0, 1, 2, 3]), rnd.random() < 0.3)
            h, ar = tab[i] if rnd.random() < 0.9 else (rnd.choice([0, 1, 2]), rnd.random() < 0.5)
            at.update(hcount=h, aromatic=ar)
            at.setdefault("charge", 0)
            if rnd.random() < 0.06:
                at["element"] = "*"
        for at in g[1].values():
            at.pop("standard_order", None)
    if rnd.random() < 0.35 and len(a[0]) < len(b[0]):
        a, b = b, a
    same = rnd.random() < 0.3
    if same:  # one atom numbering for both graphs (the atom maps of one reaction): ids shared by the raw pair stay shared
        ids = sorted(set(a[0]) | set(b[0]))
        f = dict(zip(ids, rnd.sample(range(1, 3 * len(ids) + 3), len(ids))))

        def rl(g):
            order = list(g[0])
            rnd.shuffle(order)
            ns = [(f[i], dict(g[0][i])) for i in order]
            es = [(f[u], f[v], dict(at)) for (u, v), at in g[1].items()]
            rnd.shuffle(es)
            return ns, [(v, u, at) if rnd.random() < 0.5 else (u, v, at) for u, v, at in es]
        (na, ea), (nb, eb) = rl(a), rl(b)
    else:
        na, ea, nb, eb = finish_pair(rnd, a, b, variant, None, swap_p=0.0)
    for ns in (na, nb):
        for i, at in ns:
            at["atom_map"] = i
    keys = RC_NODE_KEYS + (["atom_map"] if same or rnd.random() < 0.1 else [])
    if rnd.random() < 0.15:
        nk, nd = None, None
    else:
        nk = rnd.sample(keys, rnd.choice([1, 1, 2, 2, 3]))
        if same and "atom_map" not in nk and rnd.random() < 0.3:
            nk.append("atom_map")
        nd = None if rnd.random() < 0.4 else [V(RC_STD_DEFAULT[k]) for k in nk]
    if variant == "mtg":
        ek = rnd.choice([None, ["order"]])
    else:
        ek = rnd.choice([None, ["order"], ["order"], ["order", "standard_order"], []])
    cfg = dict(node_keys=nk, node_defaults=nd, edge_keys=ek)
    if variant == "main" and rnd.random() < 0.25:
        cfg["prune_wc"] = ["element", V("*")]
    return (na, ea), (nb, eb), cfg, same


def other_side(rnd, ns, es):
    """The opposite side of an ITS graph: the same atoms, 0..3 edits (bond order changed / bond broken / bond formed /
    charge or hydrogen count changed)."""
    ns = [(i, dict(a)) for i, a in ns]
    es = [(u, v, dict(a)) for u, v, a in es]
    for _ in range(rnd.choice([0, 1, 1, 2, 2, 3, 3])):
        r = rnd.random()
        if r < 0.3 and es:
            e = rnd.choice(es)
            e[2]["order"] = rnd.choice([o for o in [1.0, 2.0, 1.5, 3.0] if o != e[2].get("order")])
        elif r < 0.5 and es:
            es.remove(rnd.choice(es))
        elif r < 0.75 and len(ns) >= 2:
            u, v = rnd.sample([i for i, _ in ns], 2)
            if not any({u, v} == {x, y} for x, y, _ in es):
                es.append((u, v, {"order": rnd.choice([1.0, 1.0, 2.0])}))
        else:
            at = rnd.choice(ns)[1]
            k = rnd.choice(["charge", "hcount", "element", "element"])
            at[k] = {"charge": rnd.choice([-1, 0, 1]), "hcount": rnd.choice([0, 1, 2]), "element": rnd.choice(["C", "N", "O"])}[k]
    return mk_graph(ns, es)


def halo_of(rnd, case):
    """Extra atoms for the `view` delivery: copies of atoms of the graph hung on one of its atoms with a copy of one of its
    bonds - if the matcher looked past the view they would extend the common part."""
    out = []
    new = 900
    for which, key in ((1, "g1"), (2, "g2")):
        g = case[key]
        if not g["nodes"] or rnd.random() < 0.3:
            continue
        for _ in range(rnd.randint(1, 2)):
            anchor = rnd.choice(g["nodes"])[0]
            at = copy.deepcopy(rnd.choice(g["nodes"])[1])
            eat = copy.deepcopy(rnd.choice(g["edges"])[2]) if g["edges"] else graphio.attrs({"order": 1.0})
            out.append([which, new, at, anchor, eat])
            new += 1
    return out


def route_case(rnd, variant, plain=None, entry=False, bad_side=False):
    """One case of the route streams.  `plain` = a ready pair from the other generators (then only the routes that take the
    graphs as they are); otherwise a pair of ITS-side shaped graphs, which can also travel inside ITS graphs."""
    mtg = variant == "mtg"
    if plain is not None:
        case = dict(plain)
        sides = ["its"]
    else:
        (na, ea), (nb, eb), cfg, _same = rc_pair(rnd, variant)
        case = {"g1": mk_graph(na, ea), "g2": mk_graph(nb, eb), "variant": variant, **cfg}
        sides = ["its", "r", "r", "l", "l", "op", "op"]
    call = {}
    if bad_side:
        call.update(route="rc", side=rnd.choice(BAD_SIDES))
    elif mtg:
        call["route"] = "find" if plain is not None or rnd.random() < 0.35 else "rc"
        if call["route"] == "rc":
            call["side"] = "op"  # the MTG class has no side argument: always right of the first against left of the second
    else:
        call["route"] = "find" if rnd.random() < 0.25 else "rc"
        if call["route"] == "rc":
            side = rnd.choice(sides)
            if rnd.random() < 0.25:
                side = rnd.choice([side.upper(), side.capitalize()])
            call["side"] = side
    if call["route"] == "rc" and call["side"].lower() != "its":
        call["other1"] = other_side(rnd, na, ea)
        call["other2"] = other_side(rnd, nb, eb)
    elif rnd.random() < 0.4:
        call["view"] = halo_of(rnd, case)
    call["omit_defaults"] = rnd.random() < 0.45
    if rnd.random() < 0.3:
        call["allow_shift"] = rnd.random() < 0.35
    if rnd.random() < 0.2:
        call["positional"] = True
    case["call"] = call
    if bad_side:
        case.update(entry="rc_bad_side", entry_mcs=rnd.random() < 0.5, entry_prune=False)
    elif entry:
        if call["route"] == "find" or mtg:
            e = "mcs_mol"
        else:
            e = rnd.choice(["rc_component", "rc_component", "rc_mol"])
        case.update(entry=e, entry_mcs=rnd.random() < 0.6, entry_prune=(not mtg) and rnd.random() < 0.3)
        if not mtg and plain is None and rnd.random() < 0.15:  # the call with every argument left at its default
            call.update(route="rc", side="op", omit_defaults=True, other1=other_side(rnd, na, ea), other2=other_side(rnd, nb, eb))
            call.pop("view", None)
            case.update(entry="rc_component", entry_mcs=True)
    return case


def route_counts(ctx, case):
    call = case["call"]
    side = str(call.get("side", "-"))
    ctx.count(f"route_case:{case.get('variant', 'main')}/{call['route']}/{side.lower()}" + ("/" + case["entry"] if case.get("entry") else ""))
    if side not in ("-", side.lower()):
        ctx.count("route_side_spelling:not-lower-case")
    for k in ("omit_defaults", "positional", "view"):
        if call.get(k):
            ctx.count("route_" + k)
    if call.get("allow_shift") is not None:
        ctx.count(f"route_allow_shift:{call['allow_shift']}")
    if (call["route"] == "rc" and call.get("omit_defaults") and case.get("entry") == "rc_component" and side == "op"
            and case.get("entry_mcs")):
        ctx.count("route_all_defaults:find_rc_mapping(rc1, rc2)")


def route_sessions(rnd, base, nsteps):
    """A random session in which half of the ordinary queries take another spelling of the public API (main:
    find_rc_mapping(side='its', component=False); both: find_common_subgraph without the mcs keyword)."""
    sess = rand_session(rnd, base, nsteps)
    mtg = sess.get("variant", "main") == "mtg"
    for st in sess["steps"]:
        if st["op"] == "find" and not st.get("entry") and rnd.random() < 0.6:
            if mtg or rnd.random() < 0.3:
                st["route"] = "find_default"
                st["mcs"] = st["mcs"] and rnd.random() < 0.3  # the spelling exists for mcs=False only
            else:
                st["route"] = "rc_its"
                st["side"] = rnd.choice(["its", "its", "ITS", "Its"])
    return sess


# ---------------------------------------------------------------- representation and scale
# Values that are legal but outside what the other generators write: bond orders given as NON-NUMERIC labels (the main matcher
# documents a generic `==` fall-back for values float() rejects: GML-style '-', '=', '#', ':', RDKit-style 'SINGLE' ...; ITS
# pairs with such a member or with None), numbers of another Python type / print (see "dress"), attributes nobody selected but
# a library default could pick up (weight, label, id, name, capacity), falsy labels (0, 0.0, '', ()), multi-digit numbers and
# huge node ids, and sizes just beyond the other streams.  The expected answer is always the pure Lean model / specification on
# the graph JSON of the case.  Every label used here is rejected by Python's float() (no 'nan', 'inf', '1e3', ...), so the
# model's "strings do not parse as numbers" holds.
SYMBOL_VOCABS = [
    {1.0: "-", 2.0: "=", 3.0: "#", 1.5: ":"},
    {1.0: "SINGLE", 2.0: "DOUBLE", 3.0: "TRIPLE", 1.5: "AROMATIC"},
    {1.0: "single", 2.0: "double", 3.0: "triple", 1.5: "aromatic"},
    {1.0: "s", 2.0: "d", 3.0: "t", 1.5: "a"},
    {1.0: "1-", 2.0: "2=", 3.0: "3#", 1.5: "1.5:"},   # labels that START like a number
]
EDGE_ORDER_KEYS = ["order", "standard_order"]


def _sym(vocab, o):
    return vocab.get(o, o) if not isinstance(o, tuple) else tuple(vocab.get(x, x) for x in o)


def symbolise(rnd, a, b, how):
    """Rewrite the bond orders of a raw pair as labels.  Edges with the same end points in both graphs (planted common part, a
    copy) are treated alike, so the common part survives exactly when the labels agree."""
    va = rnd.choice(SYMBOL_VOCABS)
    vb = va
    if how == "cross":      # the second graph speaks another vocabulary: no labelled bond matches
        vb = rnd.choice([v for v in SYMBOL_VOCABS if v is not va])
    p = 0.55 if how == "mixed" else 1.0   # mixed: some bonds of ONE graph numeric, others symbolic
    keys = rnd.choice([["order"], ["order", "standard_order"], ["order", "standard_order"]])
    tab = {}
    for g, vocab, side in ((a, va, "a"), (b, vb, "b")):
        if how == "one_side" and side == "b":
            continue
        for e, at in g[1].items():
            for k in keys:
                if k not in at:
                    continue
                if (e, k) not in tab:
                    tab[(e, k)] = rnd.random() < p
                if tab[(e, k)]:
                    at[k] = _sym(vocab, at[k])
    return va, vb


def symbolic_pairs(rnd, a, b):
    """ITS-style pairs with a non-numeric member: (x, y) against (x, y) / (y, x) / (x, None) / (None, y) / (x,) / x on the same
    bond of the other graph; members are labels, None, or a label next to a number."""
    vocab = rnd.choice(SYMBOL_VOCABS)
    pool = list(vocab.values()) + [None, 1.0, 2.0]
    for e in list(a[1]):
        if rnd.random() < 0.7:
            x = rnd.choice(pool[:4])
            y = rnd.choice([q for q in pool if q != x])
            if rnd.random() < 0.5:
                x, y = y, x
            a[1][e]["order"] = (x, y)
            if e in b[1]:
                b[1][e]["order"] = rnd.choice([(x, y), (x, y), (x, y), (y, x), (y, x), (x, None), (None, y), (x,), x, (x, x)])
    for e in b[1]:
        if e not in a[1] and rnd.random() < 0.5:
            b[1][e]["order"] = tuple(rnd.sample(pool, 2))


def relabel_one_bond(rnd, a, b):
    """One-edit neighbour: one bond both graphs share gets ANOTHER value of the kind it has (another label / a label instead of
    the number / the pair reversed)."""
    shared = [e for e in a[1] if e in b[1] and "order" in a[1][e]]
    if not shared:
        return
    e = rnd.choice(shared)
    o = a[1][e]["order"]
    labels = [x for v in SYMBOL_VOCABS for x in v.values()]
    if isinstance(o, tuple):
        new = tuple(reversed(o)) if len(set(o)) > 1 else o + (None,)
    elif isinstance(o, str):
        same_vocab = [x for v in SYMBOL_VOCABS if o in v.values() for x in v.values() if x != o]
        new = rnd.choice(same_vocab or labels)
    else:
        new = rnd.choice(labels)
    b[1][e]["order"] = new


SYMBOLIC_HOW = ["same", "same", "same", "same", "mixed", "mixed", "cross", "one_side", "pairs", "pairs"]


def symbolic_case(rnd, variant, how=None, default_opts=None):
    how = how or rnd.choice(SYMBOLIC_HOW)
    kind = rnd.choice(["planted", "planted", "copy", "copy", "copy", "symmetric", "disconnected", "random"])
    a, b = base_pair(rnd, kind, rnd.randint(2, 5), rnd.randint(2, 6))
    if how == "pairs":
        symbolic_pairs(rnd, a, b)
    else:
        symbolise(rnd, a, b, how)
    if rnd.random() < 0.5:
        relabel_one_bond(rnd, a, b)
    if default_opts if default_opts is not None else rnd.random() < 0.5:
        cfg = dict(node_keys=None, node_defaults=None, edge_keys=None)   # every option at its default
    else:
        cfg = dict(rnd.choice(CFGS))
    if variant == "mtg" and cfg["edge_keys"] is not None:
        cfg["edge_keys"] = [cfg["edge_keys"][0]] if cfg["edge_keys"] else ["order"]
    na, ea, nb, eb = finish_pair(rnd, a, b, variant, cfg)
    if rnd.random() < 0.15:
        degrade(rnd, na, ea, p_edge=0.2, none_p=0.1)
        degrade(rnd, nb, eb, p_edge=0.2, none_p=0.1)
    return {"g1": mk_graph(na, ea), "g2": mk_graph(nb, eb), "variant": variant, **cfg}


def tiny_symbolic(case, vocab):
    """A tiny-exhaustive pair with its two bond orders written as labels."""
    c = copy.deepcopy(case)
    for g in ("g1", "g2"):
        for e in c[g]["edges"]:
            e[2]["order"] = V(vocab[graphio.unval(e[2]["order"]) * 1.0])
    return c


def rand_dress(rnd, ids=True):
    k = rnd.choice([2, 3, 3, 4, 5])
    styles = rnd.sample(NUM_STYLES, k)
    d = {"seed": rnd.randrange(1 << 30), "num": styles}
    if ids and rnd.random() < 0.4:
        d["ids"] = ["int", "npint"]
    return d


def types_case(rnd, variant):
    """A pair of the other generators whose numbers reach the implementation as a seeded mix of int / float / numpy.int64 /
    numpy.float64 / numeric strings (edge scalars only)."""
    r = rnd.random()
    if r < 0.4:
        c = options_case(rnd, variant)
    elif r < 0.6:
        c = rare_case(rnd, variant, rnd.choice(["tuple_swap", "sym_break", "missing_opt"]))
    elif r < 0.7:
        c = comp_case(rnd, variant, 5, 6)
    else:
        c = rand_case(rnd, rnd.choice(["planted", "copy", "copy", "degraded", "symmetric"]), variant)
    c["dress"] = settle_dress(rand_dress(rnd), [c["g1"], c["g2"]])
    return c


EXTRA_EDGE_ATTRS = ["weight", "label", "id", "name", "capacity", "key", "color"]
EXTRA_NODE_ATTRS = ["label", "id", "name", "weight", "color", "atom_map"]


def add_extras(rnd, case):
    """Attributes no option selects (networkx / library conventions: weight, label, id, name, capacity ...), with values that
    differ between the two graphs and inside one graph."""
    for g in ("g1", "g2"):
        ekeys = rnd.sample(EXTRA_EDGE_ATTRS, rnd.randint(1, 3))
        nkeys = rnd.sample(EXTRA_NODE_ATTRS, rnd.randint(0, 2))
        for e in case[g]["edges"]:
            for k in ekeys:
                if rnd.random() < 0.8:
                    e[2][k] = V(rnd.choice([0, 1, 2, 0.5, 3.5, 10, "a", "b", "", None, (1, 2)]))
        for n in case[g]["nodes"]:
            for k in nkeys:
                if rnd.random() < 0.8:
                    n[1][k] = V(rnd.choice([0, 1, 2, 7, "x", "y", "", None]))
    return case


def extras_case(rnd, variant):
    r = rnd.random()
    c = (rand_case(rnd, rnd.choice(["planted", "copy", "symmetric", "disconnected"]), variant) if r < 0.6
         else symbolic_case(rnd, variant) if r < 0.8 else comp_case(rnd, variant, 5, 6))
    sel = set(c.get("node_keys") or ["element"]) | set(c.get("edge_keys") or ["order"])
    add_extras(rnd, c)
    for g in ("g1", "g2"):   # (never a key the option set selects)
        for it in c[g]["nodes"]:
            assert not (set(it[1]) & set(EXTRA_NODE_ATTRS) & sel)
    if rnd.random() < 0.3:
        c["dress"] = settle_dress(rand_dress(rnd), [c["g1"], c["g2"]])
    return c


def falsy_case(rnd, variant):
    """Labels that are falsy in Python: element '' / 0, order 0 / 0.0 / '' / (), charge 0 next to a missing charge, node id 0,
    falsy defaults, a falsy wildcard."""
    kind = rnd.choice(["planted", "planted", "copy", "copy", "symmetric", "random"])
    a, b = base_pair(rnd, kind, rnd.randint(2, 5), rnd.randint(2, 6))
    elems = ["C", "N", "O", "S"]
    emap = dict(zip(rnd.sample(elems, 2), rnd.sample(["", 0, "0", 0.0][:3], 2)))   # two element types become falsy labels
    omap = dict(zip(rnd.sample([1.0, 2.0, 1.5, 3.0], 2), rnd.sample([0, "", (), (0, 0), "0-"], 2)))
    for g in (a, b):
        for at in g[0].values():
            at["element"] = emap.get(at["element"], at["element"])
        for at in g[1].values():
            for k in EDGE_ORDER_KEYS:
                if k in at and not isinstance(at[k], tuple):
                    at[k] = omap.get(at[k], at[k])
    nk = rnd.choice([["element"], ["element", "charge"], ["charge", "element"], None])
    nd = None
    if nk is not None and rnd.random() < 0.7:
        nd = [V(rnd.choice(["", 0, "*"]) if k == "element" else 0) for k in nk]
    ek = rnd.choice([None, ["order"], ["order", "standard_order"]])
    if variant == "mtg" and ek is not None:
        ek = ek[:1]
    cfg = dict(node_keys=nk, node_defaults=nd, edge_keys=ek)
    if variant == "main" and rnd.random() < 0.3:
        cfg["prune_wc"] = ["element", V(rnd.choice(list(emap.values())))]
    na, ea, nb, eb = finish_pair(rnd, a, b, variant, cfg)
    for ns in (na, nb):     # the id 0 is in use; some atoms leave the attribute to the (falsy) default
        for _, at in ns:
            if rnd.random() < 0.2:
                at.pop("element", None)
            if rnd.random() < 0.25:
                at.pop("charge", None)
    for es in (ea, eb):
        for _, _, at in es:
            r = rnd.random()
            if r < 0.08:
                at.pop("order", None)
            elif r < 0.14:
                at["order"] = None
    f1 = {i: k for k, (i, _) in enumerate(na)}
    na = [(f1[i], at) for i, at in na]
    ea = [(f1[u], f1[v], at) for u, v, at in ea]
    c = {"g1": mk_graph(na, ea), "g2": mk_graph(nb, eb), "variant": variant, **cfg}
    if rnd.random() < 0.3:
        c["dress"] = settle_dress({"seed": rnd.randrange(1 << 30), "num": rnd.sample(["int", "float", "npint", "npfloat"], 2)}, [c["g1"], c["g2"]])
    return c


BIG_NUMBERS = [10, 11, 12, 21, 100, 101, 110, 50, 2500, 12.5, 10.5, 105, 1000000, 99, 15, 150]
BIG_ID_BASE = [1000, 10 ** 6, 2 ** 31, 2 ** 40 + 1, 10 ** 12]


def _map_vals(j, f):
    if j is None:
        return None
    if "n" in j:
        return f(j)
    if "t" in j:
        return {"t": [_map_vals(y, f) for y in j["t"]]}
    return j


def bignum_case(rnd, variant):
    """A pair of the options generator in which every distinct number (orders, charges, hydrogen counts, weights, defaults, the
    wildcard value) is replaced one-to-one by a multi-digit one (10 / 100 / 101 / 110, 12 / 21, 2500, 12.5 ...; zero stays in
    half of the cases) and the node ids are moved far up (10^3 .. 10^12, stride 1 / 7 / 1000).  Equalities between values are
    exactly those of the original pair."""
    c = options_case(rnd, variant) if rnd.random() < 0.6 else rand_case(rnd, rnd.choice(["planted", "copy", "symmetric"]), variant)
    c = copy.deepcopy(c)
    table = {}
    pool = BIG_NUMBERS[:]
    rnd.shuffle(pool)
    keep_zero = rnd.random() < 0.5
    neg = rnd.random() < 0.5

    def f(j):
        h = j["n"]
        if h == 0 and keep_zero:
            return j
        if h not in table:
            x = pool.pop() if pool else 3000 + len(table)
            if h < 0 and neg:
                x = -x
            table[h] = int(x * 2)
        return {"n": table[h]}
    ids = {}
    for g in ("g1", "g2"):
        base, stride = rnd.choice(BIG_ID_BASE), rnd.choice([1, 1, 7, 1000])
        for n in c[g]["nodes"]:
            ids[(g, n[0])] = base + stride * n[0]
            n[0] = ids[(g, n[0])]
            n[1] = {k: _map_vals(v, f) for k, v in n[1].items()}
        for e in c[g]["edges"]:
            e[0], e[1] = ids[(g, e[0])], ids[(g, e[1])]
            e[2] = {k: _map_vals(v, f) for k, v in e[2].items()}
    if c.get("node_defaults") is not None:
        c["node_defaults"] = [_map_vals(v, f) for v in c["node_defaults"]]
    if c.get("prune_wc") is not None:
        c["prune_wc"] = [c["prune_wc"][0], _map_vals(c["prune_wc"][1], f)]
    if rnd.random() < 0.3:
        c["dress"] = settle_dress(rand_dress(rnd), [c["g1"], c["g2"]])
    return c


def scale_case(rnd, variant):
    """One or two atoms beyond the random stream (7..8 x 7..9 atoms), maximum mode only."""
    n1, n2 = rnd.randint(7, 8), rnd.randint(7, 9)
    kind = rnd.choice(["planted", "copy", "disconnected", "symmetric"])
    if kind == "planted":
        core_n, core_e = carve(rnd, *rand_mol(rnd, 7), size=rnd.randint(4, 6))
        a, b = grow(rnd, core_n, core_e, n1 - len(core_n)), grow(rnd, core_n, core_e, n2 - len(core_n))
    else:
        a, b = base_pair(rnd, kind, n1, n2)
    cfg = dict(rnd.choice(CFGS[:5]))
    if variant == "mtg":
        cfg["edge_keys"] = [cfg["edge_keys"][0]]
    na, ea, nb, eb = finish_pair(rnd, a, b, variant, cfg)
    return {"g1": mk_graph(na, ea), "g2": mk_graph(nb, eb), "variant": variant, **cfg,
            "modes": [[True, False]] if variant == "mtg" else [[True, False], [True, True]]}


def dense_tiny(rnd, n, offset, labels=ELEMS2, orders=(1.0, 2.0)):
    """A uniformly random labelled graph on n nodes over the tiny alphabet (dense: every pair is no bond / order 1 / order 2)."""
    ns = [(offset + i, {"element": rnd.choice(labels)}) for i in range(n)]
    es = []
    for i in range(n):
        for j in range(i + 1, n):
            o = rnd.choice([None, None, orders[0], orders[1]])
            if o is not None:
                es.append((offset + i, offset + j, {"order": o}) if rnd.random() < 0.5 else (offset + j, offset + i, {"order": o}))
    rnd.shuffle(ns)
    rnd.shuffle(es)
    return mk_graph(ns, es)


def repr_session(rnd, variant):
    """One matcher object over a pool built from a pair of the representation generators (the dress travels with the pool)."""
    r = rnd.random()
    base = (symbolic_case(rnd, variant) if r < 0.45 else types_case(rnd, variant) if r < 0.7
            else falsy_case(rnd, variant) if r < 0.85 else bignum_case(rnd, variant))
    if len(base["g1"]["nodes"]) > 5 or len(base["g2"]["nodes"]) > 6:
        base = symbolic_case(rnd, variant)
    sess = rand_session(rnd, base, rnd.randint(2, 5))
    if base.get("dress"):
        sess["dress"] = settle_dress(dict(base["dress"]), sess["graphs"] + [st["graph"] for st in sess["steps"] if st["op"] == "set_graph"])
    return sess


def load_regress():
    d = ROOT / "regress" / "C12"
    out = []
    if d.exists():
        for f in sorted(d.glob("*.json")):
            c = json.loads(f.read_text())
            out.append(c.get("case", c))
    return [c for c in out if not c.get("session")], [c for c in out if c.get("session")]


def run(ctx):
    ctx.trusted = [
        "Lean 4.33 kernel; axioms of the property theorems as listed in obligation_list",
        "hand-written model SynKitModel/Mcs.lean (search loop, seen/host-set pruning, early exit, size filter, sort, orientation, "
        "direction conversion, both closures) tied to /repo by this correspondence run (not by translation)",
        "NetworkX VF2 `GraphMatcher.subgraph_isomorphisms_iter` enumerates exactly the induced embeddings satisfying the closures "
        "(modelled by the proven enumerator Match.allInduced; checked here only through the comparison of result sets)",
        "Driver/Mcs.lean JSON codec, harness/props/c12.py adapter and canonicalisation (each mapping sorted by key, mapping sets sorted)",
        "not modelled in Lean (no search model, hence no maximality / completeness claim): mcs_mol=True (_find_mcs_mol), "
        "find_rc_mapping(side='its'), _componentwise_mcs; their outputs are judged by the Lean specification spec.mcs "
        "(IsCommonInduced of every returned mapping) and by the inverse-directions gate only",
        "find_rc_mapping with sides r / l / op: the ITS graphs are assembled by the harness (its_nx) from two known side graphs; the "
        "expectation is the model / specification on the known sides, so synkit.Graph.ITS.its_decompose is on the implementation side "
        "of the comparison (only the shapes it documents: typesGH = (left, right) 5-tuples, order = (left, right) numbers, 0 = no bond)",
    ]
    ctx.assumptions = [
        "selected edge attribute values are numbers (multiples of 1/2, |x| <= 10^6), None, strings that Python's float() rejects "
        "('-', '=', 'SINGLE', '' ...; never 'nan' / 'inf' / '1e3'), or tuples of such; a numeric string ('1', '1.0', '+1', '1.50') as a "
        "scalar edge value is the number it prints (both matchers compare edge values through float()); selected node attribute values "
        "are strings, numbers or None (no bool values, for which Python's == identifies values the model keeps apart; a node label '0' "
        "is a string); int / float / numpy.int64 / numpy.float64 spellings of one number are one value (Python == and the JSON codec agree)",
        "node ids are non-negative integers; graphs are simple undirected nx.Graph without self-loops",
        "node_attrs / node_label_names is a list (not a bare string)",
        "route streams: the attribute `aromatic` of a decomposed ITS side is a bool on every atom of both graphs (bool against bool "
        "only); an unknown side string is expected to raise ValueError as documented (reported as a broken correspondence, not as a "
        "violation of C12); find_rc_mapping defaults component=True / mcs_mol are component-level modes and promise no maximum",
    ]
    ctx.gen_rule = (
        "regression corpus; malformed stream (empty graphs, single nodes, constructor length mismatch); tiny-exhaustive: ALL ordered pairs "
        "of isomorphism-class representatives of graphs with <=3 nodes over {C,O} x bond orders {1,2} (second graph with shifted ids, "
        "shuffled insertion order), main variant in all four modes and MTG in both; thorough adds pairs with a 4-node graph: all "
        "(4-node class, <=2-node class) pairs both ways and a seeded SAMPLE of (4,3),(3,4),(4,4) pairs (the full set is too large); "
        "random molecule-like pairs up to 6x7 nodes: planted common parts (a carved connected induced part grown two ways), relabelled "
        "copies and one-edit neighbours, disconnected unions, rings (many automorphisms), graphs lacking selected node/edge attributes "
        "(defaults, explicit '*', None, tuple orders), prune_wc, non-contiguous shuffled ids, overlapping and disjoint id ranges, "
        "first graph larger in about a third of the pairs, node_attrs [element] / [element,charge], edge_attrs [order] / "
        "[order,standard_order] / omitted / empty; every pair is run with mcs on/off x automorphism pruning on/off (main) and mcs on/off (mtg). "
        "OPTIONS stream: pairs as above enriched with hcount / w (nodes) and w (edges; the key w lives on both), node key list = seeded "
        "permutation of a 1..4-subset of {element,charge,hcount,w} with standard / in-domain / None defaults or defaults omitted, edge key "
        "list = permutation of a 1..3-subset of {order,standard_order,w} or omitted / empty, prune_wc on element / charge / w / hcount values. "
        "RARE stream: symmetric skeletons (ring, path, star, clique; uniform labels) with ONE symmetry-breaking attribute in one or both graphs "
        "and an option set that does / does not select it; tuple orders (x,y) against (x,y) / (y,x) / x / (x,x) / None on the same planted edge; "
        "spectator components (isolated atoms, diatomics) in one or both graphs; an optional attribute absent from a whole graph; a graph "
        "against an identical graph with the same ids or against its own induced part. "
        "SESSION streams (one matcher object, graph objects built once, every find step judged like a stand-alone case): tiny sessions = 6 pairs "
        "of <=3-node classes per matcher, each pair asked in all four (direction, mode) combinations in seeded order plus one repetition "
        "(quick: a seeded quarter of all ordered pairs, thorough: all); random sessions = 2..6 queries around a pair from the random / options / "
        "rare generators with derived pool objects (equal copy, relabelled copy, induced part, one-edit neighbour), steps drawn from: same "
        "objects again (other/same mode), swapped, other pool objects (also the same object twice), in-place content change of an object, "
        "equal copy as new object, prune_automorphisms switched, new matcher, other entry points (mcs_mol, find_rc_mapping) as ungated noise, "
        "reads in between in any order with the returned copies cleared by the caller. "
        "COMPONENTS stream: pairs of molecule sets - 1..3 fragment types (library of 1..4-atom fragments or random molecules, optionally "
        "enriched with hcount / w and a random option set), G1 = 2..4 components with a repeated type, G2 = same multiset / fewer / more "
        "(extra repeats) / near miss (one attribute of one atom or bond changed, tuple order reversed, order dropped) / independent, sides "
        "swapped half the time, a partnerless component in 15%; ids: same universe / disjoint (either graph lower) / shifted by 1..3 / "
        "even-odd / sparse, spread over the components as blocks / round robin / scattered, own numbering per component instance, shuffled "
        "insertion; up to 6x7 atoms in all ordinary modes. COMPONENT-ENTRY stream: 4/6 molecule sets up to 9x9 atoms, 1/6 options or rare "
        "pairs, 1/6 random pairs, each as ONE query through mcs_mol (main, MTG) / find_rc_mapping(side='its', mcs_mol=True) / "
        "find_rc_mapping(side='its', component=True) with seeded mcs and prune_automorphisms flags. SESSION-COMPONENTS: 3..6 queries on one "
        "matcher over {pair of molecule sets, a relabelled copy on other ids, a derived object}, 70% component-level entry points, "
        "30% ordinary finds, same objects again / swapped / other objects, prune switched. "
        "ROUTES stream: 2/3 pairs of ITS-side shaped graphs (planted / copy / ring / disconnected / random molecules up to 5x6 atoms, every "
        "atom with element, aromatic, hcount, charge, atom_map = id, bonds with one numeric order, 6% '*' atoms, 30% one shared atom numbering; "
        "node keys = 1..3 of {element, charge, hcount, aromatic} (+ atom_map), defaults standard or omitted, edge keys omitted / [order] / "
        "[order, standard_order] / [], prune_wc in 25%) and 1/3 pairs of the options / rare / random generators; main: 25% "
        "find_common_subgraph, 75% find_rc_mapping with side its / r / l / op (op twice as likely; a quarter spelled in upper case or "
        "capitalised), MTG: find_common_subgraph or find_rc_mapping (op); for r / l / op each graph travels inside an ITS graph whose other "
        "side is the selected side after 0..3 edits (bond order changed, bond broken, bond formed, charge / hcount / element changed); 45% with "
        "every default-valued keyword left out, 30% with allow_shift given, 20% positional constructor arguments, 40% of the plain deliveries "
        "as sub-graph views with 1..2 look-alike atoms outside the view; all four modes (main) / both (MTG) against the model. "
        "ROUTES-ENTRY: the same pairs (1/4 molecule sets up to 8x8) as ONE component-level query: find_rc_mapping(side, component=True) / "
        "(side, mcs_mol=True, component=False) / find_common_subgraph(mcs_mol=True) (MTG: find_rc_mapping(mcs_mol=True)), 15% as the call with "
        "every argument defaulted, 1/16 with a side string outside the documented four. SESSION-ROUTES: random sessions in which 60% of the "
        "ordinary queries are spelled find_rc_mapping(side='its'|'ITS'|'Its', component=False) or find_common_subgraph without mcs. "
        "REPRESENTATION streams (after all others): TINY-SYMBOLIC = ordered pairs of <=3-node classes (quick: seeded 12%, thorough: all) with "
        "the two bond orders written as labels of one of 5 vocabularies ('-' '=' / SINGLE DOUBLE / single double / s d / '1-' '2='), all "
        "options defaulted, maximum mode and enumeration; SYMBOLIC-ORDERS = molecule-like pairs (planted / copy / ring / disconnected / random, "
        "<=5x6) whose orders (order, standard_order) are labels in both graphs (40%), labels on a seeded 55% of the bonds next to numbers (20%), "
        "two different vocabularies (10%), one graph only (10%), or ITS pairs with a label / None member against the same, reversed, "
        "half-None, 1-tuple, scalar (20%); 50% get one shared bond relabelled; 50% all-default options; VALUE-TYPES = options / rare / "
        "molecule-set / random pairs whose numbers reach the matcher as a per-value seeded mix of 2..5 of {int, float, numpy.int64, "
        "numpy.float64, numeric string (edge scalars only)}, also inside tuples, defaults and the wildcard value, 40% with numpy.int64 node ids "
        "mixed with int; UNSELECTED-ATTRIBUTES = pairs carrying 1..3 of weight / label / id / name / capacity / key / color on edges and "
        "0..2 of label / id / name / weight / color / atom_map on nodes with values differing between and inside the graphs; FALSY-LABELS = "
        "two element types renamed to '' / 0 / '0', two order values to 0 / '' / () / (0,0) / '0-', defaults '' / 0, wildcard falsy, node "
        "ids 0.., attributes missing / None; BIG-NUMBERS = options / random pairs with every distinct number replaced one-to-one by a "
        "multi-digit one (10, 11, 12, 21, 100, 101, 110, 2500, 12.5, 10^6 ...) and ids moved to 10^3..10^12 with stride 1 / 7 / 1000; "
        "DENSE-BEYOND-EXHAUSTIVE = uniformly random dense graphs on 3..4 x 4 (thorough ..5) nodes over the tiny alphabet, 30% symbolic, "
        "maximum mode; SCALE = planted / copy / disconnected / ring pairs of 7..8 x 7..9 atoms, maximum mode; the same populations as "
        "component-level queries / other routes, and SESSION-REPRESENTATION = 2..5 queries on one matcher around such a pair."
    )
    ctx.nontrivial_rule = ("(pair, mode) distinct as JSON, run in maximum mode, with mcs size >= 2 and smaller than both graphs, "
                           "or with >= 2 maximum mappings; a session step counts when the matcher object has answered at least one "
                           "earlier query and the answer has size >= 2 (distinct by session and step); a component-level query "
                           "counts when the returned mapping has >= 2 atoms")
    build_and_audit(ctx, ["SynKitProofs.Props.C12"], "SynKitProofs/Audit/C12.lean", THEOREMS)

    ok = True
    reg, reg_sessions = load_regress()
    ctx.count("regress_cases", len(reg) + len(reg_sessions))
    ok &= run_cases(ctx, reg, "regress")
    ok &= run_sessions(ctx, reg_sessions, "regress-session")
    ok &= run_cases(ctx, malformed_cases(), "malformed")

    # tiny exhaustive
    cls3 = tiny_classes(3)
    tiny = []
    for a in cls3:
        for b in cls3:
            for variant in ("main", "mtg"):
                tiny.append({"g1": tiny_graph(a, 0), "g2": tiny_graph(b, 10, ctx.rnd), "variant": variant,
                             "node_keys": ["element"], "node_defaults": [V("*")], "edge_keys": ["order"]})
    if ctx.quick:
        # all pairs in the main variant; MTG on a seeded third
        tiny = [c for c in tiny if c["variant"] == "main" or ctx.rnd.random() < 0.34]
        modes_main = [(True, False), (False, False), (True, True)]
    else:
        modes_main = MODES_MAIN
    if ok:
        ok &= run_cases(ctx, tiny, "tiny-exhaustive<=3", modes_main=modes_main)
    ctx.extra["exhaustive"] = bool(ok)
    ctx.extra["exhaustive_part"] = (f"all {len(cls3)}^2 ordered pairs of isomorphism classes with <=3 nodes (main variant; "
                                    + ("MTG on a seeded third)" if ctx.quick else "and MTG)"))
    if not ctx.quick and ok:
        cls4 = [c for c in tiny_classes(4) if len(c[0]) == 4]
        small = [c for c in cls3 if len(c[0]) <= 2]
        c3 = [c for c in cls3 if len(c[0]) == 3]
        t4 = []
        for a in cls4:
            for b in small:
                t4.append((a, b)); t4.append((b, a))
        for _ in range(6000):
            a, b = ctx.rnd.choice(cls4), ctx.rnd.choice(c3)
            t4.append((a, b) if ctx.rnd.random() < 0.5 else (b, a))
        for _ in range(6000):
            t4.append((ctx.rnd.choice(cls4), ctx.rnd.choice(cls4)))
        cases4 = [{"g1": tiny_graph(a, 0, ctx.rnd), "g2": tiny_graph(b, 10, ctx.rnd),
                   "variant": "mtg" if ctx.rnd.random() < 0.25 else "main",
                   "node_keys": ["element"], "node_defaults": [V("*")], "edge_keys": ["order"]} for a, b in t4]
        ctx.count("tiny4_pairs", len(cases4))
        ok &= run_cases(ctx, cases4, "tiny-4")

    nrand = 600 if ctx.quick else 10000
    rcases = []
    for i in range(nrand):
        kind = KINDS[i % len(KINDS)]
        variant = "mtg" if ctx.rnd.random() < 0.25 else "main"
        c = rand_case(ctx.rnd, kind, variant)
        ctx.count("kind:" + kind)
        rcases.append(c)
    if ok:
        ok &= run_cases(ctx, rcases, "random")

    # ---- option / attribute-selection variation (non-default, permuted, longer key lists; keys on nodes and edges)
    nopt = 260 if ctx.quick else 4000
    ocases = [options_case(ctx.rnd, "mtg" if ctx.rnd.random() < 0.2 else "main") for _ in range(nopt)]
    if ok:
        ok &= run_cases(ctx, ocases, "options")
    # ---- rare but legal inputs
    nrare = 260 if ctx.quick else 4000
    rare = []
    for i in range(nrare):
        kind = RARE_KINDS[i % len(RARE_KINDS)]
        ctx.count("rare_kind:" + kind)
        rare.append(rare_case(ctx.rnd, "mtg" if ctx.rnd.random() < 0.2 else "main", kind))
    if ok:
        ok &= run_cases(ctx, rare, "rare")

    # ---- molecule sets (repeated isomorphic components, more components on one side, id ranges same / disjoint /
    #      shifted / interleaved) in every ordinary mode, compared with the Lean model like any other pair
    ncomp = 140 if ctx.quick else 2500
    ccases = [comp_case(ctx.rnd, "mtg" if ctx.rnd.random() < 0.2 else "main", 6, 7, ctx.count) for _ in range(ncomp)]
    if ok:
        ok &= run_cases(ctx, ccases, "components")
    # ---- the component-level entry points (mcs_mol, find_rc_mapping side='its' with mcs_mol / component), one query per
    #      case on a fresh matcher; judged by the specification (validity of the returned mapping, inverse directions)
    nentry = 1200 if ctx.quick else 12000
    ecases = []
    for i in range(nentry):
        variant = "mtg" if ctx.rnd.random() < 0.2 else "main"
        src = i % 6
        if src < 4:
            base = comp_case(ctx.rnd, variant, 9, 9, ctx.count)
        elif src == 4:
            base = options_case(ctx.rnd, variant) if (i // 6) % 2 else rare_case(ctx.rnd, variant, RARE_KINDS[(i // 12) % len(RARE_KINDS)])
        else:
            base = rand_case(ctx.rnd, KINDS[(i // 6) % len(KINDS)], variant)
        ecases.append(with_entry(ctx.rnd, base))
    if ok:
        ok &= run_cases(ctx, ecases, "component-entry")

    # ---- hidden state: ONE matcher object answers a sequence of queries on graph objects that are built once
    pairs = [(a, b) for a in range(len(cls3)) for b in range(len(cls3))]
    if ctx.quick:
        pairs = [p for p in pairs if ctx.rnd.random() < 0.25]
    ctx.rnd.shuffle(pairs)
    if ok:
        ok &= run_sessions(ctx, tiny_sessions(ctx.rnd, cls3, pairs, group=6), "session-tiny<=3")
    nsess = 150 if ctx.quick else 2500
    sessions = []
    for i in range(nsess):
        variant = "mtg" if ctx.rnd.random() < 0.2 else "main"
        src = i % 4
        if src == 0:
            base = options_case(ctx.rnd, variant)
        elif src == 1:
            base = rare_case(ctx.rnd, variant, RARE_KINDS[(i // 4) % len(RARE_KINDS)])
        else:
            base = rand_case(ctx.rnd, KINDS[(i // 4) % len(KINDS)], variant)
        if len(base["g1"]["nodes"]) > 5 or len(base["g2"]["nodes"]) > 6:
            base = rand_case(ctx.rnd, "planted", variant)
        sessions.append(rand_session(ctx.rnd, base, ctx.rnd.randint(2, 6)))
    if ok:
        ok &= run_sessions(ctx, sessions, "session-random")
    ncs = 150 if ctx.quick else 1500
    csessions = [comp_session(ctx.rnd, "mtg" if ctx.rnd.random() < 0.2 else "main") for _ in range(ncs)]
    if ok:
        ok &= run_sessions(ctx, csessions, "session-components")
    # ---- other documented routes to the same search: find_rc_mapping on ITS graphs (sides r / l / op through the ITS
    #      decomposition, side 'its'), keyword defaults left out, constructor spellings, graphs handed over as views
    nroute = 220 if ctx.quick else 3000
    rtcases = []
    for i in range(nroute):
        variant = "mtg" if ctx.rnd.random() < 0.2 else "main"
        plain = None
        if i % 3 == 2:
            k = (i // 3) % 3
            plain = (options_case(ctx.rnd, variant) if k == 0 else rare_case(ctx.rnd, variant, RARE_KINDS[(i // 9) % len(RARE_KINDS)])
                     if k == 1 else rand_case(ctx.rnd, KINDS[(i // 9) % len(KINDS)], variant))
        c = route_case(ctx.rnd, variant, plain=plain)
        route_counts(ctx, c)
        rtcases.append(c)
    if ok:
        ok &= run_cases(ctx, rtcases, "routes")
    nre = 320 if ctx.quick else 4000
    recases = []
    for i in range(nre):
        variant = "mtg" if ctx.rnd.random() < 0.2 else "main"
        plain = comp_case(ctx.rnd, variant, 8, 8) if i % 4 == 3 else None
        c = route_case(ctx.rnd, variant, plain=plain, entry=True, bad_side=(variant == "main" and plain is None and i % 16 == 0))
        route_counts(ctx, c)
        recases.append(c)
    if ok:
        ok &= run_cases(ctx, recases, "routes-entry")
    nrs = 60 if ctx.quick else 800
    rsessions = []
    for i in range(nrs):
        variant = "mtg" if ctx.rnd.random() < 0.2 else "main"
        base = rand_case(ctx.rnd, KINDS[i % len(KINDS)], variant) if i % 2 else options_case(ctx.rnd, variant)
        if len(base["g1"]["nodes"]) > 5 or len(base["g2"]["nodes"]) > 6:
            base = rand_case(ctx.rnd, "planted", variant)
        rsessions.append(route_sessions(ctx.rnd, base, ctx.rnd.randint(2, 5)))
    for sess in rsessions:
        for st in sess["steps"]:
            if st.get("route"):
                ctx.count("session_route:" + st["route"])
    if ok:
        ok &= run_sessions(ctx, rsessions, "session-routes")
    # ---- representation and scale (appended after the older streams so that their draws from ctx.rnd are unchanged)
    vrnt = lambda p=0.2: "mtg" if ctx.rnd.random() < p else "main"
    #  (a) the tiny-exhaustive population with its two bond orders written as LABELS: every ordered pair of <=3-node classes
    #      (quick: a seeded part), default options, main variant, maximum mode and plain enumeration
    tsym = []
    for a in cls3:
        for b in cls3:
            if not ctx.quick or ctx.rnd.random() < 0.12:
                base = {"g1": tiny_graph(a, 0), "g2": tiny_graph(b, 10, ctx.rnd), "variant": "main",
                        "node_keys": None, "node_defaults": None, "edge_keys": None}
                tsym.append(tiny_symbolic(base, ctx.rnd.choice(SYMBOL_VOCABS)))
    ctx.count("tiny_symbolic_pairs", len(tsym))
    if ok:
        ok &= run_cases(ctx, tsym, "tiny-symbolic<=3", modes_main=[(True, False), (False, False)])
    #  (b) molecule-like pairs with symbolic bond orders (same / mixed with numbers / another vocabulary / one graph only /
    #      ITS pairs with a non-numeric member), half of them with every option at its default
    nsym = 220 if ctx.quick else 3000
    scases = []
    for i in range(nsym):
        how = SYMBOLIC_HOW[i % len(SYMBOLIC_HOW)]
        ctx.count("symbolic:" + how)
        scases.append(symbolic_case(ctx.rnd, vrnt(0.15), how))
    if ok:
        ok &= run_cases(ctx, scases, "symbolic-orders")
    #  (c) numbers of mixed Python type / print, unselected attributes, falsy labels, multi-digit numbers and huge ids
    ntyp = 160 if ctx.quick else 2000
    tcases = [types_case(ctx.rnd, vrnt()) for _ in range(ntyp)]
    for c in tcases:
        for st in c["dress"]["num"]:
            ctx.count("dress_style:" + st)
        ctx.count("dress_ids:" + ("mixed" if c["dress"].get("ids") else "int"))
    if ok:
        ok &= run_cases(ctx, tcases, "value-types")
    nx_ = 80 if ctx.quick else 1000
    if ok:
        ok &= run_cases(ctx, [extras_case(ctx.rnd, vrnt()) for _ in range(nx_)], "unselected-attributes")
    nfal = 120 if ctx.quick else 1500
    if ok:
        ok &= run_cases(ctx, [falsy_case(ctx.rnd, vrnt()) for _ in range(nfal)], "falsy-labels")
    nbig = 100 if ctx.quick else 1500
    if ok:
        ok &= run_cases(ctx, [bignum_case(ctx.rnd, vrnt()) for _ in range(nbig)], "big-numbers")
    #  (d) just beyond the sizes of the other streams: dense random graphs on 4 (thorough: 4..5) nodes over the tiny alphabet
    #      (the quick tier's exhaustive part stops at 3), and molecule-like pairs of 7..8 x 7..9 atoms in maximum mode
    nden = 160 if ctx.quick else 2000
    dcases = []
    for i in range(nden):
        hi = 4 if ctx.quick else 5
        n1, n2 = ctx.rnd.randint(3, hi), ctx.rnd.randint(4, hi)
        if ctx.rnd.random() < 0.4:
            n1, n2 = n2, n1
        sym = ctx.rnd.random() < 0.3
        c = {"g1": dense_tiny(ctx.rnd, n1, 0), "g2": dense_tiny(ctx.rnd, n2, ctx.rnd.choice([0, 10])), "variant": vrnt(0.15),
             "node_keys": ["element"], "node_defaults": [V("*")], "edge_keys": ["order"], "modes": [[True, False], [True, True]]}
        dcases.append(tiny_symbolic(c, ctx.rnd.choice(SYMBOL_VOCABS)) if sym else c)
    if ok:
        ok &= run_cases(ctx, dcases, "dense-beyond-exhaustive")
    nsc = 24 if ctx.quick else 200
    if ok:
        ok &= run_cases(ctx, [scale_case(ctx.rnd, vrnt(0.15)) for _ in range(nsc)], "scale-7..9")
    #  (e) the same populations through the component-level entry points, the other routes, and on ONE reused matcher
    nre2 = 120 if ctx.quick else 1200
    e2 = []
    for i in range(nre2):
        v = vrnt()
        base = [symbolic_case, symbolic_case, types_case, falsy_case, extras_case, bignum_case][i % 6](ctx.rnd, v)
        if i % 2:
            e2.append(with_entry(ctx.rnd, base))
        else:
            c = route_case(ctx.rnd, v, plain=base, entry=(i % 4 == 0))
            route_counts(ctx, c)
            e2.append(c)
    if ok:
        ok &= run_cases(ctx, e2, "representation-entry/routes")
    nrs2 = 50 if ctx.quick else 600
    if ok:
        ok &= run_sessions(ctx, [repr_session(ctx.rnd, vrnt()) for _ in range(nrs2)], "session-representation")
    ctx.obligation("correspondence: MCSMatcher (both variants, every mode and direction) == model SynKit.Mcs.find; "
                   "spec.mcs holds on every implementation output (component-level entry points included)", not ctx.violations)


def replay(ctx, case):
    c = case.get("case", case)
    if c.get("session"):
        diffs, viols = evaluate_session(ctx, c)
        ctx.case(c, True)
        if viols:
            ctx.violation("common-subgraph matcher output violates C12 (validity / equal size / maximality / inverse directions) "
                          "for a query put to a matcher object that had answered other queries before",
                          c, {"spec_violations": viols, "differences_from_model": diffs[:8]})
        elif diffs:
            ctx.violation("correspondence broken: a reused MCSMatcher object differs from the Lean model SynKit.Mcs.find", c,
                          {"differences_from_model": diffs[:8]}, no_input=True)
        return
    diffs, viols = evaluate(ctx, c)
    ctx.case(c, True)
    if viols:
        ctx.violation("common-subgraph matcher output violates C12 (validity / equal size / maximality / inverse directions)",
                      c, {"spec_violations": viols, "differences_from_model": diffs[:8]})
    elif diffs:
        ctx.violation("correspondence broken: MCSMatcher differs from the Lean model SynKit.Mcs.find", c,
                      {"differences_from_model": diffs[:8]}, no_input=True)

"""C13 — clustering partitions graphs exactly into isomorphism classes.

Lean side (Props/C13.lean): over an abstract equivalence `iso` and an iso-invariant key the model
of `GraphCluster.iterative_cluster` / `fit` and of `BatchCluster.lib_check` / `cluster` / `fit`
produces a partition with "same class <=> iso", independent of the list order, incremental =
one-shot = batched, and `lib_check` joins the class of the isomorphic representative or opens a
fresh class.

Correspondence (this file): reaction-centre lists are clustered by the real classes and by the
model; the model gets, for every ORDERED pair of graphs, the verdict of the Lean isomorphism
engine on element/charge/order (`isoDecide`, the function behind `match.iso`; never symmetrised
by the harness) and the attribute value the code compares.  Class labellings are compared only
through what the property determines: the partition, the identity of pre-existing template
classes, and freshness of new classes.  In addition the specification itself ("same class <=>
verdict true", order independence) is evaluated on the implementation's own output
(`cluster.spec`).
"""
import copy
import hashlib
import itertools
import json

import networkx as nx

from .. import graphio
from ..core import ROOT, build_and_audit
from ..shrink import shrink_seq

THEOREMS = [
    "SynKit.Cluster.cluster_partition",
    "SynKit.Cluster.same_class_iff",
    "SynKit.Cluster.cluster_perm_invariant",
    "SynKit.Cluster.cluster_perm_invariant_items",
    "SynKit.Cluster.libCheck_spec",
    "SynKit.Cluster.libCheck_joins_representative",
    "SynKit.Cluster.cluster_with_templates_spec",
    "SynKit.Cluster.incremental_eq_oneshot",
    "SynKit.Cluster.incremental_perm_invariant",
    "SynKit.Cluster.batched_eq_oneshot",
    "SynKit.Cluster.C13.full",
    "SynKit.Cluster.same_class_iff_on",
    "SynKit.Cluster.cluster_perm_invariant_on",
    "SynKit.Cluster.libCheck_joins_representative_on",
    "SynKit.Cluster.cluster_with_templates_spec_on",
    "SynKit.Cluster.incremental_same_class_iff_oneshot",
    "SynKit.Cluster.incremental_perm_invariant_on",
    "SynKit.Cluster.clIso_equiv_wf",
    "SynKit.Cluster.same_class_iff_iso",
    "SynKit.Cluster.cluster_perm_invariant_iso",
    "SynKit.Cluster.libCheck_spec_iso",
    "SynKit.Cluster.libCheck_joins_representative_iso",
    "SynKit.Cluster.cluster_with_templates_spec_iso",
    "SynKit.Cluster.incremental_perm_invariant_iso",
    "SynKit.Cluster.relabel_same_class_iso",
    "SynKit.Cluster.libCheck_relabel_joins_iso",
    "SynKit.Cluster.C13.full_iso",
    "SynKit.Cluster.clIso_iff",
    "SynKit.Cluster.clIso_equivOn",
    "SynKit.Cluster.nodeOk_norm_iff",
    "SynKit.Cluster.edgeOk_norm_iff",
    "SynKit.Cluster.get_withDefault",
    "SynKit.Cluster.clIso_relabel_left",
    "SynKit.Cluster.clIso_relabel_right",
]

SEL = {"node_keys": ["element", "charge"], "edge_keys": ["order"], "hcount": False}
INVARIANT_KINDS = ("none", "elems", "elems_unsorted", "hash", "size")
ELEMENTS = ["C", "N", "O", "S", "H", "Br", "Cl", "P"]


# ---------------------------------------------------------------- population
def load_corpus():
    j = json.loads((ROOT / "corpus" / "c13_rc.json").read_text())
    return [e["rc"] for e in j["items"]]


def all_present(gj):
    return all("element" in a and "charge" in a for _, a in gj["nodes"]) and all("order" in a for _, _, a in gj["edges"])


def relabel(gj, rnd):
    """Isomorphic copy: node ids permuted, node and edge insertion order shuffled, edge ends flipped."""
    ids = [n for n, _ in gj["nodes"]]
    new = rnd.sample(range(0, 60), len(ids))
    f = dict(zip(ids, new))
    nodes = [[f[n], dict(a)] for n, a in gj["nodes"]]
    edges = []
    for u, v, a in gj["edges"]:
        uu, vv = f[u], f[v]
        if rnd.random() < 0.5:
            uu, vv = vv, uu
        edges.append([uu, vv, dict(a)])
    rnd.shuffle(nodes)
    rnd.shuffle(edges)
    return {"nodes": nodes, "edges": edges}


def near_miss(gj, rnd):
    """One bond order, one charge or one element changed. -> (graph, kind)"""
    g = copy.deepcopy(gj)
    kinds = ["charge", "element"] + (["order"] if g["edges"] else [])
    k = rnd.choice(kinds)
    if k == "order":
        e = rnd.choice(g["edges"])
        o = e[2]["order"]
        if "t" in o:
            t = [dict(x) for x in o["t"]]
            if len(t) == 2 and t[0] != t[1] and rnd.random() < 0.4:
                t = [t[1], t[0]]
            else:
                i = rnd.randrange(len(t))
                t[i] = {"n": (t[i]["n"] + 2) if t[i]["n"] < 6 else 2}
            e[2]["order"] = {"t": t}
        else:
            e[2]["order"] = {"n": (o["n"] + 2) if o["n"] < 6 else 2}
    elif k == "charge":
        n = rnd.choice(g["nodes"])
        n[1]["charge"] = {"n": n[1]["charge"]["n"] + rnd.choice([2, -2])}
    else:
        n = rnd.choice(g["nodes"])
        cur = n[1]["element"]["s"]
        n[1]["element"] = {"s": rnd.choice([e for e in ELEMENTS if e != cur])}
    return g, k


def _num(x):
    if isinstance(x, (tuple, list)):
        return tuple(_num(y) for y in x)
    return float(x) if isinstance(x, (int, float)) and not isinstance(x, bool) else x


def attr_value(kind, G):
    """Iso-invariant attribute values computed by the harness (never by synkit code)."""
    if kind == "none":
        return None
    if kind == "elems":
        return sorted(str(d.get("element")) for _, d in G.nodes(data=True))
    if kind == "elems_unsorted":  # GraphCluster sorts list attributes itself
        return [str(d.get("element")) for _, d in G.nodes(data=True)]
    if kind == "size":
        return f"n{G.number_of_nodes()}e{G.number_of_edges()}"
    if kind == "hash":
        sig = sorted(
            (str(d.get("element")), _num(d.get("charge")), sorted(repr(_num(G.edges[n, m].get("order"))) for m in G[n]))
            for n, d in G.nodes(data=True)
        )
        return hashlib.md5(repr(sig).encode()).hexdigest()[:12]
    raise ValueError(kind)


def gc_key(values):
    """What GraphCluster.iterative_cluster compares: strings as they are, other values sorted."""
    if values is None:
        return None
    if isinstance(values[0], str):
        return list(values)
    return [sorted(v) for v in values]


# ---------------------------------------------------------------- a case
def case_values(case, graphs):
    """Attribute value per pool entry (None when kind is 'none')."""
    if case["attr"] == "none":
        return None
    if case["attr"] == "noninv":
        return case["attr_vals"]
    return [attr_value(case["attr"], G) for G in graphs]


def partition(labels):
    d = {}
    for i, l in enumerate(labels):
        d.setdefault(json.dumps(l), []).append(i)
    return sorted(d.values())


def canon_labels(labels, tcls):
    """Labels up to what the property fixes: a pre-existing template class keeps its number,
    fresh classes are numbered by first appearance."""
    fresh, out = {}, []
    for l in labels:
        if l in tcls:
            out.append(["T", l])
        else:
            if json.dumps(l) not in fresh:
                fresh[json.dumps(l)] = len(fresh)
            out.append(["F", fresh[json.dumps(l)]])
    return out


def invert(perm, labels):
    out = [None] * len(perm)
    for k, p in enumerate(perm):
        out[p] = labels[k]
    return out


# ---------------------------------------------------------------- implementation adapters
def _exc(f):
    try:
        return f()
    except IndexError:
        return {"error": "IndexError"}
    except ValueError:
        return {"error": "ValueError"}


def impl_iter(graphs, values):
    from synkit.Graph.Matcher.graph_cluster import GraphCluster

    gc = GraphCluster()
    clusters, r2c = gc.iterative_cluster(list(graphs), None if values is None else list(values), gc.nodeMatch, gc.edgeMatch)
    return [sorted(c) for c in clusters], {int(k): v for k, v in r2c.items()}


def mk_data(graphs, pids, values):
    out = []
    for g, p in zip(graphs, pids):
        d = {"gml": g, "pid": p}
        if values is not None:
            d["att"] = values[p]
        out.append(d)
    return out


def impl_gc_fit(data, has_attr):
    from synkit.Graph.Matcher.graph_cluster import GraphCluster

    def f():
        res = GraphCluster().fit(data, rule_key="gml", attribute_key="att" if has_attr else None)
        return {"classes": [e.get("class") for e in res]}
    return _exc(f)


def mk_templates(pool_graphs, templates, values):
    out = []
    for p, c in templates:
        d = {"gml": pool_graphs[p], "pid": p, "class": c}
        if values is not None:
            d["att"] = values[p]
        out.append(d)
    return out


def impl_bc_cluster(data, templates, has_attr, one_by_one=False):
    from synkit.Graph.Matcher.batch_cluster import BatchCluster

    bc = BatchCluster()
    key = "att" if has_attr else None
    if one_by_one:
        ts = templates
        for e in data:
            _, ts = bc.lib_check(e, ts, rule_key="gml", attribute_key=key)
        res = data
    else:
        res, ts = bc.cluster(data, templates, rule_key="gml", attribute_key=key)
    return {"classes": [e.get("class") for e in res], "templates": [[t["pid"], t["class"]] for t in ts]}


def impl_bc_fit(data, templates, has_attr, batch_size):
    from synkit.Graph.Matcher.batch_cluster import BatchCluster

    def f():
        res, ts = BatchCluster().fit(data, templates, rule_key="gml", attribute_key="att" if has_attr else None,
                                     batch_size=batch_size)
        return {"classes": [e.get("class") for e in res], "templates": [[t["pid"], t["class"]] for t in ts]}
    return _exc(f)


# ---------------------------------------------------------------- evaluation of cases
def matrix_request(case):
    return {"cmd": "cluster.isomatrix", "graphs": case["pool"], **SEL}


def keyjson(values, sort_lists):
    if values is None:
        return None
    return gc_key(values) if sort_lists else list(values)


def plan(case, iso):
    """Model requests of a case, as a list of (tag, request)."""
    pool_n = len(case["pool"])
    values = case.get("_values")
    kg = keyjson(values, True) or [None] * pool_n
    kb = keyjson(values, False) or [None] * pool_n
    items = case["items"]
    base_g = {"iso": iso, "keys": kg}
    base_b = {"iso": iso, "keys": kb}
    reqs = [("iter", {"cmd": "cluster.iter", **base_g, "items": items})]
    if case.get("gc_only"):
        return reqs
    arr = [items[p] for p in case["arrival"]]
    reqs.append(("run_empty", {"cmd": "cluster.run", **base_b, "items": arr, "templates": []}))
    if case["templates"]:
        reqs.append(("run_tmpl", {"cmd": "cluster.run", **base_b, "items": arr, "templates": case["templates"]}))
    for bs in case["batch_sizes"]:
        reqs.append((f"fit_none_{bs}", {"cmd": "cluster.fit", **base_b, "items": items, "templates": None, "batch_size": bs}))
        if case["templates"]:
            reqs.append((f"fit_tmpl_{bs}", {"cmd": "cluster.fit", **base_b, "items": items, "templates": case["templates"], "batch_size": bs}))
    return reqs


def prepare(case):
    graphs = [graphio.to_nx(g) for g in case["pool"]]
    case["_graphs"] = graphs
    case["_values"] = case_values(case, graphs)
    return case


def public(case):
    return {k: v for k, v in case.items() if not k.startswith("_")}


class SpecBatch:
    """Collects `cluster.spec` requests of many cases so that they go to the driver in one call."""

    def __init__(self):
        self.reqs, self.cbs = [], []

    def ask(self, req, cb):
        self.reqs.append(req)
        self.cbs.append(cb)

    def flush(self, lean):
        if self.reqs:
            for rep, cb in zip(lean.ok(self.reqs, shards=8), self.cbs):
                cb(rep)
        self.reqs, self.cbs = [], []


def judge(ctx, case, iso, replies, sb):
    """Compare implementation and model on one case.
    -> list of failures {"what", "spec": True|None, "detail"}; spec=True means the property's own
    predicate (evaluated by the Lean command `cluster.spec` on the implementation's output) is
    violated on this input.  The list is final only after `sb.flush(...)`."""
    fails = []
    graphs, values = case["_graphs"], case["_values"]
    items = case["items"]
    n = len(items)
    glist = [graphs[p] for p in items]
    has_attr = values is not None
    invariant = case["attr"] in INVARIANT_KINDS
    rep = dict(zip([t for t, _ in plan(case, iso)], replies))

    def add(what, spec_violated, detail):
        f = {"what": what, "spec": spec_violated, "detail": detail}
        fails.append(f)
        return f

    def spec_gate(classes, its, templates, what, detail):
        """the specification on the implementation's labelling; a failure is a spec violation"""
        if not invariant:
            return
        def cb(r):
            if not r["ok"]:
                add(what, True, {**detail, "kind": r["kind"], "witness_positions": r["witness"], "classes": classes})
        sb.ask({"cmd": "cluster.spec", "iso": iso, "items": its, "classes": classes, "templates": templates or []}, cb)

    def differs(what, classes, its, templates, detail):
        """impl != model: is the specification violated by what the implementation returned?"""
        f = add(what, None, detail)
        if invariant and classes is not None and None not in classes:
            def cb(r):
                if not r["ok"]:
                    f["spec"] = True
            sb.ask({"cmd": "cluster.spec", "iso": iso, "items": its, "classes": classes, "templates": templates or []}, cb)

    # ---- GraphCluster.iterative_cluster / fit
    m = rep["iter"]
    impl_cls = []
    if n == 0:
        r = _exc(lambda: impl_iter(glist, None))
        if not (isinstance(r, dict) and r == m):
            add("GraphCluster.iterative_cluster on an empty list: outcome differs from the model", None, {"impl": str(r), "model": m})
        r = impl_gc_fit([], has_attr)
        if r != m:
            add("GraphCluster.fit on an empty list: outcome differs from the model", None, {"impl": r, "model": m})
    else:
        vals_list = None if not has_attr else [values[p] for p in items]
        clusters, r2c = impl_iter(glist, vals_list)
        impl_cls = [r2c.get(i) for i in range(n)]
        # partition clause on the implementation's own output
        flat = sorted(x for c in clusters for x in c)
        if flat != list(range(n)) or any(not c for c in clusters) or None in impl_cls \
                or sorted(clusters) != partition(impl_cls):
            add("iterative_cluster: clusters are not a partition of the index set agreeing with rule_to_cluster", True,
                {"clusters": clusters, "rule_to_cluster": impl_cls})
        model_part = partition(m["classes"])
        ctx.count("classes_per_list:" + (str(len(model_part)) if len(model_part) < 10 else "10+"))
        spec_gate(impl_cls, items, None,
                  "iterative_cluster: two items share a class although the isomorphism verdict is false, or are separated although it is true", {})
        if partition(impl_cls) != model_part:
            differs("iterative_cluster: partition differs from the proven model", impl_cls, items, None,
                    {"impl": partition(impl_cls), "model": model_part})
        if sorted(sorted(c) for c in m["clusters"]) != sorted(clusters):
            add("iterative_cluster: cluster sets differ from the proven model", None, {"impl": sorted(clusters), "model": m["clusters"]})
        if impl_cls == m["classes"]:
            ctx.count("numbering_equal_to_model")
        r = impl_gc_fit(mk_data(glist, items, values), has_attr)
        if "error" in r or None in r["classes"] or partition(r["classes"]) != model_part:
            differs("GraphCluster.fit: classes differ from the proven model (as a partition)", r.get("classes"), items, None,
                    {"impl": r, "model": m["classes"]})
        # order independence on the implementation itself
        perm = case["perm"]
        sh_items = [items[p] for p in perm]
        r2 = impl_gc_fit(mk_data([graphs[p] for p in sh_items], sh_items, values), has_attr)
        if invariant and ("error" in r2 or partition(invert(perm, r2["classes"])) != partition(impl_cls)):
            add("GraphCluster.fit: partition depends on the order of the list", True,
                {"order": perm, "original": partition(impl_cls),
                 "shuffled_unshuffled": None if "error" in r2 else partition(invert(perm, r2["classes"]))})
    if case.get("gc_only"):
        return fails

    T = case["templates"]
    if n > 0:
        # ---- BatchCluster.cluster / lib_check, incremental arrival from empty templates
        arrival = case["arrival"]
        arr_items = [items[p] for p in arrival]
        arr_graphs = [graphs[p] for p in arr_items]
        mm = rep["run_empty"]
        for one in (False, True):
            r = impl_bc_cluster(mk_data(arr_graphs, arr_items, values), [], has_attr, one_by_one=one)
            name = "BatchCluster.lib_check (item by item)" if one else "BatchCluster.cluster"
            spec_gate(r["classes"], arr_items, None, f"{name} from empty templates: classes do not follow the isomorphism verdicts",
                      {"arrival": arrival})
            if None in r["classes"] or canon_labels(r["classes"], set()) != canon_labels(mm["classes"], set()):
                differs(f"{name} from empty templates: partition differs from the proven model", r["classes"], arr_items, None,
                        {"arrival": arrival, "impl": r["classes"], "model": mm["classes"]})
            elif invariant and partition(invert(arrival, r["classes"])) != partition(impl_cls):
                add(f"{name}: incremental classification in this arrival order differs from one-shot clustering", True,
                    {"arrival": arrival, "incremental": partition(invert(arrival, r["classes"])), "oneshot": partition(impl_cls)})
            if not tmpl_agree(r["templates"], r["classes"], mm["templates"], mm["classes"], set(), iso):
                add(f"{name} from empty templates: resulting templates are not one representative per class as in the model", None,
                    {"impl": r["templates"], "model": mm["templates"]})
        # ---- with pre-existing templates (non-contiguous class numbers, pairwise non-isomorphic)
        if T:
            tcls = {c for _, c in T}
            mm = rep["run_tmpl"]
            for one in (False, True):
                r = impl_bc_cluster(mk_data(arr_graphs, arr_items, values), mk_templates(graphs, T, values), has_attr, one_by_one=one)
                name = "BatchCluster.lib_check (item by item)" if one else "BatchCluster.cluster"
                spec_gate(r["classes"], arr_items, T,
                          f"{name} with templates: an item is not in the class of its isomorphic representative / not in a fresh "
                          "class / classes do not follow isomorphism", {"templates": T, "arrival": arrival})
                if None in r["classes"] or canon_labels(r["classes"], tcls) != canon_labels(mm["classes"], tcls):
                    differs(f"{name} with templates: classes differ from the proven model", r["classes"], arr_items, T,
                            {"arrival": arrival, "impl": r["classes"], "model": mm["classes"], "templates": T})
                if not tmpl_agree(r["templates"], r["classes"], mm["templates"], mm["classes"], tcls, iso):
                    add(f"{name} with templates: resulting template list differs from the model", None,
                        {"impl": r["templates"], "model": mm["templates"]})
    # ---- BatchCluster.fit, batched vs one-shot
    for bs in case["batch_sizes"]:
        for tag, tm in ((f"fit_none_{bs}", None), (f"fit_tmpl_{bs}", T)):
            if tag not in rep:
                continue
            mm = rep[tag]
            tcls = {c for _, c in (tm or [])}
            impl_t = None if tm is None else mk_templates(graphs, tm, values)
            if tm is None and case.get("empty_list_templates"):
                impl_t = []
            r = impl_bc_fit(mk_data(glist, items, values), impl_t, has_attr, bs)
            if "error" in r or "error" in mm:
                if r != mm:
                    add(f"BatchCluster.fit(batch_size={bs}): outcome differs from the model", None, {"impl": r, "model": mm})
                continue
            spec_gate(r["classes"], items, tm, f"BatchCluster.fit(batch_size={bs}): classes do not follow isomorphism / template classes",
                      {"templates": tm})
            if invariant and tm is None and partition(r["classes"]) != partition(impl_cls):
                add(f"BatchCluster.fit(batch_size={bs}): batched classification differs from one-shot clustering", True,
                    {"batched": partition(r["classes"]), "oneshot": partition(impl_cls)})
            if None in r["classes"] or canon_labels(r["classes"], tcls) != canon_labels(mm["classes"], tcls):
                differs(f"BatchCluster.fit(batch_size={bs}): classes differ from the proven model", r["classes"], items, tm,
                        {"impl": r["classes"], "model": mm["classes"], "templates": tm})
            if not tmpl_agree(r["templates"], r["classes"], mm["templates"], mm["classes"], tcls, iso):
                add(f"BatchCluster.fit(batch_size={bs}): resulting templates differ from the model (one representative per class)", None,
                    {"impl": r["templates"], "model": mm["templates"]})
    return fails


def tmpl_agree(it, icls, mt, mcls, tcls, iso):
    """Template lists agree up to what is determined: same classes (canonically renamed through the
    data labellings), one template per class, representatives isomorphic by the Lean verdict."""
    def canon_map(labels):
        fresh, mp = 0, {}
        for l in labels:
            if l in tcls:
                mp[l] = ("T", l)
            elif l not in mp:
                mp[l] = ("F", fresh)
                fresh += 1
        return mp
    ci, cm = canon_map(icls), canon_map(mcls)
    for c in tcls:
        ci.setdefault(c, ("T", c))
        cm.setdefault(c, ("T", c))
    try:
        a = sorted((ci[c], p) for p, c in it)
        b = sorted((cm[c], p) for p, c in mt)
    except KeyError:
        return False
    if [x for x, _ in a] != [x for x, _ in b]:
        return False
    return all(iso[pb][pa] and iso[pa][pb] for (_, pa), (_, pb) in zip(a, b))


def nontrivial_case(model_classes):
    part = partition(model_classes)
    return len(part) >= 2 and any(len(c) >= 2 for c in part)


def evaluate(ctx, cases, stream, shrink=True):
    """Run a list of cases with three batched driver rounds: verdict matrices, cluster commands,
    specification verdicts on the implementation's outputs."""
    if not cases:
        return
    lean = ctx.lean()
    for c in cases:
        prepare(c)
    keys = {}
    for c in cases:  # identical pools share one matrix request
        if "_iso" not in c:
            keys.setdefault(json.dumps(c["pool"], sort_keys=True), None)
    klist = list(keys)
    mats = lean.ok([{"cmd": "cluster.isomatrix", "graphs": json.loads(k), **SEL} for k in klist], shards=8)
    keys = dict(zip(klist, mats))
    isos = [c["_iso"] if "_iso" in c else keys[json.dumps(c["pool"], sort_keys=True)] for c in cases]
    plans = [plan(c, iso) for c, iso in zip(cases, isos)]
    replies = lean.ok([r for p in plans for _, r in p], shards=8)
    pos = 0
    sb = SpecBatch()
    results = []
    for c, iso, p in zip(cases, isos, plans):
        rs = replies[pos:pos + len(p)]
        pos += len(p)
        fails = judge(ctx, c, iso, rs, sb)
        results.append((c, iso, fails))
        m = rs[0]
        nt = "classes" in m and nontrivial_case(m["classes"])
        ctx.count(f"stream:{stream}")
        ctx.count("attr:" + c["attr"])
        ctx.count("list_size:" + (str(len(c["items"])) if len(c["items"]) < 10 else f"{len(c['items']) // 10 * 10}+"))
        if c["templates"]:
            ctx.count("cases_with_preexisting_templates")
        if not c.get("gc_only"):
            for bs in c["batch_sizes"]:
                ctx.count(f"batch_size:{bs}")
        ctx.case([c["pool"], c["items"], c["attr"], c.get("attr_vals"), c["perm"], c["arrival"], c["templates"], c["batch_sizes"]],
                 nt, sample={"stream": stream, "items": c["items"], "attr": c["attr"], "pool_size": len(c["pool"]),
                             "templates": c["templates"], "batch_sizes": c["batch_sizes"],
                             "model_classes": m.get("classes")} if 4 <= len(c["items"]) <= 8 else None)
    sb.flush(lean)
    # cases on which the specification itself is violated are reported (and shrunk) first
    results.sort(key=lambda r: not any(f["spec"] for f in r[2]))
    for c, iso, fails in results:
        if fails:
            report(ctx, c, iso, fails, stream, shrink)
            if len(ctx.violations) >= 6:
                return


def restrict(case, keep):
    """Sub-case on the list positions `keep` (orders induced)."""
    keep = list(keep)
    idx = {p: k for k, p in enumerate(keep)}
    c = {k: v for k, v in case.items() if not k.startswith("_")}
    c["items"] = [case["items"][p] for p in keep]
    c["perm"] = [idx[p] for p in case["perm"] if p in idx]
    c["arrival"] = [idx[p] for p in case["arrival"] if p in idx]
    return prepare(c)


def report(ctx, case, iso, fails, stream, shrink):
    lean = ctx.lean()
    spec_fail = [f for f in fails if f["spec"]]
    target = spec_fail[0] if spec_fail else fails[0]
    want_spec = bool(spec_fail)

    def fails_on(keep):
        if not keep:
            return False
        c = restrict(case, keep)
        rs = lean.ok([r for _, r in plan(c, iso)])
        sb = SpecBatch()
        fs = judge(_Quiet(ctx), c, iso, rs, sb)
        sb.flush(lean)
        return any(f["spec"] for f in fs) if want_spec else bool(fs)

    keep = list(range(len(case["items"])))
    if shrink and len(keep) > 1:
        keep = shrink_seq(keep, fails_on, budget=80)
    small = restrict(case, keep)
    rs = lean.ok([r for _, r in plan(small, iso)])
    sb = SpecBatch()
    fs = judge(_Quiet(ctx), small, iso, rs, sb)
    sb.flush(lean)
    fs = fs or fails
    spec2 = [f for f in fs if f["spec"]]
    t = spec2[0] if spec2 else fs[0]
    used = sorted(set(small["items"]) | {p for p, _ in small["templates"]})
    detail = {"stream": stream, "failure": t["detail"], "all_failures": [f["what"] for f in fs][:8],
              "original_list_length": len(case["items"]),
              "verdict_matrix_on_used_pool_entries": {str(a): {str(b): iso[a][b] for b in used} for a in used},
              "model": {tag: r for (tag, _), r in zip(plan(small, iso), rs)}}
    if spec2:
        ctx.violation(t["what"], public(small), detail)
    else:
        ctx.violation("correspondence broke (specification holds on the implementation's output or is not applicable): " + t["what"],
                      public(small), detail, no_input=True)


class _Quiet:
    """ctx stand-in for re-evaluations during shrinking (no accounting)."""

    def __init__(self, ctx):
        self._ctx = ctx

    def count(self, *a, **k):
        pass


# ---------------------------------------------------------------- generators
def make_case(rnd, corpus, size, attr, with_templates, gc_only=False):
    pool, items = [], []
    n_near = n_rel = n_dup = 0
    while len(items) < size:
        c = rnd.random()
        if pool and c < 0.22:  # duplicate: the same pool entry again
            items.append(rnd.choice(items))
            n_dup += 1
        elif pool and c < 0.45:  # relabelled copy of an entry already used
            pool.append(relabel(pool[rnd.choice(items)], rnd))
            items.append(len(pool) - 1)
            n_rel += 1
        elif pool and c < 0.65:  # near miss of an entry already used
            g, _k = near_miss(pool[rnd.choice(items)], rnd)
            pool.append(relabel(g, rnd) if rnd.random() < 0.5 else g)
            items.append(len(pool) - 1)
            n_near += 1
        else:
            g = rnd.choice(corpus)
            pool.append(relabel(g, rnd) if rnd.random() < 0.5 else copy.deepcopy(g))
            items.append(len(pool) - 1)
    case = {"pool": pool, "items": items, "attr": attr, "gc_only": gc_only}
    if attr == "noninv":
        # every list entry is its own pool entry, so the attribute is per entry
        pool2, items2 = [], []
        for p in items:
            pool2.append(copy.deepcopy(pool[p]))
            items2.append(len(pool2) - 1)
        pool, items = pool2, items2
        case.update(pool=pool, items=items)
        if rnd.random() < 0.5:
            case["attr_vals"] = [rnd.choice(["a", "b"]) for _ in pool]
        else:
            case["attr_vals"] = [rnd.choice([["x"], ["x", "y"], ["y"]]) for _ in pool]
    perm = list(range(size))
    rnd.shuffle(perm)
    arrival = list(range(size))
    rnd.shuffle(arrival)
    case["perm"], case["arrival"] = perm, arrival
    T = []
    if with_templates and attr != "noninv":
        # representatives: some isomorphic to list entries (relabelled), some foreign; pairwise
        # non-isomorphic is enforced after the verdict matrix is known (see fix_templates)
        cand = []
        for p in rnd.sample(sorted(set(items)), min(len(set(items)), rnd.randint(1, 5))):
            pool.append(relabel(pool[p], rnd))
            cand.append(len(pool) - 1)
        for _ in range(rnd.randint(0, 2)):
            pool.append(relabel(rnd.choice(corpus), rnd))
            cand.append(len(pool) - 1)
        rnd.shuffle(cand)
        numbers = rnd.sample([-3, 0, 1, 2, 4, 5, 7, 9, 12, 20, 41], len(cand))
        T = [[p, c] for p, c in zip(cand, numbers)]
    case["templates"] = T
    bss = [None] + rnd.sample([1, 2, 3, 7, size, size + 5], 2)
    case["batch_sizes"] = bss
    case["empty_list_templates"] = rnd.random() < 0.5
    case["_stats"] = (n_dup, n_rel, n_near)
    return case


def fix_templates(cases, lean):
    """Make the pre-existing templates pairwise non-isomorphic (one representative per class):
    drop a candidate that the Lean verdict puts in the class of an earlier one."""
    need = [c for c in cases if c["templates"]]
    if not need:
        return
    mats = lean.ok([matrix_request(c) for c in need], shards=8)
    for c, iso in zip(need, mats):
        c["_iso"] = iso
        kept = []
        for p, k in c["templates"]:
            if not any(iso[q][p] or iso[p][q] for q, _ in kept):
                kept.append([p, k])
        c["templates"] = kept


def tiny_alphabet():
    def g(nodes, edges):
        return {"nodes": [[i, {"element": {"s": e}, "charge": {"n": 2 * q}}] for i, e, q in nodes],
                "edges": [[u, v, {"order": {"t": [{"n": 2 * a}, {"n": 2 * b}]}}] for u, v, a, b in edges]}
    A = g([(1, "C", 0), (2, "O", 0)], [(1, 2, 1, 2)])
    A2 = g([(7, "O", 0), (3, "C", 0)], [(7, 3, 1, 2)])        # isomorphic to A
    B = g([(1, "C", 0), (2, "O", 0)], [(1, 2, 2, 1)])         # near miss: bond order
    C = g([(1, "C", 0), (2, "O", -1)], [(2, 1, 1, 2)])        # near miss: charge
    D = g([(4, "C", 0), (5, "N", 0)], [(4, 5, 1, 2)])         # near miss: element
    return [A, A2, B, C, D]


def tiny_cases(maxlen):
    alpha = tiny_alphabet()
    out = []
    k = 0
    for L in range(1, maxlen + 1):
        for seq in itertools.product(range(len(alpha)), repeat=L):
            k += 1
            out.append({"pool": alpha, "items": list(seq), "attr": ["none", "elems", "hash"][k % 3], "gc_only": False,
                        "perm": list(reversed(range(L))), "arrival": list(range(L))[1:] + [0] if L else [],
                        "templates": [[1, 5]] if k % 4 == 0 else [], "batch_sizes": [2] if k % 2 else [None, 1],
                        "empty_list_templates": bool(k % 2)})
    return out


def load_regress():
    d = ROOT / "regress" / "C13"
    out = []
    if d.exists():
        for f in sorted(d.glob("*.json")):
            j = json.loads(f.read_text())
            out.append(j.get("case", j))
    return out


def malformed_cases(corpus):
    g = corpus[0]
    base = {"pool": [g], "attr": "none", "gc_only": False, "perm": [], "arrival": [], "templates": [],
            "empty_list_templates": False}
    return [
        {**base, "items": [], "batch_sizes": [None, 2]},            # IndexError / ([], templates)
        {**base, "items": [0, 0], "perm": [1, 0], "arrival": [0, 1], "batch_sizes": [0]},  # ValueError
        {**base, "items": [], "batch_sizes": [0]},
    ]


def run(ctx):
    ctx.trusted = [
        "Lean 4.33 kernel; axioms of the property theorems as listed in obligation_list",
        "hand-written model SynKitModel/Cluster.lean (iterative_cluster, fit, lib_check, cluster, batch_dicts, fit) tied to /repo by "
        "this correspondence run, not by translation",
        "the isomorphism oracle: the model is parametric in `iso`; the run instantiates it with the verdicts of the Lean engine "
        "`isoDecide` on element/charge/order (C07), passed per ORDERED pair and not symmetrised; that NetworkX VF2 agrees with it is "
        "what the partition comparison exercises",
        "Driver/Cluster.lean JSON codec, harness/props/c13.py adapters and canonicalisation (partitions; labels only up to renaming "
        "of fresh classes); attribute values are computed by the harness, the adapter mirrors GraphCluster's `sorted(value)` on "
        "list attributes",
        "BatchCluster.fit's single-batch path picks one representative per class with the global `random`; the choice is not "
        "compared (any member isomorphic to the model's representative is accepted)",
    ]
    ctx.assumptions = [
        "every node carries element and charge and every edge carries order (as all corpus centres do), so the defaults of "
        "generic_node_match/generic_edge_match ('*', 0, 1) never apply",
        "pre-grouping attribute: None, a string, or a list of strings (the types GraphCluster accepts); template class numbers are ints; "
        "pre-existing templates are pairwise non-isomorphic with distinct class numbers",
        "backend 'nx' (the MØD backend is not installed)",
    ]
    ctx.gen_rule = (
        "regression corpus; malformed stream (empty list, batch_size 0); tiny-exhaustive: ALL lists of length <=4 (quick) / <=5 "
        "(thorough) over 5 two-atom graphs (an isomorphic pair, three near misses) with attribute none/elems/hash, reversed order, "
        "rotated arrival, optional template; corpus stream: multisets of 6-40 of the 100 vendored reaction centres with duplicates, "
        "relabelled copies (ids permuted, node/edge order shuffled), near misses (one bond order / charge / element changed), "
        "attribute kind none/elems/elems_unsorted/hash/size, random list order, random arrival order, pre-existing templates with "
        "non-contiguous (also negative) class numbers, batch sizes from {None,1,2,3,7,n,n+5}; a separately counted stream with a "
        "NON-invariant attribute (only impl = model)."
    )
    ctx.nontrivial_rule = "distinct as (pool, list, attribute, orders, templates, batch sizes); >= 2 classes and >= 1 class with >= 2 members in the model's one-shot clustering"
    build_and_audit(ctx, ["SynKitProofs.Props.C13"], "SynKitProofs/Audit/C13.lean", THEOREMS)

    corpus = [g for g in load_corpus() if all_present(g)]
    ctx.count("corpus_centres", len(corpus))
    rnd = ctx.rnd

    reg = load_regress()
    ctx.count("regress_cases", len(reg))
    evaluate(ctx, reg, "regress")
    evaluate(ctx, malformed_cases(corpus), "malformed")

    tiny = tiny_cases(4 if ctx.quick else 5)
    if len(ctx.violations) < 6:
        evaluate(ctx, tiny, "tiny-exhaustive")
    ctx.extra["exhaustive"] = not ctx.violations
    ctx.extra["exhaustive_part"] = f"all {len(tiny)} lists of length <= {4 if ctx.quick else 5} over the 5-graph alphabet"

    n_main = 320 if ctx.quick else 4000
    n_gc = 80 if ctx.quick else 800
    n_non = 50 if ctx.quick else 500
    cases = []
    for k in range(n_main):
        size = rnd.randint(6, 40) if k % 4 else rnd.randint(6, 14)
        attr = rnd.choice(["none", "none", "elems", "hash", "size"])
        cases.append(make_case(rnd, corpus, size, attr, with_templates=rnd.random() < 0.6))
    for k in range(n_gc):
        cases.append(make_case(rnd, corpus, rnd.randint(6, 40), "elems_unsorted", False, gc_only=True))
    non = [make_case(rnd, corpus, rnd.randint(4, 16), "noninv", False) for _ in range(n_non)]
    for c in cases + non:
        d, r, m = c["_stats"]
        ctx.count("duplicates", d)
        ctx.count("relabelled_copies", r)
        ctx.count("near_misses", m)
    if len(ctx.violations) < 6:
        fix_templates(cases, ctx.lean())
        evaluate(ctx, cases, "corpus")
    if len(ctx.violations) < 6:
        evaluate(ctx, non, "non-invariant-attribute")
    ctx.violations.sort(key=lambda v: v["no_input"])  # failing inputs first
    ctx.obligation("correspondence: GraphCluster.iterative_cluster/fit partitions impl == model; spec 'same class <=> iso verdict' and "
                   "order independence hold on the implementation's output", not ctx.violations)
    ctx.obligation("correspondence: BatchCluster.lib_check/cluster/fit impl == model up to renaming of fresh classes; incremental == "
                   "one-shot == batched; template classes respected", not ctx.violations)


def replay(ctx, case):
    c = case.get("case", case)
    evaluate(ctx, [dict(c)], "replay", shrink=False)

"""C13 — clustering partitions graphs exactly into isomorphism classes.

Lean side (Props/C13.lean): over an abstract equivalence `iso` and an iso-invariant key the model
of `GraphCluster.iterative_cluster` / `fit` and of `BatchCluster.lib_check` / `cluster` / `fit`
produces a partition with "same class <=> iso", independent of the list order, incremental =
one-shot = batched, and `lib_check` joins the class of the isomorphic representative or opens a
fresh class.

Correspondence (this file): reaction-centre lists are clustered by the real classes and by the
model; the model gets, for every ORDERED pair of graphs, the verdict of the Lean isomorphism
engine on element/charge/order (`isoDecide`, the function behind `match.iso`; never symmetrised
by the harness) and the attribute value the code compares.  Class labellings are compared only
through what the property determines: the partition, the identity of pre-existing template
classes, and freshness of new classes.  In addition the specification itself ("same class <=>
verdict true", order independence) is evaluated on the implementation's own output
(`cluster.spec`).

Representation: numbers that are == in Python (1, 1.0, numpy.int64(1), numpy.float64(1.0)) are one `Val.num` for the model.
A pool entry may record how the OBJECT spells each number ("as"), or be made by a route of the library at evaluation time
("rsmi": get_rc(rsmi_to_its(.)), "gml": gml_to_its(.)); `strip_repr` removes the spelling from what goes to Lean, so lists
that mix spellings / provenance have the same model answer as the plain ones (streams tiny-exhaustive-spellings,
spellings-and-provenance, predicate-direct-spellings).
"""
import copy
import hashlib
import itertools
import json
import numbers
from collections import OrderedDict

import networkx as nx
import numpy as np

from .. import graphio
from ..core import ROOT, build_and_audit, load_known, match_known
from ..shrink import shrink_seq

THEOREMS = [
    "SynKit.Cluster.cluster_partition",
    "SynKit.Cluster.same_class_iff",
    "SynKit.Cluster.cluster_perm_invariant",
    "SynKit.Cluster.cluster_perm_invariant_items",
    "SynKit.Cluster.libCheck_spec",
    "SynKit.Cluster.libCheck_joins_representative",
    "SynKit.Cluster.cluster_with_templates_spec",
    "SynKit.Cluster.incremental_eq_oneshot",
    "SynKit.Cluster.incremental_perm_invariant",
    "SynKit.Cluster.batched_eq_oneshot",
    "SynKit.Cluster.C13.full",
    "SynKit.Cluster.same_class_iff_on",
    "SynKit.Cluster.cluster_perm_invariant_on",
    "SynKit.Cluster.libCheck_joins_representative_on",
    "SynKit.Cluster.cluster_with_templates_spec_on",
    "SynKit.Cluster.incremental_same_class_iff_oneshot",
    "SynKit.Cluster.incremental_perm_invariant_on",
    "SynKit.Cluster.clIso_equiv_wf",
    "SynKit.Cluster.same_class_iff_iso",
    "SynKit.Cluster.cluster_perm_invariant_iso",
    "SynKit.Cluster.libCheck_spec_iso",
    "SynKit.Cluster.libCheck_joins_representative_iso",
    "SynKit.Cluster.cluster_with_templates_spec_iso",
    "SynKit.Cluster.incremental_perm_invariant_iso",
    "SynKit.Cluster.relabel_same_class_iso",
    "SynKit.Cluster.libCheck_relabel_joins_iso",
    "SynKit.Cluster.C13.full_iso",
    "SynKit.Cluster.clIso_iff",
    "SynKit.Cluster.clIso_equivOn",
    "SynKit.Cluster.nodeOk_norm_iff",
    "SynKit.Cluster.edgeOk_norm_iff",
    "SynKit.Cluster.get_withDefault",
    "SynKit.Cluster.clIso_relabel_left",
    "SynKit.Cluster.clIso_relabel_right",
]

SEL = {"node_keys": ["element", "charge"], "edge_keys": ["order"], "hcount": False}
# attribute kinds of the documented type variety (what GraphDescriptor writes: `cycle` is a list of ints, `atom_count` an
# OrderedDict element -> count, `rstep` an int), all computed by the harness and isomorphism-invariant AS THE CODE COMPARES THEM
TYPED_KINDS = ("degs", "elem_count", "elem_count_od", "elem_tuple", "elem_set")
# invariant attributes that are not iterable: an int, or the attribute key named in the call but carried by no entry
SCALAR_KINDS = ("n_nodes", "absent")
# the same values with their numbers spelled int / float / numpy.int64 / numpy.float64 from one graph to the next (== all the same)
NUMTYPE_KINDS = ("degs_numtype", "elem_count_numtype")
INVARIANT_KINDS = ("none", "elems", "elems_unsorted", "hash", "size", "degs_unsorted") + TYPED_KINDS + SCALAR_KINDS + NUMTYPE_KINDS
CLASS_SCALAR_ATTR = "gc_attribute_not_iterable"
CLASS_BACKEND_CASE = "backend_name_case"
ELEMENTS = ["C", "N", "O", "S", "H", "Br", "Cl", "P"]
# what generic_node_match(["element","charge"],["*",0]) / generic_edge_match("order",1) read for an ABSENT key
DEFAULTS_NODE = (("element", {"s": "*"}), ("charge", {"n": 0}))
DEFAULTS_EDGE = (("order", {"n": 2}),)
RC_NODE_KEYS = ("element", "charge", "atom_map")
RC_EDGE_KEYS = ("order", "standard_order")
# reactions in which no bond changes: get_rc(rsmi_to_its(.)) is an EMPTY graph
NO_CHANGE_RSMI = [
    "[CH3:1][OH:2]>>[CH3:1][OH:2]",
    "[OH2:1]>>[OH2:1]",
    "[CH3:1][CH2:2][Cl:3]>>[CH3:1][CH2:2][Cl:3]",
    "[NH3:1].[H+:2]>>[NH3:1].[H+:2]",
    "[CH2:1]=[CH2:2]>>[CH2:1]=[CH2:2]",
    "[CH3:1][C:2](=[O:3])[OH:4]>>[CH3:1][C:2](=[O:3])[OH:4]",
]
# reactions in which only charges / hydrogen counts change: get_rc(.., disconnected=True) is a
# single-node or an edgeless graph
CHARGE_ONLY_RSMI = [
    "[CH3:1][O-:2]>>[CH3:1][OH:2]",
    "[CH3:1][CH2:2][O-:3]>>[CH3:1][CH2:2][OH:3]",
    "[CH3:1][NH2:2]>>[CH3:1][NH3+:2]",
    "[CH3:1][S-:2]>>[CH3:1][SH:2]",
    "[O-:1][CH2:2][CH2:3][NH3+:4]>>[OH:1][CH2:2][CH2:3][NH2:4]",
    "[NH3+:1][CH2:2][CH2:3][CH2:4][O-:5]>>[NH2:1][CH2:2][CH2:3][CH2:4][OH:5]",
]


# ---------------------------------------------------------------- population
def load_corpus():
    j = json.loads((ROOT / "corpus" / "c13_rc.json").read_text())
    return [e["rc"] for e in j["items"]]


def all_present(gj):
    return all("element" in a and "charge" in a for _, a in gj["nodes"]) and all("order" in a for _, _, a in gj["edges"])


def relabel(gj, rnd):
    """Isomorphic copy: node ids permuted, node and edge insertion order shuffled, edge ends flipped."""
    ids = [n for n, _ in gj["nodes"]]
    new = rnd.sample(range(0, 60), len(ids))
    f = dict(zip(ids, new))
    nodes = [[f[n], dict(a)] for n, a in gj["nodes"]]
    edges = []
    for u, v, a in gj["edges"]:
        uu, vv = f[u], f[v]
        if rnd.random() < 0.5:
            uu, vv = vv, uu
        edges.append([uu, vv, dict(a)])
    rnd.shuffle(nodes)
    rnd.shuffle(edges)
    return {"nodes": nodes, "edges": edges}


def plain(gj):
    """The graph encoding alone (an entry made by the real pipeline also carries its reaction SMILES)."""
    return {"nodes": gj["nodes"], "edges": gj["edges"]}


# ---------------------------------------------------------------- representation of numbers
# A number of the encoding may carry "as": HOW the Python object given to the implementation spells it -- absent: int (float
# when it is a half), "float", "np_int" (numpy.int64), "np_float" (numpy.float64).  All of them are == in Python and ONE value
# `Val.num` in the model: `strip_repr` removes the mark from everything that goes to the Lean driver.
NUM_STYLES = ("int", "float_int0", "float", "int_float0", "np_int", "np_float", "per_value")
STR_ORDER = {0: "", 2: "-", 3: ":", 4: "=", 6: "#"}
STYLED_NODE_KEYS = ("charge", "atom_map", "hcount")
STYLED_EDGE_KEYS = ("order", "standard_order")
SPECTATOR_NAMES = ("weight", "label", "id", "name", "capacity")


def strip_repr(v):
    if isinstance(v, dict):
        if "n" in v:
            return {"n": v["n"]}
        if "t" in v:
            return {"t": [strip_repr(x) for x in v["t"]]}
    return v


def unval_t(j):
    """graphio.unval, honouring the representation mark."""
    if isinstance(j, dict) and "n" in j:
        h, a = j["n"], j.get("as")
        x = h // 2 if h % 2 == 0 else h / 2
        if a == "float":
            return float(x)
        if a == "np_float" or (a == "np_int" and h % 2):
            return np.float64(x)
        if a == "np_int":
            return np.int64(x)
        return x
    if isinstance(j, dict) and "t" in j:
        return tuple(unval_t(y) for y in j["t"])
    return graphio.unval(j)


def val_t(x):
    """graphio.val, recording the representation of numbers."""
    if isinstance(x, (tuple, list)):
        return {"t": [val_t(y) for y in x]}
    if isinstance(x, bool) or not isinstance(x, numbers.Real):
        return graphio.val(x)
    v = graphio.val(x)
    if isinstance(x, np.floating):
        v["as"] = "np_float"
    elif isinstance(x, np.integer):
        v["as"] = "np_int"
    elif isinstance(x, float) and v["n"] % 2 == 0:
        v["as"] = "float"
    return v


def graph_t(G, node_keys, edge_keys):
    return {"nodes": [[int(n), {str(k): val_t(v) for k, v in d.items() if k in node_keys}] for n, d in G.nodes(data=True)],
            "edges": [[int(u), int(v), {str(k): val_t(x) for k, x in d.items() if k in edge_keys}] for u, v, d in G.edges(data=True)]}


def to_nx_t(j):
    G = nx.Graph()
    for n, a in j["nodes"]:
        G.add_node(n, **{k: unval_t(v) for k, v in a.items()})
    for u, v, a in j["edges"]:
        G.add_edge(u, v, **{k: unval_t(x) for k, x in a.items()})
    return G


def _style_val(v, style, rnd):
    if isinstance(v, dict) and "n" in v:
        h = v["n"]
        a = {"int": None, "float": "float", "float_int0": "float" if h else None, "int_float0": None if h else "float",
             "np_int": "np_int", "np_float": "np_float"}[style] if style != "per_value" else \
            rnd.choice([None, "float", "np_int", "np_float"])
        return {"n": h} if a is None else {"n": h, "as": a}
    if isinstance(v, dict) and "t" in v:
        return {"t": [_style_val(x, style, rnd) for x in v["t"]]}
    return v


def _str_val(v):
    if isinstance(v, dict) and "n" in v:
        return {"s": STR_ORDER.get(v["n"], "o" + str(v["n"]))}
    if isinstance(v, dict) and "t" in v:
        return {"t": [_str_val(x) for x in v["t"]]}
    return v


def restyle(gj, style, rnd):
    """The same graph for the model (strip_repr gives the same encoding) with its numbers spelled another way:
    int: (1, 0) | float_int0: (1.0, 0) as in the pickled corpus | float: (1.0, 0.0) as get_rc(rsmi_to_its(.)) writes |
    int_float0: (1, 0.0) as gml_to_its writes | np_int / np_float: numpy scalars | per_value: every number on its own.
    Style "str" is a DIFFERENT graph for model and implementation alike: bond orders become the strings '-', '=', '#', ':', ''
    (the edge matcher is a generic `==`); two graphs styled "str" compare like their numeric originals."""
    g = copy.deepcopy(plain(gj))
    num = "int" if style == "str" else style
    for _, a in g["nodes"]:
        for k in STYLED_NODE_KEYS:
            if k in a:
                a[k] = _style_val(a[k], num, rnd)
    for e in g["edges"]:
        a = e[2]
        for k in STYLED_EDGE_KEYS:
            if k in a:
                if style == "str" and k == "order":
                    a[k] = _str_val(strip_repr(a[k]))
                elif k == "order" and "n" in a[k]:
                    # a SCALAR bond order is never a numpy scalar: numpy answers `numpy.int64(1) == (1, 2)` (a scalar order next
                    # to a pair order of another graph) with an ARRAY, whose truth value is an error inside the networkx matcher
                    # -- that is numpy's `==`, not the equality the property speaks of.  Inside a pair numpy scalars are fine.
                    a[k] = _style_val(a[k], {"np_int": "int", "np_float": "float"}.get(num, num), rnd)
                    if a[k].get("as", "float") != "float":
                        a[k] = {"n": a[k]["n"], "as": "float"}
                else:
                    a[k] = _style_val(a[k], num, rnd)
    return g


def add_spectators(g, rnd):
    """Attributes nobody selected, under names a library default might pick up (networkx reads `weight`, GML writers read
    `label` / `id` / `name`, flow routines `capacity`): falsy and differing values, on nodes and edges."""
    vals = [{"n": 0}, {"n": 0, "as": "float"}, {"s": ""}, {"n": 2}, {"n": 14}, {"s": "x"}, {"t": []}, {"n": 5, "as": "float"}]
    for part, pos in ((g["nodes"], 1), (g["edges"], 2)):
        for x in part:
            for name in SPECTATOR_NAMES:
                if rnd.random() < 0.3:
                    x[pos][name] = dict(rnd.choice(vals))
    return g


def norm_json(gj):
    """`SynKit.Cluster.norm` (SynKitProofs/ClusterIso.lean) on the JSON encoding: the default a matcher reads
    for an ABSENT key is written out ("*", 0 on nodes; 1 on edges); a key that is present is left alone."""
    def wd(a, defaults):
        a = {k: strip_repr(v) for k, v in a.items()}   # 1, 1.0, numpy.int64(1), numpy.float64(1.0): ONE Lean value
        for k, v in defaults:
            if k not in a:
                a[k] = v
        return a
    return {"nodes": [[n, wd(a, DEFAULTS_NODE)] for n, a in gj["nodes"]],
            "edges": [[u, v, wd(a, DEFAULTS_EDGE)] for u, v, a in gj["edges"]]}


def build_rc(rsmi, kw):
    """A reaction centre made by the real pipeline (only to obtain realistic graph OBJECTS; what it returns
    is encoded and judged by the Lean engine like every other graph)."""
    from synkit.IO.chem_converter import rsmi_to_its
    from synkit.Graph.ITS.its_decompose import get_rc
    return get_rc(rsmi_to_its(rsmi), **kw)


def rc_entry(rsmi, kw, typed=False):
    try:
        G = build_rc(rsmi, kw)
        enc = graph_t(G, RC_NODE_KEYS, RC_EDGE_KEYS) if typed else graphio.graph(G, RC_NODE_KEYS, RC_EDGE_KEYS)
    except Exception:  # the pipeline is not this property's concern: fall back to a plain empty graph
        return {"nodes": [], "edges": []}
    return {**enc, "rsmi": rsmi, "rc_kw": dict(kw), **({"typed": True} if typed else {})}


def build_gml(text):
    """A reaction centre read back from GML rule text by the real reader (again only to obtain the OBJECT that route makes:
    bond orders come back as (1, 0.0) / (0.0, 1), extra node attributes hcount / typesGH / aromatic / neighbors)."""
    from synkit.IO.chem_converter import gml_to_its
    return gml_to_its(text)


def gml_text(G):
    from synkit.IO.chem_converter import its_to_gml
    return its_to_gml(G)


def entry_graph(entry):
    """-> (the networkx object given to the implementation, the encoding of exactly that object)
    entry["rsmi"]: the object is made by get_rc(rsmi_to_its(.)); entry["gml"]: by gml_to_its(.); entry["typed"]: the encoding
    records how the object spells its numbers (so that copies derived from the encoding keep the spelling)."""
    enc_of = (lambda G: graph_t(G, RC_NODE_KEYS, RC_EDGE_KEYS)) if entry.get("typed") else \
             (lambda G: graphio.graph(G, RC_NODE_KEYS, RC_EDGE_KEYS))
    if "rsmi" in entry:
        try:
            G = build_rc(entry["rsmi"], entry.get("rc_kw") or {})
            extra = {"rsmi": entry["rsmi"], "rc_kw": entry.get("rc_kw") or {}}
            if entry.get("typed"):
                extra["typed"] = True
            return G, {**enc_of(G), **extra}
        except Exception:
            pass
    if "gml" in entry:
        try:
            G = build_gml(entry["gml"])
            return G, {**graph_t(G, RC_NODE_KEYS, RC_EDGE_KEYS), "gml": entry["gml"], "typed": True}
        except Exception:
            pass
    return to_nx_t(entry), entry


def _node(i, el, q=0):
    return [i, {"element": {"s": el}, "charge": {"n": 2 * q}}]


def degenerate(rnd):
    """Rare but legal reaction centres: empty, single-node, edgeless, one bond. -> (graph, kind)
    Small alphabets, so that isomorphic pairs between independent draws are common."""
    k = rnd.choice(["empty", "empty", "empty_rc", "empty_rc", "single", "single", "edgeless", "edgeless",
                    "rc_charge_only", "one_bond"])
    el = lambda: rnd.choice(["C", "C", "O", "N"])
    q = lambda: rnd.choice([0, 0, 0, -1, 1])
    if k == "empty":
        return {"nodes": [], "edges": []}, k
    if k == "empty_rc":
        return rc_entry(rnd.choice(NO_CHANGE_RSMI), {"disconnected": True} if rnd.random() < 0.3 else {}), k
    if k == "rc_charge_only":
        return rc_entry(rnd.choice(CHARGE_ONLY_RSMI), {"disconnected": True}), k
    if k == "single":
        return {"nodes": [_node(rnd.randrange(60), el(), q())], "edges": []}, k
    if k == "edgeless":
        ids = rnd.sample(range(60), rnd.randint(2, 4))
        return {"nodes": [_node(i, el(), q()) for i in ids], "edges": []}, k
    u, v = rnd.sample(range(60), 2)
    a, b = rnd.choice([(1, 2), (2, 1), (1, 0), (0, 1)])
    return {"nodes": [_node(u, el(), q()), _node(v, el(), q())],
            "edges": [[u, v, {"order": {"t": [{"n": 2 * a}, {"n": 2 * b}]}}]]}, k


def sym_ring(rnd):
    """A symmetric skeleton (ring of 4 or 6 equal atoms, uniform or alternating bond change) on which only two
    marks (a charge or a hetero atom) break the symmetry: their distance / their position relative to the
    alternating bonds decides the class."""
    n = rnd.choice([4, 4, 6])
    alt = rnd.random() < 0.5
    off = rnd.randrange(60 - n)
    nodes = [_node(off + i, "C") for i in range(n)]
    for pos in rnd.sample(range(n), 2):
        if rnd.random() < 0.5:
            nodes[pos][1]["charge"] = {"n": -2}
        else:
            nodes[pos][1]["element"] = {"s": "N"}
    edges = []
    for i in range(n):
        a, b = ((1, 2) if i % 2 == 0 else (2, 1)) if alt else (1, 2)
        edges.append([off + i, off + (i + 1) % n, {"order": {"t": [{"n": 2 * a}, {"n": 2 * b}]}}])
    return {"nodes": nodes, "edges": edges}


def derived(gj, rnd):
    """A graph derived from one that is (usually) in the same list: sub-graph on one node less, on one bond
    less, one atom isolated, a spectator atom added, one matched attribute dropped. -> (graph, kind)"""
    g = copy.deepcopy(plain(gj))
    kinds = ["add_isolated"]
    if g["nodes"]:
        kinds += ["drop_node", "drop_attr"]
    if g["edges"]:
        kinds += ["drop_edge", "isolate", "drop_attr"]
    k = rnd.choice(kinds)
    if k == "add_isolated":
        used = {n for n, _ in g["nodes"]}
        g["nodes"].append(_node(rnd.choice([i for i in range(61) if i not in used]), rnd.choice(["C", "O", "H"]),
                                rnd.choice([0, 0, -1])))
    elif k in ("drop_node", "isolate"):
        x = rnd.choice(g["nodes"])[0]
        g["edges"] = [e for e in g["edges"] if x not in (e[0], e[1])]
        if k == "drop_node":
            g["nodes"] = [n for n in g["nodes"] if n[0] != x]
    elif k == "drop_edge":
        g["edges"].pop(rnd.randrange(len(g["edges"])))
    else:  # one of the compared keys removed: the matcher reads its default instead
        if g["edges"] and rnd.random() < 0.4:
            rnd.choice(g["edges"])[2].pop("order", None)
        else:
            rnd.choice(g["nodes"])[1].pop(rnd.choice(["charge", "charge", "element"]), None)
    return g, k


def iso_variant(gj, rnd):
    """A copy that the property puts in the SAME class although its dicts differ: spectator attributes changed
    or added (also a node attribute called "order" and edge attributes called "element"/"charge"), a charge
    that equals the default 0 left out."""
    g = copy.deepcopy(plain(gj))
    for n in g["nodes"]:
        a = n[1]
        if rnd.random() < 0.5:
            a["atom_map"] = {"n": 2 * rnd.randrange(1, 90)}
        if rnd.random() < 0.4:
            a["order"] = {"n": rnd.choice([2, 3, 4])}
        if rnd.random() < 0.3:
            a["hcount"] = {"n": 2 * rnd.randrange(4)}
        if a.get("charge") == {"n": 0} and rnd.random() < 0.4:
            del a["charge"]
    for e in g["edges"]:
        a = e[2]
        if rnd.random() < 0.4:
            a["element"] = {"s": rnd.choice(ELEMENTS)}
        if rnd.random() < 0.4:
            a["charge"] = {"n": rnd.choice([-2, 0, 2])}
        if rnd.random() < 0.4:
            a["standard_order"] = {"n": rnd.choice([-2, 0, 2])}
    return relabel(g, rnd)


def near_miss(gj, rnd):
    """One bond order, one charge or one element changed. -> (graph, kind)"""
    g = copy.deepcopy(plain(gj))
    if not g["nodes"]:  # the nearest miss of an empty centre is a single atom
        return {"nodes": [_node(rnd.randrange(60), rnd.choice(["C", "O"]))], "edges": []}, "grow"
    for n in g["nodes"]:
        for key, dflt in DEFAULTS_NODE:
            n[1].setdefault(key, dict(dflt))
    for e in g["edges"]:
        e[2].setdefault("order", {"n": 2})
    kinds = ["charge", "element"] + (["order"] if g["edges"] else [])
    k = rnd.choice(kinds)
    if k == "order":
        e = rnd.choice(g["edges"])
        o = e[2]["order"]
        if "t" in o:
            t = [dict(x) for x in o["t"]]
            if len(t) == 2 and t[0] != t[1] and rnd.random() < 0.4:
                t = [t[1], t[0]]
            else:
                i = rnd.randrange(len(t))
                t[i] = {"n": (t[i]["n"] + 2) if t[i]["n"] < 6 else 2}
            e[2]["order"] = {"t": t}
        else:
            e[2]["order"] = {"n": (o["n"] + 2) if o["n"] < 6 else 2}
    elif k == "charge":
        n = rnd.choice(g["nodes"])
        n[1]["charge"] = {"n": n[1]["charge"]["n"] + rnd.choice([2, -2])}
    else:
        n = rnd.choice(g["nodes"])
        cur = n[1]["element"]["s"]
        n[1]["element"] = {"s": rnd.choice([e for e in ELEMENTS if e != cur])}
    return g, k


def _num(x):
    if isinstance(x, (tuple, list)):
        return tuple(_num(y) for y in x)
    return float(x) if isinstance(x, numbers.Real) and not isinstance(x, (bool, np.bool_)) else x


def attr_value(kind, G):
    """Iso-invariant attribute values computed by the harness (never by synkit code); an absent key is read
    with the matcher's default, as the isomorphism does."""
    if kind == "none":
        return None
    if kind == "elems":
        return sorted(str(d.get("element", "*")) for _, d in G.nodes(data=True))
    if kind == "elems_unsorted":  # GraphCluster sorts list attributes itself
        return [str(d.get("element", "*")) for _, d in G.nodes(data=True)]
    if kind == "size":
        return f"n{G.number_of_nodes()}e{G.number_of_edges()}"
    if kind == "hash":
        sig = sorted(
            (str(d.get("element", "*")), _num(d.get("charge", 0)), sorted(repr(_num(G.edges[n, m].get("order", 1))) for m in G[n]))
            for n, d in G.nodes(data=True)
        )
        return hashlib.md5(repr(sig).encode()).hexdigest()[:12]
    els = [str(d.get("element", "*")) for _, d in G.nodes(data=True)]
    if kind == "degs":            # list of ints, like GraphDescriptor's `cycle`
        return sorted(d for _, d in G.degree())
    if kind == "degs_unsorted":   # GraphCluster sorts it itself
        return [d for _, d in G.degree()]
    if kind == "elem_count":      # plain dict, insertion order = node order (dict equality ignores it)
        out = {}
        for e in els:
            out[e] = out.get(e, 0) + 1
        return out
    if kind == "elem_count_od":   # like GraphDescriptor's `atom_count`: OrderedDict sorted by key
        out = {}
        for e in els:
            out[e] = out.get(e, 0) + 1
        return OrderedDict(sorted(out.items()))
    if kind in NUMTYPE_KINDS:     # which spelling: decided by the node ids, so that relabelled copies differ in it
        cast = [int, float, np.int64, np.float64][(sum(G.nodes) + G.number_of_nodes()) % 4]
        if kind == "degs_numtype":
            return [cast(d) for d in sorted(d for _, d in G.degree())]
        out = {}
        for e in els:
            out[e] = out.get(e, 0) + 1
        return {e: cast(c) for e, c in out.items()}
    if kind == "elem_tuple":
        return tuple(sorted(els))
    if kind == "elem_set":
        return frozenset(els)
    if kind == "n_nodes":         # an int, like GraphDescriptor's `rstep`
        return G.number_of_nodes()
    if kind == "absent":          # attribute_key is given (or left at its default) but no entry carries it
        return None
    raise ValueError(kind)


def _scalar(v):
    return v is None or isinstance(v, (bool, int, float))


def _pynum(v):
    """3, 3.0, numpy.int64(3), numpy.float64(3.0) are ONE key for `==` (and for the model): the plain int."""
    if isinstance(v, (bool, np.bool_)) or not isinstance(v, numbers.Real):
        return v
    f = float(v)
    return int(f) if f == int(f) else f


def key_json(v):
    """An attribute value as JSON such that rendering equality == Python `==` among values of ONE kind
    (what BatchCluster.lib_check compares)."""
    if isinstance(v, numbers.Real):
        return _pynum(v)
    if _scalar(v) or isinstance(v, str):
        return v
    if isinstance(v, OrderedDict):   # OrderedDict == OrderedDict is order sensitive
        return {"od": [[key_json(k), key_json(x)] for k, x in v.items()]}
    if isinstance(v, dict):
        return {"d": sorted([key_json(k), key_json(x)] for k, x in v.items())}
    if isinstance(v, (set, frozenset)):
        return {"set": sorted(key_json(x) for x in v)}
    return [key_json(x) for x in v]


def gc_key(values):
    """What GraphCluster.iterative_cluster compares: strings as they are, other values sorted."""
    if values is None:
        return None
    if isinstance(values[0], str):
        return [key_json(v) for v in values]
    # sorted(dict) = its sorted keys, sorted(set / tuple) = a sorted list; a value that is not iterable (the code as it is
    # raises TypeError there, class CLASS_SCALAR_ATTR) is its own key
    return [_pynum(v) if _scalar(v) else sorted(_pynum(x) for x in v) for v in values]


# ---------------------------------------------------------------- a case
def case_values(case, graphs):
    """Attribute value per pool entry (None when kind is 'none')."""
    if case["attr"] == "none":
        return None
    if case["attr"] == "noninv":
        return case["attr_vals"]
    return [attr_value(case["attr"], G) for G in graphs]


def partition(labels):
    d = {}
    for i, l in enumerate(labels):
        d.setdefault(json.dumps(l), []).append(i)
    return sorted(d.values())


def canon_labels(labels, tcls):
    """Labels up to what the property fixes: a pre-existing template class keeps its number,
    fresh classes are numbered by first appearance."""
    fresh, out = {}, []
    for l in labels:
        if l in tcls:
            out.append(["T", l])
        else:
            if json.dumps(l) not in fresh:
                fresh[json.dumps(l)] = len(fresh)
            out.append(["F", fresh[json.dumps(l)]])
    return out


def invert(perm, labels):
    out = [None] * len(perm)
    for k, p in enumerate(perm):
        out[p] = labels[k]
    return out


# ---------------------------------------------------------------- implementation adapters
def _exc(f):
    try:
        return f()
    except IndexError:
        return {"error": "IndexError"}
    except ValueError:
        return {"error": "ValueError"}
    except TypeError as e:
        return {"error": "TypeError", "message": str(e)}


_SHARED = {}
OPTS = {  # the same selection (element, charge | order), spelled differently
    "default": {},
    "perm": {"node_label_names": ["charge", "element"], "node_label_default": [0, "*"]},
    "explicit": {"node_label_names": ["element", "charge"], "node_label_default": ["*", 0], "edge_attribute": "order",
                 "backend": "nx"},
}


def inst(kind, case):
    """GraphCluster / BatchCluster instance of a case: a fresh one, or (case["shared"]) ONE instance per option
    set that serves every such case of the run, so that state kept between calls would show."""
    from synkit.Graph.Matcher.graph_cluster import GraphCluster
    from synkit.Graph.Matcher.batch_cluster import BatchCluster

    case = case or {}
    opts = case.get("opts") or "default"
    mk = lambda: (GraphCluster if kind == "gc" else BatchCluster)(**copy.deepcopy(OPTS[opts]))
    if not case.get("shared"):
        return mk()
    if (kind, opts) not in _SHARED:
        _SHARED[(kind, opts)] = mk()
    return _SHARED[(kind, opts)]


def call_cfg(case, has_attr, route="fit"):
    """How a case addresses the public API -> (rule key, attribute key, style, strip, decoys).
    case["call"] = {"style": "kw" | "pos" | "default", "rk": name, "ak": name, "strip": bool}; without it: keywords,
    keys "gml" / "att" (what every older stream does).  Style "default" leaves rule_key / attribute_key out of the call, so
    the graphs sit under "gml" and the attribute under the default of the entry point asked (`route`): "WLHash" for
    GraphCluster.fit / BatchCluster.cluster / fit, "signature" for BatchCluster.lib_check."""
    c = (case or {}).get("call")
    if not c:
        return "gml", ("att" if has_attr else None), "kw", False, False
    style = c.get("style", "kw")
    if style == "default":
        rk, ak = "gml", ("WLHash" if route == "fit" else "signature")
    else:
        rk, ak = c.get("rk", "gml"), c.get("ak", "att")
    return rk, (ak if has_attr else None), style, bool(c.get("strip")), True


def _decoy_graph():
    G = nx.Graph()
    G.add_node(0, element="Xx", charge=0)
    return G


def _entry(d, g, rk, ak, decoys, k):
    """Decoys: under every well-known key that the call does NOT name sits something that would wreck the partition if the
    code read it (one and the same graph under "gml"; a string unique to the list position under the attribute keys)."""
    if decoys:
        if rk != "gml":
            d["gml"] = _decoy_graph()
        for name in ("WLHash", "signature", "att"):
            if name != ak:
                d[name] = f"decoy-{k}"
    d[rk] = g


def impl_iter(graphs, values, case=None):
    gc = inst("gc", case)
    vals = None if values is None else list(values)
    if ((case or {}).get("call") or {}).get("style") == "pos" or not (case or {}).get("call"):
        clusters, r2c = gc.iterative_cluster(list(graphs), vals, gc.nodeMatch, gc.edgeMatch)
    else:
        clusters, r2c = gc.iterative_cluster(rules=list(graphs), attributes=vals, nodeMatch=gc.nodeMatch, edgeMatch=gc.edgeMatch)
    return [sorted(c) for c in clusters], {int(k): v for k, v in r2c.items()}


def mk_data(graphs, pids, values, stale=False, case=None, route="fit"):
    rk, ak, _, _, decoys = call_cfg(case, values is not None, route)
    out = []
    for k, (g, p) in enumerate(zip(graphs, pids)):
        d = {}
        _entry(d, g, rk, ak, decoys, k)
        d["pid"] = p
        if stale:  # a left-over classification from an earlier run must not matter
            d["class"] = 700 + p
        if values is not None and not (decoys and values[p] is None):  # kind "absent": no entry carries the key
            d[ak] = values[p]
        out.append(d)
    return out


def impl_gc_fit(data, has_attr, case=None):
    rk, ak, style, strip, _ = call_cfg(case, has_attr, "fit")
    extra = {"strip": True} if strip else {}   # `strip` concerns GML strings only; a no-op on graph objects

    def f():
        g = inst("gc", case)
        if style == "pos":
            res = g.fit(data, rk, ak, True) if strip else g.fit(data, rk, ak)
        elif style == "default":
            res = g.fit(data, **({} if has_attr else {"attribute_key": None}), **extra)
        else:
            res = g.fit(data, rule_key=rk, attribute_key=ak, **extra)
        return {"classes": [e.get("class") for e in res]}
    return _exc(f)


def mk_templates(pool_graphs, templates, values, case=None, route="fit"):
    rk, ak, _, _, decoys = call_cfg(case, values is not None, route)
    out = []
    for k, (p, c) in enumerate(templates):
        d = {}
        _entry(d, pool_graphs[p], rk, ak, decoys, f"t{k}")
        d["pid"] = p
        d["class"] = c
        if values is not None and not (decoys and values[p] is None):
            d[ak] = values[p]
        out.append(d)
    return out


def impl_bc_cluster(data, templates, has_attr, one_by_one=False, case=None):
    """`data` / `templates` must have been made for the same route ("lib" when one_by_one, else "fit").
    An exception on these legal inputs is an outcome ({"error": ...}: no classes assigned), not a harness crash."""
    try:
        return _impl_bc_cluster(data, templates, has_attr, one_by_one, case)
    except (TypeError, AttributeError, KeyError, IndexError, ValueError) as e:
        return {"classes": [None] * len(data), "templates": [], "error": f"{type(e).__name__}: {e}"}


def _impl_bc_cluster(data, templates, has_attr, one_by_one, case):
    bc = inst("bc", case)
    rk, ak, style, _, _ = call_cfg(case, has_attr, "lib" if one_by_one else "fit")
    opt = {} if has_attr else {"attribute_key": None}
    if one_by_one:
        ts = templates
        kw = {}
        if (case or {}).get("explicit_match"):  # the matchers handed over instead of taken from the instance
            g = inst("gc", case)
            kw = {"nodeMatch": g.nodeMatch, "edgeMatch": g.edgeMatch}
        for e in data:
            if style == "pos":
                _, ts = bc.lib_check(e, ts, rk, ak, **kw)
            elif style == "default":
                _, ts = bc.lib_check(e, ts, **opt, **kw)
            else:
                _, ts = bc.lib_check(e, ts, rule_key=rk, attribute_key=ak, **kw)
        res = data
    elif style == "pos":
        res, ts = bc.cluster(data, templates, rk, ak)
    elif style == "default":
        res, ts = bc.cluster(data, templates, **opt)
    else:
        res, ts = bc.cluster(data, templates, rule_key=rk, attribute_key=ak)
    return {"classes": [e.get("class") for e in res], "templates": [[t["pid"], t["class"]] for t in (ts or [])]}


def impl_bc_fit(data, templates, has_attr, batch_size, case=None):
    rk, ak, style, _, _ = call_cfg(case, has_attr, "fit")

    def f():
        bc = inst("bc", case)
        if style == "pos":
            res, ts = bc.fit(data, templates, rk, ak, batch_size)
        elif style == "default":
            res, ts = bc.fit(data, templates, batch_size=batch_size, **({} if has_attr else {"attribute_key": None}))
        else:
            res, ts = bc.fit(data, templates, rule_key=rk, attribute_key=ak, batch_size=batch_size)
        return {"classes": [e.get("class") for e in res], "templates": [[t["pid"], t["class"]] for t in ts]}
    return _exc(f)


# ---------------------------------------------------------------- evaluation of cases
def lean_pool(pool):
    """What the Lean engine is asked about: the encodings with the matchers' defaults written out."""
    return [norm_json(g) for g in pool]


def matrix_request(case):
    return {"cmd": "cluster.isomatrix", "graphs": lean_pool(case["pool"]), **SEL}


def keyjson(values, sort_lists):
    if values is None:
        return None
    return gc_key(values) if sort_lists else [key_json(v) for v in values]


def plan(case, iso):
    """Model requests of a case, as a list of (tag, request)."""
    pool_n = len(case["pool"])
    values = case.get("_values")
    kg = keyjson(values, True) or [None] * pool_n
    kb = keyjson(values, False) or [None] * pool_n
    items = case["items"]
    base_g = {"iso": iso, "keys": kg}
    base_b = {"iso": iso, "keys": kb}
    reqs = [("iter", {"cmd": "cluster.iter", **base_g, "items": items})]
    if case.get("gc_only"):
        return reqs
    arr = [items[p] for p in case["arrival"]]
    reqs.append(("run_empty", {"cmd": "cluster.run", **base_b, "items": arr, "templates": []}))
    if case["templates"]:
        reqs.append(("run_tmpl", {"cmd": "cluster.run", **base_b, "items": arr, "templates": case["templates"]}))
    for bs in case["batch_sizes"]:
        reqs.append((f"fit_none_{bs}", {"cmd": "cluster.fit", **base_b, "items": items, "templates": None, "batch_size": bs}))
        if case["templates"]:
            reqs.append((f"fit_tmpl_{bs}", {"cmd": "cluster.fit", **base_b, "items": items, "templates": case["templates"], "batch_size": bs}))
    return reqs


def prepare(case):
    built = [entry_graph(g) for g in case["pool"]]
    graphs = [G for G, _ in built]
    case["pool"] = [e for _, e in built]
    case["_graphs"] = graphs
    case["_values"] = case_values(case, graphs)
    return case


def public(case):
    return {k: v for k, v in case.items() if not k.startswith("_")}


class SpecBatch:
    """Collects `cluster.spec` requests of many cases so that they go to the driver in one call."""

    def __init__(self):
        self.reqs, self.cbs = [], []

    def ask(self, req, cb):
        self.reqs.append(req)
        self.cbs.append(cb)

    def flush(self, lean):
        if self.reqs:
            for rep, cb in zip(lean.ok(self.reqs, shards=8), self.cbs):
                cb(rep)
        self.reqs, self.cbs = [], []


def judge(ctx, case, iso, replies, sb):
    """Compare implementation and model on one case.
    -> list of failures {"what", "spec": True|None, "detail"}; spec=True means the property's own
    predicate (evaluated by the Lean command `cluster.spec` on the implementation's output) is
    violated on this input.  The list is final only after `sb.flush(...)`."""
    fails = []
    graphs, values = case["_graphs"], case["_values"]
    items = case["items"]
    n = len(items)
    glist = [graphs[p] for p in items]
    has_attr = values is not None
    invariant = case["attr"] in INVARIANT_KINDS
    stale = bool(case.get("stale_class"))
    rep = dict(zip([t for t, _ in plan(case, iso)], replies))

    scalar = case["attr"] in SCALAR_KINDS
    empty_t = (lambda: None) if case.get("none_templates") else (lambda: [])   # "no templates yet": None or []

    def add(what, spec_violated, detail, classes=()):
        f = {"what": what, "spec": spec_violated, "detail": detail, "classes": sorted(classes)}
        fails.append(f)
        return f

    def not_iterable(r, where):
        """A scalar / absent attribute makes the one-shot path raise TypeError in `sorted(value)`: the property gives every
        item a class for ANY isomorphism-invariant attribute, so this is a violation of its own, under a class name."""
        if scalar and isinstance(r, dict) and r.get("error") == "TypeError":
            add(f"{where}: raises TypeError on an isomorphism-invariant attribute that is not iterable (an int, or the named "
                "attribute key carried by no entry) instead of assigning classes", True,
                {"raised": r.get("message"), "attribute_values": sorted({repr(values[p]) for p in items})[:6]},
                classes=[CLASS_SCALAR_ATTR])
            return True
        return False

    def spec_gate(classes, its, templates, what, detail):
        """the specification on the implementation's labelling; a failure is a spec violation"""
        if not invariant:
            return
        def cb(r):
            if not r["ok"]:
                add(what, True, {**detail, "kind": r["kind"], "witness_positions": r["witness"], "classes": classes})
        sb.ask({"cmd": "cluster.spec", "iso": iso, "items": its, "classes": classes, "templates": templates or []}, cb)

    def differs(what, classes, its, templates, detail):
        """impl != model: is the specification violated by what the implementation returned?"""
        f = add(what, None, detail)
        if invariant and classes is not None and None not in classes:
            def cb(r):
                if not r["ok"]:
                    f["spec"] = True
            sb.ask({"cmd": "cluster.spec", "iso": iso, "items": its, "classes": classes, "templates": templates or []}, cb)

    # ---- GraphCluster.iterative_cluster / fit
    m = rep["iter"]
    impl_cls = []
    if n == 0:
        r = _exc(lambda: impl_iter(glist, None, case))
        if not (isinstance(r, dict) and r == m):
            add("GraphCluster.iterative_cluster on an empty list: outcome differs from the model", None, {"impl": str(r), "model": m})
        r = impl_gc_fit([], has_attr, case)
        if r != m:
            add("GraphCluster.fit on an empty list: outcome differs from the model", None, {"impl": r, "model": m})
    else:
        vals_list = None if not has_attr else [values[p] for p in items]
        r = _exc(lambda: impl_iter(glist, vals_list, case))
        if isinstance(r, dict):
            impl_cls = None
            if not not_iterable(r, "GraphCluster.iterative_cluster"):
                add("GraphCluster.iterative_cluster: raised on a non-empty list", None, {"impl": r, "model": m})
            r = impl_gc_fit(mk_data(glist, items, values, stale, case), has_attr, case)
            if not not_iterable(r, "GraphCluster.fit") and ("error" in r or None in r["classes"]
                                                            or partition(r["classes"]) != partition(m["classes"])):
                differs("GraphCluster.fit: classes differ from the proven model (as a partition)", r.get("classes"), items, None,
                        {"impl": r, "model": m["classes"]})
    if n > 0 and impl_cls is not None:
        clusters, r2c = r
        impl_cls = [r2c.get(i) for i in range(n)]
        # partition clause on the implementation's own output
        flat = sorted(x for c in clusters for x in c)
        if flat != list(range(n)) or any(not c for c in clusters) or None in impl_cls \
                or sorted(clusters) != partition(impl_cls):
            add("iterative_cluster: clusters are not a partition of the index set agreeing with rule_to_cluster", True,
                {"clusters": clusters, "rule_to_cluster": impl_cls})
        model_part = partition(m["classes"])
        ctx.count("classes_per_list:" + (str(len(model_part)) if len(model_part) < 10 else "10+"))
        spec_gate(impl_cls, items, None,
                  "iterative_cluster: two items share a class although the isomorphism verdict is false, or are separated although it is true", {})
        if partition(impl_cls) != model_part:
            differs("iterative_cluster: partition differs from the proven model", impl_cls, items, None,
                    {"impl": partition(impl_cls), "model": model_part})
        if sorted(sorted(c) for c in m["clusters"]) != sorted(clusters):
            add("iterative_cluster: cluster sets differ from the proven model", None, {"impl": sorted(clusters), "model": m["clusters"]})
        if impl_cls == m["classes"]:
            ctx.count("numbering_equal_to_model")
        data0 = mk_data(glist, items, values, stale, case)
        r = impl_gc_fit(data0, has_attr, case)
        if "error" in r or None in r["classes"] or partition(r["classes"]) != model_part:
            differs("GraphCluster.fit: classes differ from the proven model (as a partition)", r.get("classes"), items, None,
                    {"impl": r, "model": m["classes"]})
        if case.get("repeat"):  # the same query again: same instance, the dicts it has already classified
            r = impl_gc_fit(data0, has_attr, case)
            if "error" in r or None in r["classes"] or partition(r["classes"]) != model_part:
                differs("GraphCluster.fit asked the same question a second time: classes differ from the proven model",
                        r.get("classes"), items, None, {"impl": r, "model": m["classes"]})
        # order independence on the implementation itself
        perm = case["perm"]
        sh_items = [items[p] for p in perm]
        r2 = impl_gc_fit(mk_data([graphs[p] for p in sh_items], sh_items, values, stale, case), has_attr, case)
        if invariant and ("error" in r2 or partition(invert(perm, r2["classes"])) != partition(impl_cls)):
            add("GraphCluster.fit: partition depends on the order of the list", True,
                {"order": perm, "original": partition(impl_cls),
                 "shuffled_unshuffled": None if "error" in r2 else partition(invert(perm, r2["classes"]))})
    if case.get("gc_only"):
        return fails

    T = case["templates"]
    if n > 0:
        # ---- BatchCluster.cluster / lib_check, incremental arrival from empty templates
        arrival = case["arrival"]
        arr_items = [items[p] for p in arrival]
        arr_graphs = [graphs[p] for p in arr_items]
        mm = rep["run_empty"]
        for one in (False, True):
            route = "lib" if one else "fit"
            data0 = mk_data(arr_graphs, arr_items, values, stale, case, route)
            r = impl_bc_cluster(data0, empty_t(), has_attr, one_by_one=one, case=case)
            name = "BatchCluster.lib_check (item by item)" if one else "BatchCluster.cluster"
            if "error" in r:
                add(f"{name} from {'templates=None' if case.get('none_templates') else 'empty templates'}: raises instead of "
                    "assigning classes", True, {"arrival": arrival, "raised": r["error"]})
                continue
            if case.get("repeat"):  # the same arrival stream again from empty templates, dicts already classified
                rr = impl_bc_cluster(data0, empty_t(), has_attr, one_by_one=one, case=case)
                if rr != r:
                    differs(f"{name} from empty templates, asked a second time: outcome differs from the first", rr["classes"],
                            arr_items, None, {"arrival": arrival, "first": r, "second": rr})
            spec_gate(r["classes"], arr_items, None, f"{name} from empty templates: classes do not follow the isomorphism verdicts",
                      {"arrival": arrival})
            if None in r["classes"] or canon_labels(r["classes"], set()) != canon_labels(mm["classes"], set()):
                differs(f"{name} from empty templates: partition differs from the proven model", r["classes"], arr_items, None,
                        {"arrival": arrival, "impl": r["classes"], "model": mm["classes"]})
            elif invariant and impl_cls is not None and partition(invert(arrival, r["classes"])) != partition(impl_cls):
                add(f"{name}: incremental classification in this arrival order differs from one-shot clustering", True,
                    {"arrival": arrival, "incremental": partition(invert(arrival, r["classes"])), "oneshot": partition(impl_cls)})
            if not tmpl_agree(r["templates"], r["classes"], mm["templates"], mm["classes"], set(), iso):
                add(f"{name} from empty templates: resulting templates are not one representative per class as in the model", None,
                    {"impl": r["templates"], "model": mm["templates"]})
        # ---- with pre-existing templates (non-contiguous class numbers, pairwise non-isomorphic)
        if T:
            tcls = {c for _, c in T}
            mm = rep["run_tmpl"]
            for one in (False, True):
                route = "lib" if one else "fit"
                r = impl_bc_cluster(mk_data(arr_graphs, arr_items, values, stale, case, route),
                                    mk_templates(graphs, T, values, case, route), has_attr, one_by_one=one, case=case)
                name = "BatchCluster.lib_check (item by item)" if one else "BatchCluster.cluster"
                if "error" in r:
                    add(f"{name} with templates: raises instead of assigning classes", True,
                        {"arrival": arrival, "templates": T, "raised": r["error"]})
                    continue
                spec_gate(r["classes"], arr_items, T,
                          f"{name} with templates: an item is not in the class of its isomorphic representative / not in a fresh "
                          "class / classes do not follow isomorphism", {"templates": T, "arrival": arrival})
                if None in r["classes"] or canon_labels(r["classes"], tcls) != canon_labels(mm["classes"], tcls):
                    differs(f"{name} with templates: classes differ from the proven model", r["classes"], arr_items, T,
                            {"arrival": arrival, "impl": r["classes"], "model": mm["classes"], "templates": T})
                if not tmpl_agree(r["templates"], r["classes"], mm["templates"], mm["classes"], tcls, iso):
                    add(f"{name} with templates: resulting template list differs from the model", None,
                        {"impl": r["templates"], "model": mm["templates"]})
    # ---- BatchCluster.fit, batched vs one-shot
    for bs in case["batch_sizes"]:
        for tag, tm in ((f"fit_none_{bs}", None), (f"fit_tmpl_{bs}", T)):
            if tag not in rep:
                continue
            mm = rep[tag]
            tcls = {c for _, c in (tm or [])}
            impl_t = None if tm is None else mk_templates(graphs, tm, values, case)
            if tm is None and case.get("empty_list_templates"):
                impl_t = []
            r = impl_bc_fit(mk_data(glist, items, values, stale, case), impl_t, has_attr, bs, case)
            if "error" not in mm and not_iterable(r, f"BatchCluster.fit(batch_size={bs}), single batch without templates (the "
                                                  "GraphCluster.fit route)"):
                continue
            if "error" in r or "error" in mm:
                if {k: v for k, v in r.items() if k != "message"} != mm:
                    add(f"BatchCluster.fit(batch_size={bs}): outcome differs from the model", None, {"impl": r, "model": mm})
                continue
            spec_gate(r["classes"], items, tm, f"BatchCluster.fit(batch_size={bs}): classes do not follow isomorphism / template classes",
                      {"templates": tm})
            if invariant and tm is None and impl_cls is not None and partition(r["classes"]) != partition(impl_cls):
                add(f"BatchCluster.fit(batch_size={bs}): batched classification differs from one-shot clustering", True,
                    {"batched": partition(r["classes"]), "oneshot": partition(impl_cls)})
            if None in r["classes"] or canon_labels(r["classes"], tcls) != canon_labels(mm["classes"], tcls):
                differs(f"BatchCluster.fit(batch_size={bs}): classes differ from the proven model", r["classes"], items, tm,
                        {"impl": r["classes"], "model": mm["classes"], "templates": tm})
            if not tmpl_agree(r["templates"], r["classes"], mm["templates"], mm["classes"], tcls, iso):
                add(f"BatchCluster.fit(batch_size={bs}): resulting templates differ from the model (one representative per class)", None,
                    {"impl": r["templates"], "model": mm["templates"]})
    return fails


def tmpl_agree(it, icls, mt, mcls, tcls, iso):
    """Template lists agree up to what is determined: same classes (canonically renamed through the
    data labellings), one template per class, representatives isomorphic by the Lean verdict."""
    def canon_map(labels):
        fresh, mp = 0, {}
        for l in labels:
            if l in tcls:
                mp[l] = ("T", l)
            elif l not in mp:
                mp[l] = ("F", fresh)
                fresh += 1
        return mp
    ci, cm = canon_map(icls), canon_map(mcls)
    for c in tcls:
        ci.setdefault(c, ("T", c))
        cm.setdefault(c, ("T", c))
    try:
        a = sorted((ci[c], p) for p, c in it)
        b = sorted((cm[c], p) for p, c in mt)
    except KeyError:
        return False
    if [x for x, _ in a] != [x for x, _ in b]:
        return False
    return all(iso[pb][pa] and iso[pa][pb] for (_, pa), (_, pb) in zip(a, b))


def nontrivial_case(model_classes):
    part = partition(model_classes)
    return len(part) >= 2 and any(len(c) >= 2 for c in part)


def evaluate(ctx, cases, stream, shrink=True):
    """Run a list of cases with three batched driver rounds: verdict matrices, cluster commands,
    specification verdicts on the implementation's outputs."""
    if not cases:
        return
    lean = ctx.lean()
    for c in cases:
        prepare(c)
    keys = {}
    for c in cases:  # identical pools share one matrix request
        if "_iso" not in c:
            keys.setdefault(json.dumps(lean_pool(c["pool"]), sort_keys=True), None)
    klist = list(keys)
    mats = lean.ok([{"cmd": "cluster.isomatrix", "graphs": json.loads(k), **SEL} for k in klist], shards=8)
    keys = dict(zip(klist, mats))
    isos = [c["_iso"] if "_iso" in c else keys[json.dumps(lean_pool(c["pool"]), sort_keys=True)] for c in cases]
    plans = [plan(c, iso) for c, iso in zip(cases, isos)]
    replies = lean.ok([r for p in plans for _, r in p], shards=8)
    pos = 0
    sb = SpecBatch()
    results = []
    for c, iso, p in zip(cases, isos, plans):
        rs = replies[pos:pos + len(p)]
        pos += len(p)
        fails = judge(ctx, c, iso, rs, sb)
        results.append((c, iso, fails))
        m = rs[0]
        nt = "classes" in m and nontrivial_case(m["classes"])
        ctx.count(f"stream:{stream}")
        ctx.count("attr:" + c["attr"])
        ctx.count("list_size:" + (str(len(c["items"])) if len(c["items"]) < 10 else f"{len(c['items']) // 10 * 10}+"))
        if c["templates"]:
            ctx.count("cases_with_preexisting_templates")
        if not c.get("gc_only"):
            for bs in c["batch_sizes"]:
                ctx.count(f"batch_size:{bs}")
        ctx.case([c["pool"], c["items"], c["attr"], c.get("attr_vals"), c["perm"], c["arrival"], c["templates"], c["batch_sizes"]],
                 nt, sample={"stream": stream, "items": c["items"], "attr": c["attr"], "pool_size": len(c["pool"]),
                             "templates": c["templates"], "batch_sizes": c["batch_sizes"],
                             "model_classes": m.get("classes")} if 4 <= len(c["items"]) <= 8 else None)
    sb.flush(lean)
    # cases on which the specification itself is violated are reported (and shrunk) first
    results.sort(key=lambda r: not any(f["spec"] for f in r[2]))
    done = ctx.__dict__.setdefault("_c13_classes_reported", set())
    for c, iso, fails in results:
        # a failure under a class name (a defect with an identity of its own) is reported once per run, on its own minimised
        # input, and never hides an unnamed failure of the same case
        rest = [f for f in fails if not f.get("classes")]
        named = [f for f in fails if f.get("classes") and not set(f["classes"]) <= done]
        if rest:
            report(ctx, c, iso, rest, stream, shrink, pick=lambda f: not f.get("classes"))
        if named:
            cl = set(named[0]["classes"])
            done |= cl
            report(ctx, c, iso, named, stream, shrink, pick=lambda f, cl=cl: bool(cl & set(f.get("classes") or ())))
        if len(ctx.violations) >= 6:
            return


def restrict(case, keep):
    """Sub-case on the list positions `keep` (orders induced)."""
    keep = list(keep)
    idx = {p: k for k, p in enumerate(keep)}
    c = {k: v for k, v in case.items() if not k.startswith("_")}
    c["items"] = [case["items"][p] for p in keep]
    c["perm"] = [idx[p] for p in case["perm"] if p in idx]
    c["arrival"] = [idx[p] for p in case["arrival"] if p in idx]
    return prepare(c)


def report(ctx, case, iso, fails, stream, shrink, pick=lambda f: True):
    lean = ctx.lean()
    spec_fail = [f for f in fails if f["spec"]]
    target = spec_fail[0] if spec_fail else fails[0]
    want_spec = bool(spec_fail)

    def fails_on(keep):
        if not keep:
            return False
        c = restrict(case, keep)
        rs = lean.ok([r for _, r in plan(c, iso)])
        sb = SpecBatch()
        fs = judge(_Quiet(ctx), c, iso, rs, sb)
        sb.flush(lean)
        fs = [f for f in fs if pick(f)]
        return any(f["spec"] for f in fs) if want_spec else bool(fs)

    keep = list(range(len(case["items"])))
    if shrink and len(keep) > 1:
        keep = shrink_seq(keep, fails_on, budget=80)
    small = restrict(case, keep)
    rs = lean.ok([r for _, r in plan(small, iso)])
    sb = SpecBatch()
    fs = judge(_Quiet(ctx), small, iso, rs, sb)
    sb.flush(lean)
    fs = [f for f in fs if pick(f)] or fails
    spec2 = [f for f in fs if f["spec"]]
    t = spec2[0] if spec2 else fs[0]
    used = sorted(set(small["items"]) | {p for p, _ in small["templates"]})
    detail = {"stream": stream, "failure": t["detail"], "all_failures": [f["what"] for f in fs][:8],
              "original_list_length": len(case["items"]),
              "verdict_matrix_on_used_pool_entries": {str(a): {str(b): iso[a][b] for b in used} for a in used},
              "model": {tag: r for (tag, _), r in zip(plan(small, iso), rs)}}
    if spec2:
        ctx.violation(t["what"], public(small), detail, classes=t.get("classes") or ())
    else:
        ctx.violation("correspondence broke (specification holds on the implementation's output or is not applicable): " + t["what"],
                      public(small), detail, no_input=True)


class _Quiet:
    """ctx stand-in for re-evaluations during shrinking (no accounting)."""

    def __init__(self, ctx):
        self._ctx = ctx

    def count(self, *a, **k):
        pass


# ---------------------------------------------------------------- generators
def make_case(rnd, corpus, size, attr, with_templates, gc_only=False, mixed=False, kinds=None):
    """`mixed`: the rare-but-legal population -- fresh draws are also empty / single-atom / edgeless centres (plain
    objects and centres made by get_rc from reactions without bond change), symmetric rings with two marks; copies
    also differ in spectator attributes or leave a default-valued key out; near misses also are sub-graphs."""
    pool, items = [], []
    n_near = n_rel = n_dup = 0
    kinds = kinds if kinds is not None else {}

    def seen(k):
        kinds[k] = kinds.get(k, 0) + 1

    def fresh():
        c = rnd.random() if mixed else 1.0
        if mixed and c < 0.45:
            g, k = degenerate(rnd)
            seen("fresh:" + k)
            return g
        if mixed and c < 0.60:
            seen("fresh:sym_ring")
            return sym_ring(rnd)
        g = rnd.choice(corpus)
        return relabel(g, rnd) if rnd.random() < 0.5 else copy.deepcopy(g)

    while len(items) < size:
        c = rnd.random()
        if pool and c < 0.22:  # duplicate: the same pool entry again
            items.append(rnd.choice(items))
            n_dup += 1
        elif pool and c < 0.45:  # relabelled copy of an entry already used
            src = pool[rnd.choice(items)]
            if mixed and rnd.random() < 0.4:
                seen("copy:iso_variant")
                pool.append(iso_variant(src, rnd))
            else:
                pool.append(relabel(src, rnd))
            items.append(len(pool) - 1)
            n_rel += 1
        elif pool and c < 0.65:  # near miss of an entry already used
            src = pool[rnd.choice(items)]
            if mixed and rnd.random() < 0.5:
                g, _k = derived(src, rnd)
                seen("derived:" + _k)
            else:
                g, _k = near_miss(src, rnd)
            pool.append(relabel(g, rnd) if rnd.random() < 0.5 else g)
            items.append(len(pool) - 1)
            n_near += 1
        else:
            pool.append(fresh())
            items.append(len(pool) - 1)
    case = {"pool": pool, "items": items, "attr": attr, "gc_only": gc_only}
    if mixed:  # who is asked, and how (the model's answer does not depend on any of it)
        case["opts"] = rnd.choice(["default", "default", "perm", "explicit"])
        case["shared"] = rnd.random() < 0.6
        case["stale_class"] = rnd.random() < 0.4
        case["repeat"] = rnd.random() < 0.4
        case["explicit_match"] = case["opts"] == "default" and rnd.random() < 0.4
    if attr == "noninv":
        # every list entry is its own pool entry, so the attribute is per entry
        pool2, items2 = [], []
        for p in items:
            pool2.append(copy.deepcopy(pool[p]))
            items2.append(len(pool2) - 1)
        pool, items = pool2, items2
        case.update(pool=pool, items=items)
        if rnd.random() < 0.5:
            case["attr_vals"] = [rnd.choice(["a", "b"]) for _ in pool]
        else:
            case["attr_vals"] = [rnd.choice([["x"], ["x", "y"], ["y"]]) for _ in pool]
    perm = list(range(size))
    rnd.shuffle(perm)
    arrival = list(range(size))
    rnd.shuffle(arrival)
    case["perm"], case["arrival"] = perm, arrival
    T = []
    if with_templates and attr != "noninv":
        # representatives: some isomorphic to list entries (relabelled), some foreign; pairwise
        # non-isomorphic is enforced after the verdict matrix is known (see fix_templates)
        cand = []
        for p in rnd.sample(sorted(set(items)), min(len(set(items)), rnd.randint(1, 5))):
            pool.append(relabel(pool[p], rnd))
            cand.append(len(pool) - 1)
        for _ in range(rnd.randint(0, 2)):
            pool.append(relabel(fresh() if mixed else rnd.choice(corpus), rnd))
            cand.append(len(pool) - 1)
        rnd.shuffle(cand)
        numbers = rnd.sample([-3, 0, 1, 2, 4, 5, 7, 9, 12, 20, 41], len(cand))
        T = [[p, c] for p, c in zip(cand, numbers)]
    case["templates"] = T
    bss = [None] + rnd.sample([1, 2, 3, 7, size, size + 5], 2)
    case["batch_sizes"] = bss
    case["empty_list_templates"] = rnd.random() < 0.5
    case["_stats"] = (n_dup, n_rel, n_near)
    return case


def fix_templates(cases, lean):
    """Make the pre-existing templates pairwise non-isomorphic (one representative per class):
    drop a candidate that the Lean verdict puts in the class of an earlier one."""
    need = [c for c in cases if c["templates"]]
    if not need:
        return
    mats = lean.ok([matrix_request(c) for c in need], shards=8)
    for c, iso in zip(need, mats):
        c["_iso"] = iso
        kept = []
        for p, k in c["templates"]:
            if not any(iso[q][p] or iso[p][q] for q, _ in kept):
                kept.append([p, k])
        c["templates"] = kept


def tiny_alphabet():
    def g(nodes, edges):
        return {"nodes": [[i, {"element": {"s": e}, "charge": {"n": 2 * q}}] for i, e, q in nodes],
                "edges": [[u, v, {"order": {"t": [{"n": 2 * a}, {"n": 2 * b}]}}] for u, v, a, b in edges]}
    A = g([(1, "C", 0), (2, "O", 0)], [(1, 2, 1, 2)])
    A2 = g([(7, "O", 0), (3, "C", 0)], [(7, 3, 1, 2)])        # isomorphic to A
    B = g([(1, "C", 0), (2, "O", 0)], [(1, 2, 2, 1)])         # near miss: bond order
    C = g([(1, "C", 0), (2, "O", -1)], [(2, 1, 1, 2)])        # near miss: charge
    D = g([(4, "C", 0), (5, "N", 0)], [(4, 5, 1, 2)])         # near miss: element
    return [A, A2, B, C, D]


def tiny_cases(maxlen):
    alpha = tiny_alphabet()
    out = []
    k = 0
    for L in range(1, maxlen + 1):
        for seq in itertools.product(range(len(alpha)), repeat=L):
            k += 1
            out.append({"pool": alpha, "items": list(seq), "attr": ["none", "elems", "hash"][k % 3], "gc_only": False,
                        "perm": list(reversed(range(L))), "arrival": list(range(L))[1:] + [0] if L else [],
                        "templates": [[1, 5]] if k % 4 == 0 else [], "batch_sizes": [2] if k % 2 else [None, 1],
                        "empty_list_templates": bool(k % 2)})
    return out


def tiny_degenerate_alphabet():
    E = {"nodes": [], "edges": []}
    E_rc = rc_entry(NO_CHANGE_RSMI[0], {})                                # empty, made by get_rc
    S = {"nodes": [_node(1, "C")], "edges": []}
    S2 = {"nodes": [[7, {"element": {"s": "C"}}]], "edges": []}           # isomorphic to S (charge absent = 0)
    Sq = {"nodes": [_node(1, "C", -1)], "edges": []}                      # near miss: charge
    So = {"nodes": [_node(3, "O")], "edges": []}                          # near miss: element
    L = {"nodes": [_node(1, "C"), _node(2, "C")], "edges": []}            # edgeless, two atoms
    return [E, E_rc, S, S2, Sq, So, L]


def tiny_degenerate_cases(maxlen):
    """ALL lists up to `maxlen` over empty / single-atom / edgeless centres."""
    alpha = tiny_degenerate_alphabet()
    out = []
    k = 0
    for L in range(1, maxlen + 1):
        for seq in itertools.product(range(len(alpha)), repeat=L):
            k += 1
            out.append({"pool": alpha, "items": list(seq), "attr": ["none", "elems", "hash", "size"][k % 4], "gc_only": False,
                        "perm": list(reversed(range(L))), "arrival": list(range(L))[1:] + [0],
                        "templates": [[3, 5]] if k % 5 == 0 else ([[0, 2], [6, -3]] if k % 5 == 1 else []),
                        "batch_sizes": [2] if k % 2 else [None, 1], "empty_list_templates": bool(k % 2),
                        "shared": k % 3 == 0, "opts": ["default", "perm"][(k // 3) % 2]})
    return out


def load_regress():
    d = ROOT / "regress" / "C13"
    out = []
    if d.exists():
        for f in sorted(d.glob("*.json")):
            j = json.loads(f.read_text())
            out.append(j.get("case", j))
    return out


def malformed_cases(corpus):
    g = corpus[0]
    base = {"pool": [g], "attr": "none", "gc_only": False, "perm": [], "arrival": [], "templates": [],
            "empty_list_templates": False}
    return [
        {**base, "items": [], "batch_sizes": [None, 2]},            # IndexError / ([], templates)
        {**base, "items": [0, 0], "perm": [1, 0], "arrival": [0, 1], "batch_sizes": [0]},  # ValueError
        {**base, "items": [], "batch_sizes": [0]},
    ]


# ---------------------------------------------------------------- representation and provenance
def load_rsmis():
    """The mapped reactions of the vendored uspto corpus (the reactions whose centres are corpus/c13_rc.json)."""
    out = []
    for line in (ROOT / "corpus" / "reactions.tsv").read_text().splitlines():
        f = line.split("\t")
        if len(f) == 3 and f[0] == "uspto":
            out.append(f[2])
    return out


def prov_corpus(corpus, rsmis, rnd, n):
    """The corpus plus `n` of its centres as the pipeline makes them NOW: such an entry carries its reaction SMILES, the object
    given to the implementation is get_rc(rsmi_to_its(.)) (orders (1.0, 0.0), extra attributes typesGH / is_mtg), its
    encoding records that spelling.  The JSON corpus centre of the same reaction is its twin from another route."""
    out = list(corpus)
    for r in rnd.sample(rsmis, min(n, len(rsmis))):
        e = rc_entry(r, {}, typed=True)
        if "rsmi" in e and e["nodes"] and all_present(e):
            out.append(e)
    return out


def respell_pool(case, rnd, kinds):
    """Every pool entry gets a spelling of its own (the model's encoding of it does not change): one of NUM_STYLES, the object
    the pipeline makes (entries with a reaction SMILES), the object gml_to_its makes from the GML text of the centre, in
    "str-themed" lists bond orders as strings; some entries also get spectator attributes under well-known names.
    Duplicates (the same pool entry twice) share a spelling, relabelled copies / near misses / templates do not."""
    def seen(k):
        kinds[k] = kinds.get(k, 0) + 1
    str_p = 0.5 if rnd.random() < 0.12 else 0.02
    pool = []
    for g in case["pool"]:
        c = rnd.random()
        if "rsmi" in g and c < 0.7:
            seen("spelling:route=get_rc(rsmi_to_its)")
            pool.append(g)
            continue
        if c < 0.2 and g["edges"]:
            try:
                G0, _ = entry_graph(g)
                text = gml_text(G0)
                H = build_gml(text)
                if H.number_of_nodes() == G0.number_of_nodes() and H.number_of_edges() == G0.number_of_edges():
                    seen("spelling:route=gml_to_its(its_to_gml)")
                    pool.append({**graph_t(H, RC_NODE_KEYS, RC_EDGE_KEYS), "gml": text, "typed": True})
                    continue
            except Exception:  # noqa: BLE001 - the GML writer is not this property's concern
                pass
        style = "str" if rnd.random() < str_p else rnd.choice(NUM_STYLES)
        h = restyle(g, style, rnd)
        if rnd.random() < 0.3:
            add_spectators(h, rnd)
            seen("spelling:spectators(weight/label/id/name/capacity)")
        seen("spelling:" + style)
        pool.append(h)
    case["pool"] = pool
    return case


def tiny_repr_alphabet():
    """ONE C-O centre (bond broken: order (1, 0)) spelled five ways, its near miss (bond formed: (0, 1)) spelled two ways."""
    def g(u, v, a, b, qo=None):
        return {"nodes": [[u, {"element": {"s": "C"}, "charge": {"n": 0}}], [v, {"element": {"s": "O"}, "charge": qo or {"n": 0}}]],
                "edges": [[u, v, {"order": {"t": [a, b]}}]]}
    F, NI, NF = "float", "np_int", "np_float"
    return [g(1, 2, {"n": 2}, {"n": 0}),                                                    # (1, 0)      harness / JSON
            g(7, 3, {"n": 2, "as": F}, {"n": 0}),                                           # (1.0, 0)    pickled corpus
            g(4, 9, {"n": 2, "as": F}, {"n": 0, "as": F}, {"n": 0, "as": F}),               # (1.0, 0.0)  get_rc(rsmi_to_its)
            g(12, 5, {"n": 2}, {"n": 0, "as": F}),                                          # (1, 0.0)    gml_to_its
            g(0, 8, {"n": 2, "as": NF}, {"n": 0, "as": NI}, {"n": 0, "as": NI}),            # numpy scalars
            g(1, 2, {"n": 0}, {"n": 2}),                                                    # near miss (0, 1)
            g(6, 2, {"n": 0, "as": F}, {"n": 2, "as": F})]                                  # near miss (0.0, 1.0)


def tiny_repr_cases(maxlen):
    """ALL lists up to `maxlen` over the seven spellings; no attribute in half of them."""
    alpha = tiny_repr_alphabet()
    out = []
    k = 0
    for L in range(1, maxlen + 1):
        for seq in itertools.product(range(len(alpha)), repeat=L):
            k += 1
            out.append({"pool": alpha, "items": list(seq), "attr": ["none", "elems", "none", "hash"][k % 4], "gc_only": False,
                        "perm": list(reversed(range(L))), "arrival": list(range(L))[1:] + [0],
                        "templates": [[3, 5]] if k % 5 == 0 else ([[6, 0], [1, -3]] if k % 5 == 1 else []),
                        "batch_sizes": [2] if k % 2 else [None, 1], "empty_list_templates": bool(k % 2),
                        "shared": k % 3 == 0, "opts": ["default", "perm", "explicit"][(k // 3) % 3]})
    return out


def make_repr_pair(rnd, corpus, kinds):
    """An ordered pair for the predicate-direct gates: the same / a relabelled / a near-miss / a derived graph, each side in a
    spelling of its own."""
    c = rnd.random()
    if c < 0.6:
        a, k = copy.deepcopy(rnd.choice(corpus)), "corpus"
    elif c < 0.8:
        a, k = sym_ring(rnd), "sym_ring"
    else:
        a, k = degenerate(rnd)
        a = plain(a)
    how = rnd.choice(["same", "relabel", "relabel", "near", "derived"])
    b = {"same": lambda: copy.deepcopy(a), "relabel": lambda: relabel(a, rnd), "near": lambda: near_miss(a, rnd)[0],
         "derived": lambda: derived(a, rnd)[0]}[how]()
    styles = NUM_STYLES + ("str",)
    sa = rnd.choice(styles)
    sb = "str" if (sa == "str" and rnd.random() < 0.7) else rnd.choice(styles)
    key = f"pair-spelling:{how}/{'str' if 'str' in (sa, sb) else 'numbers'}"
    kinds[key] = kinds.get(key, 0) + 1
    a2, b2 = restyle(a, sa, rnd), restyle(b, sb, rnd)
    if rnd.random() < 0.3:
        add_spectators(b2, rnd)
    return {"kind": "pair", "a": a2, "b": b2, "how": f"{how}/{sa}/{sb}"}


# ---------------------------------------------------------------- entry points, key names, attribute types
RULE_KEYS = ["gml", "rc", "RC", "graph"]
ATTR_KEYS = ["att", "WLHash", "signature", "rc_sig"]


def make_entry_case(rnd, corpus, kinds, attr, gc_only=False, size=None):
    """A case that addresses the API the other documented ways: rule / attribute key names of its own (decoys under the
    well-known names), positional arguments, rule_key / attribute_key left at their defaults ("gml"; "WLHash" for fit and
    cluster, "signature" for lib_check), strip=True, `templates=None` handed to lib_check / cluster; attribute values of the
    types GraphDescriptor writes (list of ints, OrderedDict, dict, tuple, frozenset; int or absent in the scalar stream)."""
    size = size or (rnd.randint(3, 14) if rnd.random() < 0.8 else rnd.randint(15, 30))
    c = make_case(rnd, corpus, size, attr, with_templates=(not gc_only) and rnd.random() < 0.5, gc_only=gc_only,
                  mixed=rnd.random() < 0.5, kinds=kinds)
    c["call"] = {"style": rnd.choice(["kw", "pos", "default"]), "rk": rnd.choice(RULE_KEYS), "ak": rnd.choice(ATTR_KEYS),
                 "strip": rnd.random() < 0.3}
    c["none_templates"] = rnd.random() < 0.6
    return c


def backend_cases(rnd):
    """Lists over the 5-graph alphabet for a GraphCluster / BatchCluster whose backend name is spelled in another case
    (the constructors lower-case the name before they validate it)."""
    out = []
    for b in ["nx", "NX", "Nx", "nX"]:
        for _ in range(3):
            out.append({"kind": "backend", "backend": b, "items": [rnd.randrange(5) for _ in range(rnd.randint(2, 6))]})
    return out


def evaluate_backend(ctx, cases, stream):
    """If the constructor ACCEPTS the backend name, the instance clusters: its classes must follow the Lean verdicts
    (`cluster.spec`).  A constructor that rejects the spelling promises nothing."""
    from synkit.Graph.Matcher.graph_cluster import GraphCluster
    from synkit.Graph.Matcher.batch_cluster import BatchCluster
    if not cases:
        return
    lean = ctx.lean()
    alpha = tiny_alphabet()
    iso = lean.ok([{"cmd": "cluster.isomatrix", "graphs": lean_pool(alpha), **SEL}])[0]
    graphs = [graphio.to_nx(g) for g in alpha]
    jobs = []
    for c in cases:
        b, items = c["backend"], c["items"]
        ctx.count(f"stream:{stream}")
        ctx.count("backend_spelling:" + b)
        ctx.case(["backend", b, items], len(set(items)) >= 2)
        data = lambda: [{"gml": graphs[p], "pid": p} for p in items]
        routes = [("GraphCluster.fit", lambda: GraphCluster(backend=b), lambda o: o.fit(data(), "gml", None)),
                  ("BatchCluster.fit(batch_size=2)", lambda: BatchCluster(backend=b), lambda o: o.fit(data(), None, "gml", None, 2)[0]),
                  ("BatchCluster.fit (one batch)", lambda: BatchCluster(backend=b), lambda o: o.fit(data(), None, "gml", None)[0])]
        for name, mk, call in routes:
            try:
                obj = mk()
            except (ValueError, ImportError):
                ctx.count("backend_spelling_rejected_by_constructor")
                continue
            try:
                classes, err = [e.get("class") for e in call(obj)], None
            except Exception as e:  # noqa: BLE001 - an accepted configuration that cannot cluster assigns no class
                classes, err = None, f"{type(e).__name__}: {e}"
            jobs.append((c, name, classes, err))
    reqs = [{"cmd": "cluster.spec", "iso": iso, "items": c["items"], "classes": cl, "templates": []}
            for c, _, cl, _ in jobs if cl is not None and None not in cl]
    reps = iter(lean.ok(reqs, shards=8) if reqs else [])
    done = ctx.__dict__.setdefault("_c13_classes_reported", set())
    verdicts = []
    for c, name, cl, err in jobs:
        verdicts.append(next(reps)["ok"] if cl is not None and None not in cl else False)
    order = sorted(range(len(jobs)), key=lambda k: len(jobs[k][0]["items"]))   # the shortest failing list is the one reported
    for k in order:
        (c, name, cl, err), ok = jobs[k], verdicts[k]
        if ok:
            continue
        named = c["backend"] != "nx"
        if named and CLASS_BACKEND_CASE in done:
            continue
        if named:
            done.add(CLASS_BACKEND_CASE)
        ctx.violation(f"{name} of an instance constructed with backend={c['backend']!r} (accepted by the constructor): "
                      + ("raises instead of assigning classes" if err else "classes do not follow the isomorphism verdicts"),
                      {"kind": "backend", "backend": c["backend"], "items": c["items"], "pool": alpha},
                      {"stream": stream, "route": name, "classes": cl, "raised": err,
                       "verdict_matrix": iso},
                      classes=[CLASS_BACKEND_CASE] if named else ())


# ---------------------------------------------------------------- the predicate, asked directly
def make_pair(rnd, corpus, kinds):
    c = rnd.random()
    if c < 0.45:
        a, k = degenerate(rnd)
    elif c < 0.6:
        a, k = sym_ring(rnd), "sym_ring"
    else:
        a, k = copy.deepcopy(rnd.choice(corpus)), "corpus"
    how = rnd.choice(["same", "relabel", "iso_variant", "near", "derived", "other", "other"])
    if how == "same":
        b = a
    elif how == "relabel":
        b = relabel(a, rnd)
    elif how == "iso_variant":
        b = iso_variant(a, rnd)
    elif how == "near":
        b = near_miss(a, rnd)[0]
    elif how == "derived":
        b = derived(a, rnd)[0]
    else:  # an independent draw of the same family: often isomorphic for the rare shapes
        b = degenerate(rnd)[0] if c < 0.45 else (sym_ring(rnd) if c < 0.6 else relabel(rnd.choice(corpus), rnd))
    kinds[f"pair:{k}/{how}"] = kinds.get(f"pair:{k}/{how}", 0) + 1
    return {"kind": "pair", "a": a, "b": b, "how": how}


def predicate_answers(A, B):
    """Every way the library answers "are A and B isomorphic on element, charge, bond order?" -> {name: verdict}"""
    from synkit.Graph.Matcher.graph_morphism import graph_isomorphism, find_graph_isomorphism
    from networkx.algorithms.isomorphism import generic_node_match, generic_edge_match
    from operator import eq

    g = inst("gc", {"shared": True})   # the matchers of a long-lived GraphCluster, as clustering passes them
    nm2 = generic_node_match(["charge", "element"], [0, "*"], [eq, eq])
    em2 = generic_edge_match("order", 1, eq)
    out = {}
    out["graph_isomorphism(A, B, nodeMatch, edgeMatch)"] = graph_isomorphism(A, B, g.nodeMatch, g.edgeMatch)
    out["graph_isomorphism(A, B, nodeMatch, edgeMatch), asked again"] = graph_isomorphism(A, B, g.nodeMatch, g.edgeMatch)
    out["graph_isomorphism(A, B, use_defaults=True)"] = graph_isomorphism(A, B, use_defaults=True)
    out["graph_isomorphism(A, B, matchers with permuted keys)"] = graph_isomorphism(A, B, nm2, em2)
    for fast in (True, False):
        m = find_graph_isomorphism(A, B, node_match=g.nodeMatch, edge_match=g.edgeMatch, use_defaults=False,
                                   fast_invariant_check=fast)
        out[f"find_graph_isomorphism(A, B, nodeMatch, edgeMatch, use_defaults=False, fast_invariant_check={fast}) is not None"] = \
            m is not None
    return {k: (v if isinstance(v, bool) else repr(v)) for k, v in out.items()}


def evaluate_pairs(ctx, pairs, stream):
    """`graph_isomorphism` / `find_graph_isomorphism` on (A, B) and (B, A) against the Lean verdict `match.iso`.
    A pair on which they differ is then CLUSTERED (two-item and four-item lists, all paths): if the classes do
    not follow the verdict that is the violation reported, with the list as the failing input."""
    if not pairs:
        return
    lean = ctx.lean()
    built = []
    for pr in pairs:
        A, ea = entry_graph(pr["a"])
        B, eb = (A, ea) if pr["b"] is pr["a"] else entry_graph(pr["b"])
        built.append((A, ea, B, eb))
    reqs = []
    for _, ea, _, eb in built:
        na, nb = norm_json(ea), norm_json(eb)
        reqs.append({"cmd": "match.iso", "host": na, "pattern": nb, **SEL})
        reqs.append({"cmd": "match.iso", "host": nb, "pattern": na, **SEL})
    verdicts = lean.ok(reqs, shards=8)
    bad = []
    for k, (pr, (A, ea, B, eb)) in enumerate(zip(pairs, built)):
        vab, vba = verdicts[2 * k], verdicts[2 * k + 1]
        ctx.count(f"stream:{stream}")
        ctx.count("pair_verdict:" + str(vab).lower())
        ctx.case(["pair", plain(ea), plain(eb)], plain(ea) != plain(eb))
        wrong = {}
        for (X, Y, v, tag) in ((A, B, vab, "A,B"), (B, A, vba, "B,A")):
            try:
                ans = predicate_answers(X, Y)
            except Exception as e:  # noqa: BLE001 - an exception on a legal pair is a wrong answer too
                ans = {"graph_isomorphism / find_graph_isomorphism": f"raised {type(e).__name__}: {e}"}
            for name, got in ans.items():
                if got is not v:
                    wrong[f"[{tag}] {name}"] = {"library": got, "lean_match_iso": v}
        if wrong:
            bad.append(({"kind": "pair", "a": ea, "b": eb, "how": pr.get("how")}, wrong))
    for pr, wrong in bad[:4]:
        before = len(ctx.violations)
        cl = []
        for items in ([0, 1], [1, 0, 0, 1]):
            n = len(items)
            cl.append({"pool": [pr["a"], pr["b"]], "items": items, "attr": "none", "gc_only": False,
                       "perm": list(reversed(range(n))), "arrival": list(range(n))[1:] + [0], "templates": [],
                       "batch_sizes": [None, 1], "empty_list_templates": False})
        evaluate(ctx, cl, stream + "->clustered")
        if not any(not v["no_input"] for v in ctx.violations[before:]):
            ctx.violation("correspondence broke: the isomorphism predicate behind clustering answers differently from the Lean "
                          "verdict on this pair, but clustering the pair gives the right classes", pr, {"stream": stream, "answers": wrong},
                          no_input=True)
        if len(ctx.violations) >= 6:
            return


def run(ctx):
    ctx.trusted = [
        "Lean 4.33 kernel; axioms of the property theorems as listed in obligation_list",
        "hand-written model SynKitModel/Cluster.lean (iterative_cluster, fit, lib_check, cluster, batch_dicts, fit) tied to /repo by "
        "this correspondence run, not by translation",
        "the isomorphism oracle: the model is parametric in `iso`; the run instantiates it with the verdicts of the Lean engine "
        "`isoDecide` on element/charge/order (C07), passed per ORDERED pair and not symmetrised; that NetworkX VF2 agrees with it is "
        "what the partition comparison exercises",
        "Driver/Cluster.lean JSON codec, harness/props/c13.py adapters and canonicalisation (partitions; labels only up to renaming "
        "of fresh classes); attribute values are computed by the harness, the adapter mirrors GraphCluster's `sorted(value)` on "
        "list attributes",
        "rsmi_to_its / get_rc are used only to PRODUCE some input objects (empty and edgeless centres as the pipeline makes them); the "
        "object they return is encoded as it is and judged by the Lean engine, nothing about it is assumed",
        "BatchCluster.fit's single-batch path picks one representative per class with the global `random`; the choice is not "
        "compared (any member isomorphic to the model's representative is accepted)",
    ]
    ctx.assumptions = [
        "corpus / tiny / non-invariant streams: every node carries element and charge and every edge carries order (as all corpus "
        "centres do); rare-shapes and predicate streams: a compared key may be ABSENT, it is then read with the matcher default "
        "('*', 0 on nodes, 1 on edges) -- the harness writes these defaults out (norm_json = SynKit.Cluster.norm, theorems "
        "nodeOk_norm_iff / edgeOk_norm_iff / clIso_iff) before it asks the Lean engine; no key is present with value None",
        "graphs are plain nx.Graph objects (also empty ones, also those returned by get_rc); node ids non-negative ints",
        "pre-grouping attribute: no attribute (attribute_key=None), a string, a list of strings; in the entry-points stream also a "
        "sorted list of ints, a dict / OrderedDict(sorted) element -> count, a sorted tuple, a frozenset (the types GraphDescriptor "
        "writes and `sorted(value)` accepts); in the scalar stream an int or an attribute key that no entry carries -- these are "
        "isomorphism-invariant too, the one-shot path of the code as it is raises TypeError on them: reported under the class "
        f"'{CLASS_SCALAR_ATTR}'. Each list uses ONE attribute type. The model receives the attribute as the code compares it: "
        "GraphCluster sorts non-strings (sorted(dict) = its keys), BatchCluster compares with == (adapter gc_key / key_json, not "
        "the code under test); what is demanded beyond impl = model is the specification `cluster.spec`, which does not look at the "
        "attribute at all. Template class numbers are ints; pre-existing templates are pairwise non-isomorphic with distinct "
        "class numbers",
        "backend 'nx' (the MØD backend is not installed: the GML-string route -- graph_cluster.py 104-105/144, batch_cluster.py "
        "112-113/128-130 -- cannot run here and is about rule strings, not reaction-centre graphs); a backend name in another "
        f"case that the constructor accepts must cluster like 'nx' (class '{CLASS_BACKEND_CASE}')",
        "spellings: numbers that are equal under Python == (1, 1.0, numpy.int64(1), numpy.float64(1.0)) are ONE value of the model "
        "(Val.num, half-units): the case file records the spelling of each number of the object under \"as\", `strip_repr` removes it "
        "from everything sent to the Lean driver; bool is never mixed with int. A bond order given as a string is a string for "
        "the model too (Val.str): '-' is not 1. Attribute values whose numbers are spelled differently are == for the code "
        "(list / dict equality) and one key for the model (`_pynum`)",
        "gml_to_its / its_to_gml, like rsmi_to_its / get_rc, only PRODUCE input objects (the GML text is part of the case file); "
        "the object they return is encoded as it is and judged by the Lean engine, nothing about it is assumed",
        "entry-points stream: the decoy values under the keys a call does NOT name (a one-atom graph under 'gml', position-unique "
        "strings under 'WLHash' / 'signature' / 'att') are never read by a correct implementation; reading one changes the partition",
    ]
    ctx.gen_rule = (
        "regression corpus; malformed stream (empty list, batch_size 0); tiny-exhaustive: ALL lists of length <=4 (quick) / <=5 "
        "(thorough) over 5 two-atom graphs (an isomorphic pair, three near misses) with attribute none/elems/hash, reversed order, "
        "rotated arrival, optional template; corpus stream: multisets of 6-40 of the 100 vendored reaction centres with duplicates, "
        "relabelled copies (ids permuted, node/edge order shuffled), near misses (one bond order / charge / element changed), "
        "attribute kind none/elems/elems_unsorted/hash/size, random list order, random arrival order, pre-existing templates with "
        "non-contiguous (also negative) class numbers, batch sizes from {None,1,2,3,7,n,n+5}; a separately counted stream with a "
        "NON-invariant attribute (only impl = model). "
        "Second tiny-exhaustive part: ALL lists of length <=3 (quick) / <=4 (thorough) over 7 degenerate centres (empty nx.Graph(), "
        "empty get_rc(rsmi_to_its(no-change reaction)), single C with and without the charge key, single C-, single O, two "
        "unbonded C) with attribute none/elems/hash/size, templates, fresh or long-lived instance, key list permuted. "
        "rare-shapes-mixed stream: lists of 3-30 in which fresh draws are 45% degenerate (empty plain / empty from get_rc / single "
        "atom / 2-4 unbonded atoms / get_rc(disconnected=True) of charge-only reactions / one bond), 15% symmetric rings with two "
        "marks, else corpus; copies are relabelled or differ in spectator attributes (node 'order', edge 'element'/'charge', "
        "atom_map) or omit a zero charge; near misses are one order/charge/element changed or a derived graph (node dropped, bond "
        "dropped, atom isolated, spectator atom added, compared key dropped); per case: constructor options default / keys "
        "permuted / all explicit, fresh or ONE long-lived GraphCluster+BatchCluster per option set, stale 'class' entries in the "
        "data, the same question asked twice, matchers passed explicitly to lib_check; the model side is computed per case "
        "only. predicate-direct stream: ordered pairs (same object, relabelled, spectator variant, near miss, derived, independent "
        "draw) given to graph_isomorphism (instance matchers, twice; use_defaults=True; permuted-key matchers) and "
        "find_graph_isomorphism (fast check on/off) against Lean match.iso; a differing pair is then clustered as a 2- and a 4-item "
        "list and reported through the clustering gates. "
        "entry-points stream: lists of 3-30 built like the corpus / rare-shapes streams (half each), attribute none / elems / hash / size "
        "or one of the typed kinds (sorted degree list of ints, dict and sorted OrderedDict element -> count, sorted element tuple, "
        "frozenset of elements; gc_only: unsorted degree list), asked with keyword / positional / default rule_key and attribute_key "
        "(names from {gml, rc, RC, graph} x {att, WLHash, signature, rc_sig}; decoys under the names not used), strip=True in 30%, "
        "`templates=None` instead of [] handed to lib_check / cluster in 60%. scalar-or-absent-attribute stream: lists of 1-10, "
        "attribute = node count (int) or a named key that no entry carries. backend-spelling stream: 12 lists of 2-6 over the "
        "5-graph alphabet for backend in {nx, NX, Nx, nX}, GraphCluster.fit and BatchCluster.fit (batched, one batch). "
        "Third tiny-exhaustive part (spellings): ALL lists of length <=3 (quick) / <=4 (thorough) over ONE C-O centre whose bond "
        "order is spelled (1, 0) / (1.0, 0) / (1.0, 0.0) / (1, 0.0) / (numpy.float64, numpy.int64) plus its near miss (0, 1) in two "
        "spellings; attribute none in half of the lists, else elems / hash; templates, long-lived instances, option spellings. "
        "spellings-and-provenance stream (drawn last): lists of 3-26 built like the corpus stream (30% like rare-shapes) over the "
        "corpus PLUS 40 of its centres made at run time by get_rc(rsmi_to_its(reaction)); afterwards every pool entry (so every "
        "relabelled copy, near miss and template on its own, duplicates together) gets a spelling: 70% of the pipeline-made "
        "entries stay the object the pipeline returns ((1.0, 0.0), extra attributes), 20% of the others become the object "
        "gml_to_its(its_to_gml(.)) returns ((1, 0.0), other node ids, extra attributes), the rest one of int / (1.0, 0) / all "
        "float / (1, 0.0) / numpy.int64 / numpy.float64 / every number on its own (charges, orders, spectator numbers alike); 12% "
        "of the lists are str-themed (half of the entries carry bond orders as strings '-', '=', '#', ':', ''); 30% of the entries "
        "get spectator attributes named weight / label / id / name / capacity with falsy and differing values on nodes and edges; "
        "attribute none in 3/8, else elems / hash / size or a typed attribute whose numbers are int / float / numpy.int64 / "
        "numpy.float64 from one graph to the next (sorted degree list, element -> count dict). predicate-direct-spellings "
        "stream: ordered pairs same / relabelled / near miss / derived with each side in a spelling of its own."
    )
    ctx.nontrivial_rule = ("distinct as (pool, list, attribute, orders, templates, batch sizes); >= 2 classes and >= 1 class with >= 2 members "
                           "in the model's one-shot clustering; predicate pairs: distinct as (A, B) and A, B not the same encoding")
    build_and_audit(ctx, ["SynKitProofs.Props.C13"], "SynKitProofs/Audit/C13.lean", THEOREMS)

    corpus = [g for g in load_corpus() if all_present(g)]
    ctx.count("corpus_centres", len(corpus))
    rnd = ctx.rnd

    reg = load_regress()
    ctx.count("regress_cases", len(reg))
    evaluate(ctx, [c for c in reg if c.get("kind") not in ("pair", "backend")], "regress")
    evaluate_pairs(ctx, [dict(c) for c in reg if c.get("kind") == "pair"], "regress")
    evaluate_backend(ctx, [dict(c) for c in reg if c.get("kind") == "backend"], "regress")
    evaluate(ctx, malformed_cases(corpus), "malformed")

    tiny = tiny_cases(4 if ctx.quick else 5)
    if len(ctx.violations) < 6:
        evaluate(ctx, tiny, "tiny-exhaustive")
    ctx.extra["exhaustive"] = not ctx.violations
    ctx.extra["exhaustive_part"] = f"all {len(tiny)} lists of length <= {4 if ctx.quick else 5} over the 5-graph alphabet"
    tiny2 = tiny_degenerate_cases(3 if ctx.quick else 4)
    if len(ctx.violations) < 6:
        evaluate(ctx, tiny2, "tiny-exhaustive-degenerate")
    ctx.extra["exhaustive"] = not ctx.violations
    ctx.extra["exhaustive_part"] += (f"; all {len(tiny2)} lists of length <= {3 if ctx.quick else 4} over 7 empty / single-atom / "
                                     "edgeless centres")

    tiny3 = tiny_repr_cases(3 if ctx.quick else 4)
    if len(ctx.violations) < 6:
        evaluate(ctx, tiny3, "tiny-exhaustive-spellings")
    ctx.extra["exhaustive"] = not ctx.violations
    ctx.extra["exhaustive_part"] += (f"; all {len(tiny3)} lists of length <= {3 if ctx.quick else 4} over one C-O centre spelled "
                                     "(1, 0) / (1.0, 0) / (1.0, 0.0) / (1, 0.0) / numpy and its near miss spelled two ways")

    n_main = 320 if ctx.quick else 4000
    n_gc = 80 if ctx.quick else 800
    n_non = 50 if ctx.quick else 500
    cases = []
    for k in range(n_main):
        size = rnd.randint(6, 40) if k % 4 else rnd.randint(6, 14)
        attr = rnd.choice(["none", "none", "elems", "hash", "size"])
        cases.append(make_case(rnd, corpus, size, attr, with_templates=rnd.random() < 0.6))
    for k in range(n_gc):
        cases.append(make_case(rnd, corpus, rnd.randint(6, 40), "elems_unsorted", False, gc_only=True))
    non = [make_case(rnd, corpus, rnd.randint(4, 16), "noninv", False) for _ in range(n_non)]
    for c in cases + non:
        d, r, m = c["_stats"]
        ctx.count("duplicates", d)
        ctx.count("relabelled_copies", r)
        ctx.count("near_misses", m)
    if len(ctx.violations) < 6:
        fix_templates(cases, ctx.lean())
        evaluate(ctx, cases, "corpus")
    if len(ctx.violations) < 6:
        evaluate(ctx, non, "non-invariant-attribute")
    # rare-but-legal shapes, derived objects, option spellings, long-lived instances, repeated questions
    kinds = {}
    n_mixed = 220 if ctx.quick else 3000
    n_mixed_gc = 40 if ctx.quick else 500
    mixed = []
    for k in range(n_mixed):
        size = rnd.randint(3, 12) if k % 3 else rnd.randint(8, 30)
        attr = rnd.choice(["none", "none", "elems", "hash", "size"])
        mixed.append(make_case(rnd, corpus, size, attr, with_templates=rnd.random() < 0.5, mixed=True, kinds=kinds))
    for k in range(n_mixed_gc):
        mixed.append(make_case(rnd, corpus, rnd.randint(3, 24), "elems_unsorted", False, gc_only=True, mixed=True, kinds=kinds))
    for c in mixed:
        for key in ("shared", "stale_class", "repeat", "explicit_match"):
            if c.get(key):
                ctx.count("mixed:" + key)
        ctx.count("mixed:opts=" + c["opts"])
        ctx.count("mixed:lists_with_>=2_empty_centres", int(sum(1 for p in c["items"] if not c["pool"][p]["nodes"]) >= 2))
    if len(ctx.violations) < 6:
        fix_templates(mixed, ctx.lean())
        evaluate(ctx, mixed, "rare-shapes-mixed")
    pairs = [make_pair(rnd, corpus, kinds) for _ in range(400 if ctx.quick else 5000)]
    if len(ctx.violations) < 6:
        evaluate_pairs(ctx, pairs, "predicate-direct")
    # the other documented ways to ask: key names, positional / default arguments, templates=None, attribute value types
    n_entry = 150 if ctx.quick else 2000
    entry = []
    for k in range(n_entry):
        attr = (["none", "elems", "hash", "size"] + list(TYPED_KINDS) * 2)[k % 14] if k % 3 else rnd.choice(TYPED_KINDS)
        entry.append(make_entry_case(rnd, corpus, kinds, attr))
    for k in range(n_entry // 8):
        entry.append(make_entry_case(rnd, corpus, kinds, rnd.choice(["degs_unsorted", "elems_unsorted"]), gc_only=True))
    scal = [make_entry_case(rnd, corpus, kinds, SCALAR_KINDS[k % 2], size=rnd.randint(1, 10)) for k in range(40 if ctx.quick else 400)]
    for c in entry + scal:
        ctx.count("entry:style=" + c["call"]["style"])
        ctx.count("entry:rule_key=" + ("gml" if c["call"]["style"] == "default" else c["call"]["rk"]))
        if c["attr"] != "none":
            ctx.count("entry:attribute_key=" + ("WLHash|signature (defaults)" if c["call"]["style"] == "default" else c["call"]["ak"]))
        for key in ("none_templates",):
            if c.get(key):
                ctx.count("entry:templates=None_to_lib_check_and_cluster")
        if c["call"]["strip"]:
            ctx.count("entry:strip=True")
    if len(ctx.violations) < 6:
        fix_templates(entry, ctx.lean())
        evaluate(ctx, entry, "entry-points")
    if len(ctx.violations) < 6:
        fix_templates(scal, ctx.lean())
        evaluate(ctx, scal, "scalar-or-absent-attribute")
    if len(ctx.violations) < 6:
        evaluate_backend(ctx, backend_cases(rnd), "backend-spelling")
    # representation and provenance: ==-equal values spelled differently WITHIN one list (drawn after every older stream, so
    # that those see the random numbers they always saw)
    n_sp = 170 if ctx.quick else 2400
    n_sp_gc = 30 if ctx.quick else 400
    corpus2 = prov_corpus(corpus, load_rsmis(), rnd, 40)
    ctx.count("spelling:corpus_centres_made_by_get_rc(rsmi_to_its)", len(corpus2) - len(corpus))
    spell = []
    for k in range(n_sp):
        size = rnd.randint(3, 12) if k % 3 else rnd.randint(8, 26)
        attr = rnd.choice(["none", "none", "none", "elems", "hash", "size"] + list(NUMTYPE_KINDS))
        spell.append(make_case(rnd, corpus2, size, attr, with_templates=rnd.random() < 0.5, mixed=rnd.random() < 0.3, kinds=kinds))
    for k in range(n_sp_gc):
        spell.append(make_case(rnd, corpus2, rnd.randint(3, 24), rnd.choice(["elems_unsorted", "degs_unsorted"]), False,
                               gc_only=True, mixed=rnd.random() < 0.3, kinds=kinds))
    for c in spell:
        respell_pool(c, rnd, kinds)
    if len(ctx.violations) < 6:
        fix_templates(spell, ctx.lean())
        evaluate(ctx, spell, "spellings-and-provenance")
    sp_pairs = [make_repr_pair(rnd, corpus, kinds) for _ in range(150 if ctx.quick else 2000)]
    if len(ctx.violations) < 6:
        evaluate_pairs(ctx, sp_pairs, "predicate-direct-spellings")
    for k, v in sorted(kinds.items()):
        ctx.count(k, v)
    ctx.violations.sort(key=lambda v: v["no_input"])  # failing inputs first
    known = load_known(ctx.pid)
    unknown = [v for v in ctx.violations if match_known(v, known) is None]
    ctx.obligation("correspondence: GraphCluster.iterative_cluster/fit partitions impl == model; spec 'same class <=> iso verdict' and "
                   "order independence hold on the implementation's output", not unknown)
    ctx.obligation("correspondence: BatchCluster.lib_check/cluster/fit impl == model up to renaming of fresh classes; incremental == "
                   "one-shot == batched; template classes respected", not unknown)
    ctx.obligation("correspondence: graph_isomorphism / find_graph_isomorphism (the predicate behind clustering) == Lean match.iso on "
                   "ordered pairs, including empty, single-atom and edgeless centres", not unknown)
    ctx.obligation("correspondence: the same classes whatever the spelling of ==-equal numbers (int / float / numpy, mixed within one "
                   "list, as the pickled corpus, get_rc(rsmi_to_its(.)) and gml_to_its(.) write them), with spectator attributes "
                   "under well-known names, and with bond orders given as strings", not unknown)
    ctx.obligation("correspondence: the same answers through the other documented ways to ask -- rule / attribute key names, "
                   "positional and default arguments, templates=None, attribute values that are lists of ints / dicts / "
                   "OrderedDicts / tuples / frozensets / ints / absent, backend name in another case", not unknown)


def replay(ctx, case):
    c = case.get("case", case)
    if c.get("kind") == "pair":
        evaluate_pairs(ctx, [dict(c)], "replay")
    elif c.get("kind") == "backend":
        evaluate_backend(ctx, [dict(c)], "replay")
    else:
        evaluate(ctx, [dict(c)], "replay", shrink=False)

"""C18 — network canonical form is a complete invariant; automorphism data are exact.

What is compared on every run (both views, stoichiometry on/off, node keys kind / kind+label):

0. *view*: the graph the back-end builds (`_CRNGraphBackend.G`) == the model's `viewOf` (all node
   and arc attributes; sets and per-id maps compared as sets / dicts);
1. *canonical graph*: `summary()["canon_graph"]` == `canonBy view canonical_perm` and
   `canonical_perm` lists every node once (ids 1..N); the specification `isoDecideD view canon`
   (Lean, on the configured keys) is evaluated on what the implementation returned; same
   faithfulness gate for the WL canonicaliser's graph;
2. *kernel agreement*: inside a family of networks (renamings, reaction orders, regenerated ids,
   near misses) two members receive identical canonical graphs (on the configured keys) exactly
   when the Lean engine says their views are isomorphic;
3. *automorphism data*: count, set of automorphism mappings and orbit partition of
   `CRNCanonicalizer` and of `CRNAutomorphism` (`summary()`, `orbits()`,
   `has_nontrivial_automorphism()`) == `autCountD` / `allIsoD view view` / `orbitsD`; reported
   orbit lists must be partitions (no empty, repeated or overlapping class).

4. *determinism / cache transparency*: the same object asked again and a fresh object give the
   same canonical graph and count; the search run with `id()` (as seen by canon.py, which keys its
   refinement cache by `id()` of a dead temporary) replaced by a never-repeating counter and by a
   constant gives the same canonical graph — both are legal allocator behaviours.

A network in which a species label equals a reaction id is classified `species_label_is_edge_id`
(finding F19: the un-prefixed string ids of the bipartite view collide).
"""
import itertools
import json

from ..core import ROOT, build_and_audit

THEOREMS = [
    "SynKit.CrnCanon.mem_allIsoD",
    "SynKit.CrnCanon.allIsoD_nodup",
    "SynKit.CrnCanon.isoDecideD_iff",
    "SynKit.CrnCanon.canon_faithful",
    "SynKit.CrnCanon.canon_kernel",
    "SynKit.CrnCanon.canonBruteD_invariant",
    "SynKit.CrnCanon.canonBruteD_complete",
    "SynKit.CrnCanon.autcount_spec",
    "SynKit.CrnCanon.orbits_partition_exact",
    "SynKit.CrnCanon.orbitsUF_spec",
    "SynKit.CrnCanon.orbitsUF_auts",
    "SynKit.CrnCanon.canon_equivariant",
    "SynKit.CrnCanon.views_wfd",
    "SynKit.CrnCanon.viewBip_iso_of_sameUpToNames",
    "SynKit.CrnCanon.viewSpecies_iso_of_sameUpToNames",
    "SynKit.CrnCanon.canonBruteD_sameUpToNames_bip",
    "SynKit.CrnCanon.canonBruteD_sameUpToNames_species",
    "SynKit.CrnCanon.orbitsFast_eq",
    "SynKit.CrnCanon.C18.full",
]

F19 = "species_label_is_edge_id"

CONFIGS = [
    {"name": "bip+stoich", "bip": True, "stoich": True, "nk": ["kind"], "ek": ["role", "stoich"]},
    {"name": "bip-stoich", "bip": True, "stoich": False, "nk": ["kind"], "ek": ["role", "stoich"]},
    {"name": "species+stoich", "bip": False, "stoich": True, "nk": ["kind"], "ek": ["stoich_r", "stoich_p"]},
    {"name": "species-stoich", "bip": False, "stoich": False, "nk": ["kind"], "ek": ["role", "stoich"]},
    {"name": "bip+stoich+label", "bip": True, "stoich": True, "nk": ["kind", "label"], "ek": ["role", "stoich"]},
]
CFG = {c["name"]: c for c in CONFIGS}
SETLIKE = ("via", "rules", "stoich_r_map", "stoich_p_map")


# ---------------------------------------------------------------- encoding helpers
def enc(x):
    """Python attribute value -> driver Val JSON (sets sorted, dicts as sorted pair lists)."""
    if x is None:
        return None
    if isinstance(x, bool):
        return {"b": x}
    if isinstance(x, str):
        return {"s": x}
    if isinstance(x, int):
        return {"n": 2 * x}
    if isinstance(x, float):
        if x * 2 != int(x * 2):
            raise ValueError(f"non half-integral number {x!r}")
        return {"n": int(x * 2)}
    if isinstance(x, (set, frozenset)):
        return {"t": [enc(y) for y in sorted(x, key=repr)]}
    if isinstance(x, dict):
        return {"t": [{"t": [enc(k), enc(v)]} for k, v in sorted(x.items(), key=lambda kv: repr(kv[0]))]}
    if isinstance(x, (list, tuple)):
        return {"t": [enc(y) for y in x]}
    raise ValueError(f"unsupported attribute value {x!r}")


def norm_attrs(a):
    """Attrs JSON -> canonical comparable form (set-like attributes sorted)."""
    out = {}
    for k, v in a.items():
        if k in SETLIKE and isinstance(v, dict) and "t" in v:
            v = {"t": sorted(v["t"], key=lambda z: json.dumps(z, sort_keys=True))}
        out[k] = v
    return json.dumps(out, sort_keys=True)


def norm_graph(g):
    return (sorted((n, norm_attrs(a)) for n, a in g["nodes"]), sorted((u, v, norm_attrs(a)) for u, v, a in g["edges"]))


def enc_graph(G, name):
    return {"nodes": [[name(n), {str(k): enc(v) for k, v in d.items()}] for n, d in G.nodes(data=True)],
            "edges": [[name(u), name(v), {str(k): enc(x) for k, x in d.items()}] for u, v, d in G.edges(data=True)]}


def key_graph(g, cfg):
    """What 'identical canonical graphs' compares: ids, selected node attributes, arcs with selected attributes."""
    nk, ek = cfg["nk"], cfg["ek"]
    return (sorted((n, json.dumps([a.get(k) for k in nk], sort_keys=True)) for n, a in g["nodes"]),
            sorted((u, v, json.dumps([a.get(k) for k in ek], sort_keys=True)) for u, v, a in g["edges"]))


def partition(classes, name):
    return sorted(sorted(name(x) for x in c) for c in classes)


def is_partition(classes, ids):
    flat = [x for c in classes for x in c]
    return all(len(c) > 0 for c in classes) and len(flat) == len(set(flat)) and set(flat) == set(ids)


def mapping_list(m, name):
    return sorted([name(p), name(h)] for p, h in m.items())


# ---------------------------------------------------------------- implementation adapter
def build(net):
    from synkit.CRN.Hypergraph.hypergraph import CRNHyperGraph

    H = CRNHyperGraph()
    for rx in net["rxns"]:
        H.add_rxn(dict((s, c) for s, c in rx["r"]), dict((s, c) for s, c in rx["p"]), rule=rx.get("rule"), edge_id=rx.get("eid"))
    for k, s in enumerate(net.get("isolated", [])):
        if s not in H.species:
            H.add_rxn({s: 1}, {}, rule="iso", edge_id=f"__iso{k}")
            H.remove_species(s, prune_orphans=False)
    return H


def model_net(H):
    """The store's content as the model's `Net` (species and reactions in sorted order)."""
    labels = sorted(H.species)
    idx = {s: i for i, s in enumerate(labels)}
    rxns = []
    for eid, e in sorted(H.edges.items()):
        rxns.append({"id": eid, "rule": e.rule, "r": [[idx[s], int(c)] for s, c in e.reactants.items()],
                     "p": [[idx[s], int(c)] for s, c in e.products.items()]})
    return {"labels": labels, "rxns": rxns}


_ID_SITES = None


def id_call_sites():
    """Names of the functions of canon.py that call `id(...)` (AST scan, once per process)."""
    global _ID_SITES
    if _ID_SITES is None:
        import ast
        import inspect
        import synkit.CRN.Topo.canon as cm

        sites = []
        tree = ast.parse(inspect.getsource(cm))
        for fn in ast.walk(tree):
            if isinstance(fn, (ast.FunctionDef, ast.AsyncFunctionDef)):
                for n in ast.walk(fn):
                    if isinstance(n, ast.Call) and isinstance(n.func, ast.Name) and n.func.id == "id":
                        sites.append(fn.name)
        _ID_SITES = sorted(set(sites))
    return _ID_SITES


def epoch_schedules(make):
    """Canonical graph and count with `id` (as seen by synkit.CRN.Topo.canon) replaced by a counter
    (no two epochs alias) and by a constant (all epochs alias).  `id()` values of dead temporaries may
    repeat arbitrarily in CPython, so both are legal allocator behaviours."""
    import synkit.CRN.Topo.canon as cm

    out = {}
    had = "id" in cm.__dict__
    saved = cm.__dict__.get("id")
    box = [0]

    def fresh(_o):
        box[0] += 1
        return box[0]

    try:
        for nm, fn in (("fresh", fresh), ("aliased", lambda _o: 0)):
            cm.id = fn
            x = make().summary()
            out[nm] = {"graph": enc_graph(x["canon_graph"], int), "count": int(x["automorphism_count"])}
    finally:
        if had:
            cm.id = saved
        else:
            cm.__dict__.pop("id", None)
    return out


def impl_eval(net, cfg):
    """Run both analysers (and the WL canonicaliser) on one network under one configuration."""
    from synkit.CRN.Topo.canon import CRNCanonicalizer
    from synkit.CRN.Topo.automorphism import CRNAutomorphism
    from synkit.CRN.Topo.wl_canon import WLCanonicalizer

    H = build(net)
    mnet = model_net(H)
    labels, eids = mnet["labels"], [r["id"] for r in mnet["rxns"]]
    collision = sorted(set(labels) & set(eids))
    res = {"mnet": mnet, "collision": collision, "errors": {}}
    names = {s: i for i, s in enumerate(labels)}
    if cfg["bip"]:
        for j, e in enumerate(eids):
            names[e] = len(labels) + j
    res["n_expected"] = len(names) if not (cfg["bip"] and collision) else len(labels) + len(eids)
    ambiguous = bool(cfg["bip"] and collision)

    def name(x):
        return names[x]

    kw = dict(include_rule=cfg["bip"], include_stoich=cfg["stoich"], node_attr_keys=tuple(cfg["nk"]))
    # -- canonicaliser
    try:
        cz = CRNCanonicalizer(H, edge_attr_keys=tuple(cfg["ek"]), **kw)
        G = cz.G
        res["n_nodes"] = G.number_of_nodes()
        if ambiguous:
            return res
        res["G"] = enc_graph(G, name)
        s = cz.summary()
        cg = s["canon_graph"]
        res["canon"] = {
            "graph": enc_graph(cg, int),
            "perm": [name(v) for v in s["canonical_perm"]],
            "count": int(s["automorphism_count"]),
            "orbits_raw": [sorted(name(x) for x in o) for o in s["orbits"]],
            "maps": sorted(mapping_list(m, name) for m in s["mappings"]),
            "early": bool(s["early_stop"]),
        }
        # determinism: the same object asked again, and a fresh object
        s2 = cz.summary()
        s3 = CRNCanonicalizer(H, edge_attr_keys=tuple(cfg["ek"]), **kw).summary()
        res["canon"]["repeat"] = [{"graph": enc_graph(x["canon_graph"], int), "count": int(x["automorphism_count"])} for x in (s2, s3)]
        # the refinement's signature cache is keyed by id() of a temporary: run the search under the two
        # extreme schedules of that id (never repeated / always repeated); a transparent cache gives equal results
        # (only when `id` is used by `_refine` alone: shadowing it elsewhere could break a legitimate use)
        res["canon"]["id_sites"] = id_call_sites()
        if res["canon"]["id_sites"] == ["_refine"]:
            res["canon"]["epochs"] = epoch_schedules(lambda: CRNCanonicalizer(H, edge_attr_keys=tuple(cfg["ek"]), **kw))
        if G.number_of_nodes() <= 9:
            res["canon"]["nontrivial"] = bool(cz.has_nontrivial_automorphism())
            res["canon"]["orbits_method"] = [sorted(name(x) for x in o) for o in cz.orbits()]
            res["canon"]["graph_method"] = enc_graph(cz.graph(), int)
    except Exception as e:  # noqa: BLE001 - any exception is an observable of the check
        res["errors"]["canon"] = f"{type(e).__name__}: {e}"
    if ambiguous:
        return res
    # -- VF2 analyser
    try:
        try:
            a = CRNAutomorphism(H, edge_attr_keys=tuple(cfg["ek"]), **kw)
            res["vf2_edge_keys"] = True
        except TypeError:
            a = CRNAutomorphism(H, **kw)  # tree without the edge_attr_keys parameter
            res["vf2_edge_keys"] = False
        r = a.summary(max_count=10 ** 7, timeout_sec=None)
        res["vf2"] = {
            "count": int(r["automorphism_count"]),
            "orbits_raw": [sorted(name(x) for x in o) for o in r["orbits"]],
            "maps": sorted(mapping_list(m, name) for m in r["sample_mappings"]),
            "stopped": bool(r["stopped_early"]),
            "used": int(r["mapping_count_used"]),
            "nontrivial": bool(a.has_nontrivial_automorphism(timeout_sec=None)),
            "iter_count": sum(1 for _ in a.iter()),
        }
        try:
            ob = a.orbits(max_count=10 ** 7, timeout_sec=10 ** 6)
            res["vf2"]["orbits_method"] = [sorted(name(x) for x in o) for o in ob]
        except Exception as e:  # noqa: BLE001
            res["errors"]["vf2.orbits()"] = f"{type(e).__name__}: {e}"
    except Exception as e:  # noqa: BLE001
        res["errors"]["vf2"] = f"{type(e).__name__}: {e}"
    # -- WL canonicaliser (documented as approximate: only faithfulness of its graph is gated)
    try:
        w = WLCanonicalizer(H, edge_attr_keys=tuple(cfg["ek"]), **kw).summary()
        res["wl"] = {"graph": enc_graph(w["canon_graph"], int), "cells": [sorted(name(x) for x in o) for o in w["orbits"]]}
    except Exception as e:  # noqa: BLE001
        res["errors"]["wl"] = f"{type(e).__name__}: {e}"
    return res


# ---------------------------------------------------------------- evaluation of families
_POOL = None


def _job(a):
    return impl_eval(a[0], CFG[a[1]])


def pmap(args):
    """impl_eval over many (net, config) pairs; a process pool is used for large batches only
    (results are a pure function of the arguments, order is kept)."""
    global _POOL
    if len(args) < 64:
        return [_job(a) for a in args]
    if _POOL is None:
        import multiprocessing as mp
        _POOL = mp.get_context("fork").Pool(8)
    return _POOL.map(_job, args, chunksize=8)


def sel(cfg):
    return {"node_keys": cfg["nk"], "edge_keys": cfg["ek"]}


def evaluate(ctx, families, tag, all_pairs=True, shrink=True):
    """families: list of (nets, cfg_names).  Every member is analysed under every configuration;
    members are compared pairwise (all pairs, or each with member 0) for kernel agreement."""
    L = ctx.lean()
    jobs = [(fi, ni, cn) for fi, (nets, cfgs) in enumerate(families) for ni in range(len(nets)) for cn in cfgs]
    results = pmap([(families[fi][0][ni], cn) for fi, ni, cn in jobs])
    items = [(fi, ni, cn, r) for (fi, ni, cn), r in zip(jobs, results)]  # (fi, ni, cfg, impl result)
    # round 1: the model's views
    views = L.ok([{"cmd": "crn.view", "net": it[3]["mnet"], "bip": CFG[it[2]]["bip"], "stoich": CFG[it[2]]["stoich"]} for it in items], shards=8)
    # round 2: analysis of every view + spec verdicts on what the implementation returned
    reqs, slots = [], []
    for k, (fi, ni, cn, r) in enumerate(items):
        cfg, vg = CFG[cn], views[k]["graph"]
        reqs.append({"cmd": "crn.analyse", "graph": vg, **sel(cfg)}); slots.append((k, "analyse"))
        if len(vg["nodes"]) <= 9:
            reqs.append({"cmd": "crn.isos", "host": vg, "pattern": vg, **sel(cfg)}); slots.append((k, "auts"))
        if "canon" in r:
            reqs.append({"cmd": "crn.canonBy", "graph": vg, "perm": r["canon"]["perm"]}); slots.append((k, "canonBy"))
            reqs.append({"cmd": "crn.iso", "host": vg, "pattern": r["canon"]["graph"], **sel(cfg)}); slots.append((k, "canon_iso"))
            reqs.append({"cmd": "crn.checkMaps", "host": vg, "pattern": vg, "maps": r["canon"]["maps"][:50], **sel(cfg)}); slots.append((k, "canon_maps_ok"))
        if "vf2" in r:
            reqs.append({"cmd": "crn.checkMaps", "host": vg, "pattern": vg, "maps": r["vf2"]["maps"][:50], **sel(cfg)}); slots.append((k, "vf2_maps_ok"))
        if "wl" in r:
            reqs.append({"cmd": "crn.iso", "host": vg, "pattern": r["wl"]["graph"], **sel(cfg)}); slots.append((k, "wl_iso"))
    # kernel pairs
    index = {(fi, ni, cn): k for k, (fi, ni, cn, _) in enumerate(items)}
    pairs = []
    for fi, (nets, cfgs) in enumerate(families):
        pr = list(itertools.combinations(range(len(nets)), 2)) if all_pairs else [(0, j) for j in range(1, len(nets))]
        for cn in cfgs:
            for i, j in pr:
                ki, kj = index[(fi, i, cn)], index[(fi, j, cn)]
                if "canon" in items[ki][3] and "canon" in items[kj][3]:
                    pairs.append((fi, cn, i, j, ki, kj))
                    reqs.append({"cmd": "crn.iso", "host": views[ki]["graph"], "pattern": views[kj]["graph"], **sel(CFG[cn])})
                    slots.append((len(pairs) - 1, "pair"))
    answers = L.ok(reqs, shards=8)
    lean = [dict() for _ in items]
    pair_iso = {}
    for (k, what), ans in zip(slots, answers):
        if what == "pair":
            pair_iso[k] = ans
        else:
            lean[k][what] = ans

    def classes_of(r):
        return [F19] if r["collision"] else []

    seen = getattr(ctx, "_c18_seen", None)
    if seen is None:
        seen = ctx._c18_seen = {}

    def report(what, fi, members, cn, detail, r_list, single=None):
        nets = [families[fi][0][m] for m in members]
        cls = sorted({c for r in r_list for c in classes_of(r)})
        case = {"nets": nets, "config": cn}
        key = (what, tuple(cls))
        seen[key] = seen.get(key, 0) + 1
        if seen[key] > 3:  # keep the report readable: at most three inputs per kind of failure
            ctx.count("further_violations_not_listed:" + what)
            return
        if single is not None and shrink and not cls and seen[key] == 1:
            small = shrink_net(ctx, nets[0], cn, what)
            if small is not None:
                case = {"nets": [small], "config": cn}
        ctx.violation(what, case, {"stream": tag, **detail}, classes=cls)

    for k, (fi, ni, cn, r) in enumerate(items):
        cfg, view, lk = CFG[cn], views[k], lean[k]
        vg = view["graph"]
        n_nodes, n_arcs = len(vg["nodes"]), len(vg["edges"])
        ctx.count(f"config:{cn}")
        ctx.count(f"view_nodes:{min(n_nodes, 12)}")
        ctx.count("aut_count:" + ("1" if lk["analyse"]["count"] == 1 else "2" if lk["analyse"]["count"] == 2 else ">2"))
        if r["collision"]:
            ctx.count("class:" + F19)
        ctx.case([r["mnet"], cn], nontrivial=(n_nodes >= 3 and n_arcs >= 2),
                 sample={"stream": tag, "net": families[fi][0][ni], "config": cn} if n_nodes <= 5 else None)
        for where, msg in r["errors"].items():
            report(f"{where} raised an exception", fi, [ni], cn, {"error": msg}, [r], single=True)
        if not view["wf"] or not view["wfd"]:
            ctx.violation("model precondition: generated network / view not well formed", {"nets": [families[fi][0][ni]], "config": cn}, no_input=True)
            continue
        # 0. view construction
        if "G" not in r:
            if cfg["bip"] and r["collision"]:
                report("bipartite view merges a species node with a reaction node (species label equals a reaction id)", fi, [ni], cn,
                       {"collision": r["collision"], "impl_nodes": r.get("n_nodes"), "expected_nodes": n_nodes}, [r])
            continue
        if norm_graph(r["G"]) != norm_graph(vg):
            report("view built by the back-end differs from the network's view (nodes / arcs / attributes)", fi, [ni], cn,
                   {"impl": r["G"], "model": vg}, [r], single=True)
            continue
        ids = [n for n, _ in vg["nodes"]]
        want = lk["analyse"]
        # 1. canonical graph
        c = r.get("canon")
        if c is not None:
            if c["early"]:
                report("canonicaliser reports early_stop without limits", fi, [ni], cn, {}, [r], single=True)
            cb = lk["canonBy"]
            spec_ok = bool(lk["canon_iso"])
            ids_ok = sorted(n for n, _ in c["graph"]["nodes"]) == list(range(1, n_nodes + 1))
            if not spec_ok:
                report("canonical graph is not isomorphic to the view it was computed from", fi, [ni], cn,
                       {"canon_graph": c["graph"], "view": vg}, [r], single=True)
            elif not cb["is_order"] or not ids_ok:
                report("canonical permutation does not list every node exactly once (canonical ids are not 1..N)", fi, [ni], cn,
                       {"canonical_perm": c["perm"], "canon_ids": sorted(n for n, _ in c["graph"]["nodes"]), "nodes": ids}, [r], single=True)
            elif norm_graph(cb["graph"]) != norm_graph(c["graph"]):
                report("canonical graph is not the view relabelled along canonical_perm", fi, [ni], cn,
                       {"canon_graph": c["graph"], "model": cb["graph"]}, [r], single=True)
            kg = key_graph(c["graph"], cfg)
            for x in c.get("repeat", []):
                if key_graph(x["graph"], cfg) != kg or x["count"] != c["count"]:
                    report("the same network canonicalised twice in one process receives different canonical graphs / counts", fi, [ni], cn,
                           {"first": c["graph"], "again": x["graph"]}, [r])
                    break
            ctx.count("id()_call_sites_in_canon.py:" + (",".join(c.get("id_sites", [])) or "none"))
            ep = c.get("epochs", {})
            if ep and (key_graph(ep["fresh"]["graph"], cfg) != key_graph(ep["aliased"]["graph"], cfg) or ep["fresh"]["count"] != ep["aliased"]["count"]):
                report("canonical graph depends on whether id() of the refinement's temporary repeats (signature cache keyed by id() is not transparent)", fi, [ni], cn,
                       {"never_repeats": ep["fresh"], "always_repeats": ep["aliased"]}, [r], single=True)
            if "graph_method" in c and norm_graph(c["graph_method"]) != norm_graph(c["graph"]):
                report("graph() and summary()['canon_graph'] differ", fi, [ni], cn, {}, [r], single=True)
            check_aut(report, "CRNCanonicalizer", c, lk, want, ids, fi, ni, cn, r, lk.get("canon_maps_ok"))
        # 3. VF2 analyser
        v = r.get("vf2")
        if v is not None:
            if v["stopped"] or v["used"] != v["count"] or v["iter_count"] != v["count"]:
                report("CRNAutomorphism: enumeration stopped early / counts inconsistent without limits", fi, [ni], cn,
                       {k2: v[k2] for k2 in ("stopped", "used", "count", "iter_count")}, [r], single=True)
            check_aut(report, "CRNAutomorphism", v, lk, want, ids, fi, ni, cn, r, lk.get("vf2_maps_ok"))
        # WL: faithfulness gated; coarsening recorded
        w = r.get("wl")
        if w is not None:
            if not lk["wl_iso"] or sorted(n for n, _ in w["graph"]["nodes"]) != list(range(1, n_nodes + 1)):
                report("WL canonical graph is not isomorphic to the view it was computed from", fi, [ni], cn, {"wl_graph": w["graph"]}, [r], single=True)
            cell = {x: i for i, cl in enumerate(w["cells"]) for x in cl}
            coarse = all(len({cell.get(x) for x in o}) == 1 for o in want["orbits"])
            ctx.count("wl_cells_coarsen_orbits:" + str(coarse))
            ctx.count("wl_cells_equal_orbits:" + str(sorted(w["cells"]) == want["orbits"]))
    # 2. kernel agreement
    for pk, (fi, cn, i, j, ki, kj) in enumerate(pairs):
        ri, rj = items[ki][3], items[kj][3]
        if "G" not in ri or "G" not in rj:
            continue
        same = key_graph(ri["canon"]["graph"], CFG[cn]) == key_graph(rj["canon"]["graph"], CFG[cn])
        iso = bool(pair_iso[pk])
        ctx.count(f"kernel_pair:{'iso' if iso else 'non-iso'}")
        if same != iso:
            what = ("networks whose views are isomorphic (renaming / reaction order / ids) receive different canonical graphs" if iso
                    else "networks whose views are not isomorphic receive identical canonical graphs")
            report(what, fi, [i, j], cn, {"canon_i": ri["canon"]["graph"], "canon_j": rj["canon"]["graph"]}, [ri, rj])


def check_aut(report, who, a, lk, want, ids, fi, ni, cn, r, maps_ok):
    """Automorphism count, mapping set and orbits of one analyser against the Lean specification."""
    if a["count"] != want["count"]:
        report(f"{who}: automorphism count differs from the number of structure-preserving self-maps of the view", fi, [ni], cn,
               {"impl": a["count"], "spec": want["count"]}, [r], single=True)
    if maps_ok is not None and not all(maps_ok):
        report(f"{who}: a reported mapping is not a structure-preserving self-map of the view", fi, [ni], cn,
               {"mappings": a["maps"][:50], "verdicts": maps_ok}, [r], single=True)
    if "auts" in lk and a["count"] == want["count"] and a["maps"] != lk["auts"]:
        report(f"{who}: reported mappings are not exactly the structure-preserving self-maps", fi, [ni], cn,
               {"impl": a["maps"][:20], "spec": lk["auts"][:20]}, [r], single=True)
    for field in ("orbits_raw", "orbits_method"):
        if field not in a:
            continue
        if not is_partition(a[field], ids):
            report(f"{who}: reported orbits are not a partition of the nodes (repeated / overlapping / missing class)", fi, [ni], cn,
                   {"impl": a[field], "nodes": ids, "source": field}, [r], single=True)
        elif sorted(a[field]) != want["orbits"]:
            report(f"{who}: reported orbits differ from the classes of nodes exchangeable by automorphisms", fi, [ni], cn,
                   {"impl": sorted(a[field]), "spec": want["orbits"], "source": field}, [r], single=True)
    if want["orbits"] != want["orbits_uf"]:
        report("model: union-find orbits differ from the orbit specification", fi, [ni], cn, {}, [r])
    if "nontrivial" in a and a["nontrivial"] != (want["count"] > 1):
        report(f"{who}: has_nontrivial_automorphism() disagrees with the automorphism count", fi, [ni], cn,
               {"impl": a["nontrivial"], "spec_count": want["count"]}, [r], single=True)


# ---------------------------------------------------------------- shrinking
class _Probe:
    """Minimal Ctx stand-in collecting violations of a re-evaluation."""

    def __init__(self, ctx):
        self.violations, self._ctx, self._c18_seen = [], ctx, {}

    def lean(self):
        return self._ctx.lean()

    def count(self, *a, **k):
        pass

    def case(self, *a, **k):
        pass

    def violation(self, what, case, detail=None, classes=(), no_input=False):
        self.violations.append(what)


def still_fails(ctx, net, cn, what):
    try:
        p = _Probe(ctx)
        evaluate(p, [([net], [cn])], "shrink", shrink=False)
        return what in p.violations
    except Exception:  # noqa: BLE001 - a candidate that cannot be built is not a smaller failing input
        return False


def shrink_net(ctx, net, cn, what, budget=60):
    cur = json.loads(json.dumps(net))
    n = 0
    changed = True
    while changed and n < budget:
        changed = False
        cands = []
        for i in range(len(cur["rxns"])):
            c = json.loads(json.dumps(cur)); del c["rxns"][i]; cands.append(c)
        for i, rx in enumerate(cur["rxns"]):
            for side in ("r", "p"):
                for k, (s, co) in enumerate(rx[side]):
                    c = json.loads(json.dumps(cur)); del c["rxns"][i][side][k]
                    if c["rxns"][i]["r"] or c["rxns"][i]["p"]:
                        cands.append(c)
                    if co > 1:
                        c = json.loads(json.dumps(cur)); c["rxns"][i][side][k][1] = co - 1; cands.append(c)
        if cur.get("isolated"):
            c = json.loads(json.dumps(cur)); c["isolated"] = []; cands.append(c)
        for c in cands:
            n += 1
            if n > budget:
                break
            if still_fails(ctx, c, cn, what):
                cur, changed = c, True
                break
    return cur


# ---------------------------------------------------------------- generators
def rx(r, p, rule=None, eid=None):
    return {"r": [[s, c] for s, c in r], "p": [[s, c] for s, c in p], "rule": rule, "eid": eid}


def rename_net(net, rnd, pool=None, keep_labels=False, ids="regen"):
    """Same network up to species names, reaction order and reaction ids."""
    sp = sorted({s for r in net["rxns"] for s, _ in r["r"] + r["p"]} | set(net.get("isolated", [])))
    if keep_labels:
        new = sp[:]
        rnd.shuffle(new)
    else:
        pool = pool or ["S%d" % i for i in range(12)] + ["X", "Y", "Z", "W", "aa", "b2", "Q_1", "m", "n", "10"]
        new = rnd.sample(pool, len(sp))
    m = dict(zip(sp, new))
    rxns = []
    for k, r in enumerate(net["rxns"]):
        r_side = [[m[s], c] for s, c in r["r"]]
        p_side = [[m[s], c] for s, c in r["p"]]
        rnd.shuffle(r_side); rnd.shuffle(p_side)
        eid = None
        if ids == "explicit":
            eid = "e%d_%d" % (rnd.randrange(100), k)
        rxns.append({"r": r_side, "p": p_side, "rule": r["rule"], "eid": eid})
    rnd.shuffle(rxns)
    return {"rxns": rxns, "isolated": [m[s] for s in net.get("isolated", [])]}


def permute_net(net, perm, reverse):
    """Exhaustive stream: apply a permutation of the species labels; optionally reverse reaction order."""
    rxns = [{"r": [[perm[s], c] for s, c in r["r"]], "p": [[perm[s], c] for s, c in r["p"]], "rule": r["rule"], "eid": None} for r in net["rxns"]]
    if reverse:
        rxns.reverse()
    return {"rxns": rxns, "isolated": [perm[s] for s in net.get("isolated", [])]}


def near_miss(net, rnd):
    """One edit: a coefficient, the direction of one arc, or one rule label. -> (net, kind) or None"""
    c = json.loads(json.dumps(net))
    if not c["rxns"]:
        return None
    kind = rnd.choice(["coef", "coef", "arc", "arc", "rule", "swap"])
    r = rnd.choice(c["rxns"])
    if kind == "coef":
        side = rnd.choice([s for s in ("r", "p") if r[s]])
        e = rnd.choice(r[side])
        e[1] = e[1] + 1 if e[1] == 1 or rnd.random() < 0.5 else e[1] - 1
    elif kind == "arc":
        side = rnd.choice([s for s in ("r", "p") if r[s]])
        other = "p" if side == "r" else "r"
        e = rnd.choice(r[side])
        if any(s == e[0] for s, _ in r[other]):
            return None
        r[side].remove(e); r[other].append(e)
    elif kind == "swap":
        r["r"], r["p"] = r["p"], r["r"]
    else:
        r["rule"] = rnd.choice([x for x in ["r", "R1", "R2", "k"] if x != (r["rule"] or "r")])
    for q in c["rxns"]:
        q["eid"] = None
    return c, kind


def random_net(rnd, max_species=6, max_rxns=5):
    ns = rnd.randint(2, max_species)
    sp = [chr(65 + i) for i in range(ns)]
    nr = rnd.randint(1, max_rxns)
    rules = rnd.choice([[None], [None], ["R1", None], ["R1", "R2", None]])
    rxns = []
    for _ in range(nr):
        if rxns and rnd.random() < 0.15:
            q = json.loads(json.dumps(rnd.choice(rxns)))  # repeated reaction
            rxns.append(q)
            continue
        kr = rnd.choice([0, 1, 1, 1, 2, 2, 3])
        kp = rnd.choice([0, 1, 1, 1, 2, 2, 3])
        if kr + kp == 0:
            kr = 1
        R = rnd.sample(sp, min(kr, ns))
        P = rnd.sample(sp, min(kp, ns))  # may overlap R: catalysts
        if rnd.random() < 0.7:
            P = [s for s in P if s not in R] or P
        co = lambda: rnd.choice([1, 1, 1, 2, 2, 3])
        rxns.append(rx([(s, co()) for s in R], [(s, co()) for s in P], rule=rnd.choice(rules)))
    return {"rxns": rxns, "isolated": (["I"] if rnd.random() < 0.08 else [])}


def symmetric_families():
    fams = []
    L = [chr(65 + i) for i in range(8)]
    for n in (2, 3, 4, 5, 6):
        fams.append(("ring%d" % n, {"rxns": [rx([(L[i], 1)], [(L[(i + 1) % n], 1)]) for i in range(n)]}))
    fams.append(("A+B<=>C", {"rxns": [rx([("A", 1), ("B", 1)], [("C", 1)]), rx([("C", 1)], [("A", 1), ("B", 1)])]}))
    fams.append(("2A+B>>C", {"rxns": [rx([("A", 2), ("B", 1)], [("C", 1)])]}))
    fams.append(("A+B>>C", {"rxns": [rx([("A", 1), ("B", 1)], [("C", 1)])]}))
    fams.append(("A+B>>2C+D", {"rxns": [rx([("A", 1), ("B", 1)], [("C", 2), ("D", 1)])]}))
    fams.append(("2A+2B>>C", {"rxns": [rx([("A", 2), ("B", 2)], [("C", 1)])]}))
    fams.append(("star-out", {"rxns": [rx([("A", 1)], [(L[i], 1)]) for i in range(1, 5)]}))
    fams.append(("star-in", {"rxns": [rx([(L[i], 1)], [("A", 1)]) for i in range(1, 5)]}))
    fams.append(("dup3", {"rxns": [rx([("A", 1)], [("B", 1)]) for _ in range(3)]}))
    fams.append(("dup2-rules", {"rxns": [rx([("A", 1)], [("B", 1)], "R1"), rx([("A", 1)], [("B", 1)], "R2"), rx([("A", 1)], [("B", 1)], "R1")]}))
    fams.append(("two-components", {"rxns": [rx([("A", 1)], [("B", 1)]), rx([("C", 1)], [("D", 1)])]}))
    fams.append(("two-components-stoich", {"rxns": [rx([("A", 2)], [("B", 1)]), rx([("C", 1)], [("D", 2)])]}))
    fams.append(("ring3-2x", {"rxns": [rx([(L[i], 2)], [(L[(i + 1) % 3], 1)]) for i in range(3)]}))
    fams.append(("ring4-alt", {"rxns": [rx([(L[i], 1 + i % 2)], [(L[(i + 1) % 4], 1)]) for i in range(4)]}))
    fams.append(("catalyst", {"rxns": [rx([("A", 1), ("B", 1)], [("A", 1), ("C", 1)])]}))
    fams.append(("autocatalysis", {"rxns": [rx([("A", 1), ("B", 1)], [("A", 2)]), rx([("A", 1), ("C", 1)], [("A", 2)])]}))
    fams.append(("loop-vs-2cycle", {"rxns": [rx([("A", 1)], [("A", 1)]), rx([("B", 1)], [("C", 1)]), rx([("C", 1)], [("B", 1)])]}))
    fams.append(("source-sink", {"rxns": [rx([], [("A", 1)]), rx([("A", 1)], []), rx([], [("B", 1)]), rx([("B", 1)], [])]}))
    fams.append(("K33", {"rxns": [rx([("A", 1), ("B", 1), ("C", 1)], [("D", 1), ("E", 1), ("F", 1)])]}))
    fams.append(("isolated", {"rxns": [rx([("A", 1)], [("B", 1)])], "isolated": ["C", "D"]}))
    fams.append(("zero-and-negative-coefficients-dropped", {"rxns": [rx([("A", 0), ("B", 1)], [("C", 1), ("D", -1)]), rx([("C", 1)], [("B", 1)])]}))
    fams.append(("empty", {"rxns": []}))
    fams.append(("only-isolated", {"rxns": [], "isolated": ["A", "B"]}))
    return fams


def f19_nets():
    return [
        {"rxns": [rx([("r_1", 1)], [("B", 1)])]},
        {"rxns": [rx([("A", 1)], [("r_1", 1)]), rx([("r_1", 2)], [("C", 1)])]},
        {"rxns": [rx([("A", 1)], [("B", 1)], "R1"), rx([("R1_1", 1), ("A", 1)], [("C", 1)])]},
        {"rxns": [rx([("A", 1)], [("B", 1)], eid="B"), rx([("B", 1)], [("C", 1)])]},
        {"rxns": [rx([("A", 1), ("B", 1)], [("C", 1)], eid="x"), rx([("x", 1)], [("A", 1)], eid="y")]},
    ]


SIDES10 = [[]] + [[(s, 1)] for s in "ABC"] + [[(s, 2)] for s in "ABC"] + [[("A", 1), ("B", 1)], [("A", 1), ("C", 1)], [("B", 1), ("C", 1)]]
SIDES19 = SIDES10 + [[(a, ca), (b, cb)] for a, b in (("A", "B"), ("A", "C"), ("B", "C")) for ca, cb in ((1, 2), (2, 1), (2, 2))]
S3 = [dict(zip("ABC", p)) for p in itertools.permutations("ABC")]


def canon_under_s3(rxns):
    """Representative test: is this reaction list the least among its images under S3 (as sorted JSON)?"""
    def key(rs):
        return sorted(json.dumps([sorted(r), sorted(p)]) for r, p in rs)
    k0 = key(rxns)
    for perm in S3[1:]:
        img = [([(perm[s], c) for s, c in r], [(perm[s], c) for s, c in p]) for r, p in rxns]
        if key(img) < k0:
            return False
    return True


def exhaustive_nets(two_reactions):
    """All networks over the species A, B, C up to species permutation: one reaction over 19 sides
    (<= 2 species, coefficients <= 2), or two reactions over 10 sides (side size <= 2)."""
    out = []
    R19 = [(r, p) for r in SIDES19 for p in SIDES19 if r or p]
    for r, p in R19:
        if canon_under_s3([(r, p)]):
            out.append({"rxns": [rx(r, p)]})
    if two_reactions:
        R10 = [(r, p) for r in SIDES10 for p in SIDES10 if r or p]
        for a, b in itertools.combinations_with_replacement(range(len(R10)), 2):
            pair = [R10[a], R10[b]]
            if canon_under_s3(pair):
                out.append({"rxns": [rx(*pair[0]), rx(*pair[1])]})
    return out


def load_regress():
    d = ROOT / "regress" / "C18"
    return [json.loads(f.read_text()) for f in sorted(d.glob("*.json"))] if d.exists() else []


def batches(xs, n):
    for i in range(0, len(xs), n):
        yield xs[i:i + n]


# ---------------------------------------------------------------- entry points
ALL = [c["name"] for c in CONFIGS]


def run(ctx):
    ctx.trusted = [
        "Lean 4.33 kernel; axioms of the property theorems as listed in obligation_list",
        "hand-written model SynKitModel/CrnCanon.lean (views, directed isomorphism specification + enumerator, orbits, canonBy, canonBruteD) "
        "tied to /repo by this correspondence run (not by translation)",
        "Driver/CrnCanon.lean JSON codec, harness/props/c18.py adapter (string node ids interned: species i -> i, reaction j -> nS+j, both in sorted order; "
        "sets / per-id maps of the species view compared as sets / dicts)",
        "the two id() schedules used for the cache-transparency gate shadow the name `id` inside synkit.CRN.Topo.canon only (its single use is the epoch key of _refine)",
        "the IR search of CRNCanonicalizer and NetworkX DiGraphMatcher are not modelled: their outputs are gated against the proven specification "
        "(count, mapping set, orbit partition, faithfulness, kernel agreement) on every generated case",
    ]
    ctx.assumptions = [
        "networks are built through CRNHyperGraph.add_rxn with mapping sides (store consistency is C15); species labels / rules / ids are plain strings",
        "'structure-preserving' is read with the node and arc attribute keys the analyser is configured with (DESIGN 5a); 'identical canonical graphs' = equal node ids 1..N, "
        "equal selected node attributes, equal arc sets with equal selected arc attributes",
        "WLCanonicalizer is documented as approximate: only faithfulness of its relabelled graph is gated; its cells are recorded against the exact orbits",
    ]
    ctx.gen_rule = (
        "regression corpus first; symmetric families (rings of 2..6 identical reactions, A+B<=>C, 2A+B>>C, stars, repeated reactions, components, catalysts, "
        "self-loop vs 2-cycle, sources/sinks, K33, isolated species, empty) each with renamed / reordered / re-identified copies and one-edit near misses; "
        "exhaustive networks over species A,B,C up to species permutation (1 reaction over 19 sides; 2 reactions over 10 sides: all in thorough, a seeded sample in quick), "
        "each under all 6 species permutations; random networks (2..6 species, 1..5 reactions, coefficients 1..3, catalysts, repeated reactions, rules from a 3-letter alphabet, "
        "isolated species) with 2 renamings (fresh labels, shuffled sides and reaction order, generated or explicit ids) and 2 near misses (one coefficient, one arc moved "
        "across the arrow, sides swapped, one rule label); a few networks with a species named like a reaction id (finding F19). Every member is analysed under 5 configurations "
        "(bipartite/species view x stoichiometry on/off, plus kind+label node keys).")
    ctx.nontrivial_rule = "(store content, configuration) distinct as a JSON value; the view has >= 3 nodes and >= 2 arcs"
    build_and_audit(ctx, ["SynKitProofs.Props.C18"], "SynKitProofs/Audit/C18.lean", THEOREMS)
    rnd = ctx.rnd

    reg = load_regress()
    for case in reg:
        evaluate(ctx, [(case["nets"], case.get("configs", ALL))], "regress", shrink=False)
    ctx.count("regress_cases", len(reg))

    # symmetric families
    fams = []
    for name, net in symmetric_families():
        members = [net, rename_net(net, rnd), rename_net(net, rnd, ids="explicit"), rename_net(net, rnd, keep_labels=True)]
        for _ in range(2):
            nm = near_miss(net, rnd)
            if nm:
                members.append(nm[0]); ctx.count("near_miss:" + nm[1])
        fams.append((members, ALL))
    evaluate(ctx, fams, "symmetric")
    ctx.count("families:symmetric", len(fams))

    # F19 class
    evaluate(ctx, [([n, rename_net(n, rnd)], ALL) for n in f19_nets()], "f19")

    # exhaustive small networks under all species permutations
    ex1 = exhaustive_nets(False)
    ex2 = exhaustive_nets(True)[len(ex1):]
    if ctx.quick:
        ex2 = rnd.sample(ex2, 90)
    fams = []
    for net in ex1 + ex2:
        members = [net] + [permute_net(net, perm, reverse=(k % 2 == 1)) for k, perm in enumerate(S3[1:])]
        fams.append((members, ALL))
    for b in batches(fams, 150):
        if len(ctx.violations) < 20:
            evaluate(ctx, b, "exhaustive3", all_pairs=False)
    ctx.count("families:exhaustive-1rxn", len(ex1))
    ctx.count("families:exhaustive-2rxn", len(ex2))
    ctx.extra["exhaustive"] = not ctx.quick
    ctx.extra["exhaustive_part"] = ("all networks over 3 species up to species permutation with 1 reaction (sides of <=2 species, coefficients <=2)"
                                    + (" and with 2 reactions (side size <=2)" if not ctx.quick else " (2-reaction networks sampled in the quick tier)")
                                    + ", each under all 6 species permutations")

    # random networks
    nrand = 140 if ctx.quick else 1500
    fams = []
    for _ in range(nrand):
        net = random_net(rnd)
        members = [net, rename_net(net, rnd), rename_net(net, rnd, ids=rnd.choice(["regen", "explicit"]), keep_labels=rnd.random() < 0.3)]
        for _ in range(2):
            nm = near_miss(net, rnd)
            if nm:
                members.append(nm[0]); ctx.count("near_miss:" + nm[1])
        fams.append((members, ALL))
    for b in batches(fams, 100):
        if len(ctx.violations) < 20:
            evaluate(ctx, b, "random")
    ctx.count("families:random", len(fams))
    real = [v for v in ctx.violations if F19 not in v["classes"]]
    ctx.obligation("correspondence: views, canonical graphs (faithful, kernel agreement), automorphism counts / mappings / orbits impl == proven specification", not real)


def replay(ctx, case):
    c = case["case"]
    evaluate(ctx, [(c["nets"], [c["config"]] if "config" in c else c.get("configs", ALL))], "replay", shrink=False)
